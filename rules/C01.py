"""C01 - parallel_for / parallel_foreach / parallel_in_blocks_of run every index exactly once and join.

Decided statically (DESIGN.md section 5, C01), for the four tasking configurations TBB / OMP / INTERNAL / DEBUG:
  W-C01-1  the 8 accepted index types compile with parallel_for under every backend
  W-C01-2  char / float / unsigned short / a functor with a mismatching parameter are rejected by a static_assert
  W-C01-3  parallel_in_blocks_of compiles for every accepted index type
  R-C01-1  dispatch: on every CFG path the backend receives the whole count and the body exactly once
           (tbb::parallel_for(0,n,f) | canonical counting loop [+ omp parallel for] | parallel_for_internal(n,f));
           INTERNAL chain: task set of size n, ExecuteRange = canonical loop over its partition, one
           AddTaskSetToPipe that hands [0, m_SetSize) to SplitAndAddTask
  R-C01-2  join: waitInternal(&task) post-dominates scheduleTaskInternal(&task) on the same live stack object and
           reaches a loop that only exits on m_RunningCount == 0; OMP directive is a combined `parallel for`
  R-C01-3  every integral conversion on the path count -> backend and backend index -> functor preserves every value
           it can carry (exact preserved-set computation over the conversion chain, per index type)
  R-C01-4  parallel_in_blocks_of: (numBlocks, begin, end) == (ceil(n/B), b*B, min(b*B+B, n)) in linear normal form,
           nothing invoked for n <= 0, and no intermediate can leave its computation type
  R-C01-5  parallel_foreach: count == distance(begin,end), element i == begin[i] (address arithmetic on &*begin only
           for iterators that are known to be contiguous), container overload forwards begin/end
  R-C01-6e pipe slot protocol order (claim by CAS / CAN_WRITE test -> buffer access -> flag hand-over -> barrier -> index)
  R-C01-6  enkiTS accounting: running-count token discipline in SplitAndAddTask / TryRunTask (increment before
           publication, exactly one decrement after each ExecuteRange through the same task), SplitTask and the
           inline re-cut keep [executed) + [remaining) an exact cover of the owned partition, plain stores to
           m_RunningCount only before publication
"""
import os
import re
from concurrent.futures import ThreadPoolExecutor

from rkstatic.x_intalg import (Lin, LinEnv, access_path, cast_chain, clean_type, cmp_atom, const_value,
                               fmt_intervals, irange, is_signed, ite_atom, leaf, lin, negate_cmp, path_str, preserved, flow, clip)

from rkstatic.x_intalg import bool_atom as bool_atom_any


def bool_atom(tu, e, env=None):
    """comparison atom of a Boolean expression (conjunctions are only used by the path enumeration)"""
    a = bool_atom_any(tu, e, env)
    return a if a is not None and a[0] == 'cmp' else None


LEVEL = 'other'
EXPLANATION = (
    "For each of the four tasking configurations the instantiated dispatch code (8 index types, foreach, blocks, nested "
    "call) is analysed on clang CFGs: a path-counting analysis with sign refinement on the count decides that every path "
    "hands the whole range and the functor to the backend exactly once (or provably has count <= 0); counting loops are "
    "checked against the canonical form (start, strict bound, unit step after exactly one body call per iteration); "
    "post-dominance decides the schedule/wait join of the internal backend; an exact preserved-value-set computation over "
    "each chain of integral conversions decides that no count or index is altered on its way; linear normal forms decide "
    "the block partition and the enkiTS range splitting; a token automaton decides the running-count pairing. "
    "Not decided: linearizability of the lock-free pipe and visibility under the hardware memory model, that TBB / OpenMP "
    "honour their contracts, behaviour of the user functor.")

NS = 'rkcommon::tasking::'
IMPL = NS + 'detail::parallel_for_impl'
PFOR = NS + 'parallel_for'
PINT = NS + 'detail::parallel_for_internal'
BLOCKS = NS + 'parallel_in_blocks_of'
FOREACH = NS + 'parallel_foreach'
SCHED = NS + 'detail::scheduleTaskInternal'
WAIT = NS + 'detail::waitInternal'
TS = 'enki::TaskScheduler::'
F_INL = 'rkcommon/tasking/detail/parallel_for.inl'
F_PFOR = 'rkcommon/tasking/parallel_for.h'
F_FOREACH = 'rkcommon/tasking/parallel_foreach.h'
F_TASKSYS_H = 'rkcommon/tasking/detail/TaskSys.h'
F_TASKSYS = 'rkcommon/tasking/detail/TaskSys.cpp'
F_ENKI = 'rkcommon/tasking/detail/enkiTS/TaskScheduler.cpp'
F_ENKI_H = 'rkcommon/tasking/detail/enkiTS/TaskScheduler.h'
DRIVER = 'drivers/c01_parallel.cpp'
CONFIGS = ['TBB', 'OMP', 'INTERNAL', 'DEBUG']
INDEX_TYPES = ['unsigned char', 'short', 'int', 'unsigned int', 'long', 'long long', 'unsigned long long',
               'unsigned long']
CALLS = ('CallExpr', 'CXXMemberCallExpr', 'CXXOperatorCallExpr')
TBB_RX = re.compile(r'^tbb::(detail::d\d+::|interface\d+::|internal::|strict_ppl::)?parallel_for$')


# =====================================================================================================
#  small AST helpers
# =====================================================================================================
def unwrap_fwd(tu, e):
    """strip casts and std::forward / std::move around an expression"""
    n = leaf(tu, e)
    hops = 0
    while n is not None and n.get('kind') == 'CallExpr' and tu.sd(n).get('q') in ('std::forward', 'std::move') and hops < 4:
        ks = tu.kids(n)
        if len(ks) < 2:
            break
        n = leaf(tu, ks[1])
        hops += 1
    return n


def obj_path(tu, e):
    return access_path(tu, unwrap_fwd(tu, e))


def param_path(p):
    return ('v', p['id'], p['name'])


def fn_stmts(tu, f):
    """all AST nodes of a function body (JSON walk; includes the statements captured by an OpenMP directive)"""
    b = tu.body(f)
    return list(tu.walk(b)) if b is not None else []


def refs_to(tu, f, declid):
    return [n for n in fn_stmts(tu, f) if n.get('kind') == 'DeclRefExpr' and n.get('referencedDecl', {}).get('id') == declid]


def is_rvalue_read(tu, ref):
    """the reference is read by value, or bound to a reference-to-const (cannot be written through)"""
    p = tu.par(ref)
    if p is None or p.get('kind') != 'ImplicitCastExpr':
        return False
    if p.get('castKind') == 'LValueToRValue':
        return True
    return p.get('castKind') == 'NoOp' and (p.get('type') or {}).get('qualType', '').startswith('const ')


def show(tu, n):
    return tu.show(n).replace('NonTypeTemplateParmDecl', 'BLOCK_SIZE')


def short_type(f):
    ta = f.get('targs') or []
    return ', '.join(ta)


def inst_name(f, cfgname):
    q = f['q'].replace(NS, '')
    return '[%s] %s<%s>' % (cfgname, q, short_type(f)) if f.get('targs') else '[%s] %s %s' % (cfgname, q, f['fty'])


def call_args(tu, n):
    s, obj, args = tu.call_parts(n)
    if n.get('kind') == 'CXXOperatorCallExpr' and obj is None and args and s.get('q', '').split('::')[-1].startswith('operator') \
            and s.get('fty', '').rstrip().endswith('const') or \
            (n.get('kind') == 'CXXOperatorCallExpr' and obj is None and args and s.get('q', '').endswith('::operator()')):
        return s, args[0], args[1:]
    return s, obj, args


# =====================================================================================================
#  sign refinement on the count parameter
# =====================================================================================================
INF = float('inf')
SIGN_IV = {'N': (-INF, -1), 'Z': (0, 0), 'P': (1, INF)}


def sign_truth(tu, cond, ppath):
    """{sign: set of possible truth values} of a branch condition that only speaks about the count, else None"""
    a = bool_atom(tu, cond)
    if a is None:
        return None
    _, rel, d = a
    if set(d.t) != {('p', ppath)}:
        return None
    co = d.t[('p', ppath)]
    out = {}
    for s, (lo, hi) in SIGN_IV.items():
        vals = sorted((co * lo + d.c, co * hi + d.c)) if abs(lo) != INF and abs(hi) != INF else None
        if vals is None:
            x = [float(co) * lo + float(d.c), float(co) * hi + float(d.c)]
            elo, ehi = min(x), max(x)
        else:
            elo, ehi = vals
        if rel == '<':
            t = {True} if ehi < 0 else {False} if elo >= 0 else {True, False}
        elif rel == '<=':
            t = {True} if ehi <= 0 else {False} if elo > 0 else {True, False}
        elif rel == '==':
            t = {True} if elo == ehi == 0 else {False} if (elo > 0 or ehi < 0) else {True, False}
        else:
            t = {False} if elo == ehi == 0 else {True} if (elo > 0 or ehi < 0) else {True, False}
        out[s] = t
    return out


def count_paths(tu, g, events, ppath, signs0, truth_fn=None):
    """Explore the CFG with state (number of dispatch events so far capped at 2, possible signs of the count, passed a
    branch whose relation to the count is unknown).  events: {stmt id: label}.  truth_fn(cond) -> {sign: truths} | None
    decides conditions that speak about the count indirectly.
    Returns (exits {(count, signs, unk)}, seen {stmt id: set of signs at the event})."""
    seen = {}

    def transfer(blk, idx, e, st):
        if e[0] == 'S' and e[1] in events:
            seen.setdefault(e[1], set()).update(st[1])
            return [(min(2, st[0] + 1), st[1], st[2])]
        return [st]

    def refine(blk, si, st):
        if blk.cond is None or len(blk.succ) != 2 or ppath is None:
            return [st]
        tr = sign_truth(tu, tu.node(blk.cond), ppath)
        if tr is None and truth_fn is not None:
            tr = truth_fn(tu.node(blk.cond))
        if tr is None:
            return [(st[0], st[1], True)]      # could be a guard on the count in a form that is not understood
        want = (si == 0)
        keep = frozenset(s for s in st[1] if want in tr[s])
        return [(st[0], keep, st[2])] if keep else []

    res = g.explore([(0, frozenset(signs0), False)], transfer, refine)
    return {st for st, via in res.exits if not g.blocks[via].noret}, seen


def signs_of_type(ct):
    return 'NZP' if is_signed(ct) else 'ZP'


def once_verdict(exits, und=None):
    """(kind, text) problems from the exit states of count_paths; a skipped dispatch behind a branch condition that was
    not understood is not a finding: it is appended to `und` (undecided) instead"""
    probs = []
    for cnt, signs, unk in sorted(exits, key=lambda x: (x[0], sorted(x[1]), x[2])):
        if cnt == 0 and 'P' in signs:
            if unk:
                if und is not None:
                    und.append('a path skips the dispatch behind a branch condition whose relation to the count is not recognised')
                continue
            probs.append(('never', 'a path returns without handing the range to the backend although the count can be positive'))
        elif cnt >= 2:
            probs.append(('twice', 'a path hands the range to the backend more than once'))
        elif cnt == 1 and False:
            pass
    return sorted(set(probs))


# =====================================================================================================
#  canonical counting loop
# =====================================================================================================
class LoopInfo:
    def __init__(self):
        self.problems = []     # (kind, text, node)
        self.undecided = []    # text
        self.ivar = None       # access path of the induction variable
        self.itype = None
        self.init_node = None  # VarDecl init expression
        self.decl_stmt = None  # DeclStmt id of the induction variable (event for path counting)
        self.bound_node = None
        self.rel = None
        self.call = None
        self.step_lin = None   # amount the induction variable advances by per iteration
        self.step_node = None
        self.calls = []        # every call of the functor with the loop index inside the loop
        self.arg = None
        self.cond_ops = None   # (i operand expr, bound operand expr) of the comparison
        self.header = None


def natural_loop(g, header):
    pr = g.preds()
    dom = g.dominators()
    body = {header}
    work = [b for b in pr[header] if header in dom.get(b, ())]
    while work:
        b = work.pop()
        if b in body:
            continue
        body.add(b)
        work.extend(pr[b])
    return body


def find_writes(tu, g, blocks):
    """[(access path, kind, node)] for ++/--/=/op= statements inside the given blocks"""
    out = []
    for bid in blocks:
        for e in g.blocks[bid].el:
            if e[0] != 'S':
                continue
            n = tu.node(e[1])
            if n is None:
                continue
            k = n.get('kind')
            if k == 'UnaryOperator' and n.get('opcode') in ('++', '--'):
                out.append((access_path(tu, tu.kids(n)[0]), n['opcode'], n))
            elif k == 'CompoundAssignOperator':
                out.append((access_path(tu, tu.kids(n)[0]), n.get('opcode'), n))
            elif k == 'BinaryOperator' and n.get('opcode') == '=':
                out.append((access_path(tu, tu.kids(n)[0]), '=', n))
    return out


def analyse_counting_loops(tu, f, g, fun_paths, exp_start, exp_bound, allow_ne=False):
    """every loop of the function analysed as a canonical counting loop; [] if there is none.  Nested loops are not a
    recognised form (one LoopInfo carrying the undecided reason)."""
    heads = sorted({t for s_, t in g.back_edges()})
    for h1 in heads:
        for h2 in heads:
            if h1 != h2 and h2 in natural_loop(g, h1):
                li = LoopInfo()
                li.undecided.append('nested loops in the function')
                return [li]
    return [analyse_counting_loop(tu, f, g, fun_paths, exp_start, exp_bound, allow_ne, head=h) for h in heads]


def analyse_counting_loop(tu, f, g, fun_paths, exp_start, exp_bound, allow_ne=False, head=None, free_step=False):
    """The function must contain exactly one loop, of the canonical counting form
         for (T i = <start>; i < <bound>; ++i) { ... f(i) exactly once ... }
    exp_start / exp_bound: Lin the start / bound must equal.  fun_paths: access paths that denote the functor."""
    li = LoopInfo()
    heads = sorted({t for s, t in g.back_edges()})
    if not heads:
        return None
    if head is not None:
        heads = [head]
    if len(heads) != 1:
        li.undecided.append('more than one loop in the function (%d loop heads)' % len(heads))
        return li
    H = g.blocks[heads[0]]
    li.header = H
    if H.cond is None or len(H.succ) != 2 or H.succ[0] is None or H.succ[1] is None:
        li.undecided.append('loop without a two-way exit condition at its head')
        return li
    L = natural_loop(g, H.id)
    cond = tu.node(H.cond)
    denv = make_env(tu, local_defs(tu, [f]))
    a = bool_atom(tu, cond, denv)
    if a is None:
        li.undecided.append('loop condition `%s` is not a comparison' % tu.show(cond))
        return li
    _, rel, d = a
    writes = find_writes(tu, g, L)
    written = {w[0] for w in writes}
    cands = [at for at in d.t if at[0] == 'p' and at[1] in written and len(at[1]) == 3]
    if len(cands) != 1:
        li.undecided.append('cannot identify the induction variable of `%s` (written variables in the condition: %d)'
                            % (tu.show(cond), len(cands)))
        return li
    iat = cands[0]
    ipath = iat[1]
    li.ivar = ipath
    co = d.t[iat]
    rest = Lin({k: v for k, v in d.t.items() if k != iat}, d.c)
    # normalise to  i REL bound
    if co == 1:
        bound = -rest
        op = rel
    elif co == -1:
        bound = rest
        op = {'<': '>', '<=': '>=', '==': '==', '!=': '!='}[rel]
    else:
        li.undecided.append('induction variable scaled in the loop condition `%s`' % tu.show(cond))
        return li
    li.rel = op
    cn = leaf(tu, cond)
    # operands of the comparison, for the conversion lint
    if cn is not None and cn.get('kind') == 'BinaryOperator':
        ks = tu.kids(cn)
        li.cond_ops = [(k_, access_path(tu, k_) == ipath) for k_ in ks]
    # ---- declaration / start
    vd = tu.node(ipath[1])
    if vd is None or vd.get('kind') != 'VarDecl':
        li.undecided.append('induction variable `%s` is not a local variable' % ipath[2])
        return li
    li.itype = clean_type((vd.get('type') or {}).get('qualType'))
    vks = tu.kids(vd)
    if not vks:
        li.undecided.append('induction variable `%s` has no initialiser' % ipath[2])
        return li
    li.init_node = vks[0]
    ict = tu.sd(leaf(tu, vks[0])).get('ct')
    # canonical type of the variable: from any reference to it
    refs = refs_to(tu, f, ipath[1])
    if refs:
        li.itype = clean_type(tu.sd(refs[0]).get('ct')) or li.itype
    start = lin(tu, vks[0], denv)
    for b, i, n in g.stmts():
        if n.get('kind') == 'DeclStmt' and any(k_.get('id') == ipath[1] for k_ in tu.kids(n)):
            li.decl_stmt = n['id']
    if li.decl_stmt is None:
        li.undecided.append('declaration of the induction variable is not a CFG element')
        return li
    if g.where(li.decl_stmt)[0] in L:
        li.undecided.append('induction variable is declared inside the loop')
        return li
    if start != exp_start:
        if (start - exp_start).is_const():
            li.problems.append(('start', 'loop starts at `%r` instead of `%r`' % (start, exp_start), vks[0]))
        else:
            li.undecided.append('loop start `%r` is not recognised as `%r`' % (start, exp_start))
    # ---- bound
    li.bound = bound
    if op == '<':
        eff = bound
    elif op == '<=':
        eff = bound + Lin.const(1)
    elif op == '!=':
        eff = bound
        if not allow_ne and is_signed(li.itype):
            li.problems.append(('cond', 'loop condition `%s` uses != on a signed count: a negative count does not stop the loop'
                                % tu.show(cond), cond))
    else:
        li.problems.append(('cond', 'loop condition `%s` does not bound the index from above' % tu.show(cond), cond))
        eff = None
    if eff is not None and eff != exp_bound:
        diff = eff - exp_bound
        if diff.is_const():
            li.problems.append(('cond', 'loop condition `%s` runs indices below `%r` instead of `%r` (off by %d)'
                                % (tu.show(cond), eff, exp_bound, diff.c), cond))
        else:
            li.undecided.append('loop bound `%r` is not recognised as `%r`' % (eff, exp_bound))
    elif eff is not None and op == '<=':
        li.undecided.append('loop condition `%s` uses <= with a decremented bound (wrap-around of the bound not modelled)' % tu.show(cond))
    # ---- writes of the induction variable
    all_writes = find_writes(tu, g, set(g.blocks))
    iw = [w for w in all_writes if w[0] == ipath]
    step = None
    if len(iw) != 1:
        li.problems.append(('step', 'induction variable `%s` is written %d times (expected exactly one unit increment per iteration)'
                            % (ipath[2], len(iw)), iw[0][2] if iw else cond))
    else:
        _, k, wn = iw[0]
        ok = False
        if k == '++':
            ok = True
        elif k == '+=' and const_value(tu, tu.kids(wn)[1]) == 1:
            ok = True
        elif k == '=':
            ok = lin(tu, tu.kids(wn)[1]) == Lin.atom(('p', ipath)) + Lin.const(1)
        li.step_lin = Lin.const(1) if k == '++' else None
        if k == '+=':
            li.step_lin = lin(tu, tu.kids(wn)[1], denv)
        elif k == '=':
            li.step_lin = lin(tu, tu.kids(wn)[1], denv) - Lin.atom(('p', ipath))
        li.step_node = wn
        if not ok and not (free_step and li.step_lin is not None and k in ('+=', '=')):
            li.problems.append(('step', 'induction variable is advanced by `%s`, not by a unit increment' % tu.show(wn), wn))
        if g.where(wn['id']) is None or g.where(wn['id'])[0] not in L:
            li.problems.append(('step', 'the increment of `%s` is outside the loop' % ipath[2], wn))
        step = wn
    # ---- uses of the induction variable: reads only
    for r in refs:
        if is_rvalue_read(tu, r):
            continue
        p = tu.par(r)
        if step is not None and p is not None and p.get('id') == step.get('id'):
            continue
        if p is not None and p.get('kind') == 'VarDecl':
            continue
        li.undecided.append('induction variable `%s` is used other than by value at %s' % (ipath[2], tu.loc(r)))
    # ---- body calls
    calls = {}
    for bid in L:
        for e in g.blocks[bid].el:
            if e[0] != 'S':
                continue
            n = tu.node(e[1])
            if n is None or n.get('kind') not in CALLS:
                continue
            s, obj, args = call_args(tu, n)
            is_fun = obj is not None and obj_path(tu, obj) in fun_paths and s.get('q', '').endswith('operator()')
            if is_fun:
                if len(args) != 1:
                    li.problems.append(('body', 'functor is called with %d arguments' % len(args), n))
                    continue
                ap = access_path(tu, args[0])
                if ap == ipath:
                    calls[n['id']] = n
                    li.calls.append(n)
                    li.call = n
                    li.arg = args[0]
                else:
                    al = lin(tu, args[0])
                    dd = al - Lin.atom(('p', ipath))
                    if dd.is_const():
                        li.problems.append(('body', 'functor is called with `%r` instead of the loop index' % al, n))
                    else:
                        li.undecided.append('functor argument `%s` is not the loop index' % tu.show(args[0]))
            else:
                for a_ in ([obj] if obj is not None else []) + list(args):
                    if obj_path(tu, a_) in fun_paths:
                        li.undecided.append('functor is passed to `%s` inside the loop' % s.get('q', '?'))
    # ---- per-iteration exploration: exactly one call, then the step
    start_blk = H.succ[0]
    results = set()
    seen = set()
    work = [(start_blk, (0, 0, False))]
    while work:
        bid, st = work.pop()
        if (bid, st) in seen:
            continue
        seen.add((bid, st))
        if bid == H.id:
            results.add(('head', st))
            continue
        if bid not in L:
            results.add(('left', st))
            continue
        c, s_, bad = st
        for e in g.blocks[bid].el:
            if e[0] != 'S':
                continue
            if e[1] in calls:
                if s_ > 0:
                    bad = True
                c = min(2, c + 1)
            elif step is not None and e[1] == step['id']:
                s_ = min(2, s_ + 1)
        for su in g.blocks[bid].succ:
            if su is not None:
                work.append((su, (c, s_, bad)))
    for where, (c, s_, bad) in sorted(results):
        if where == 'left':
            li.problems.append(('body', 'the loop can be left from inside its body (break / return) before all indices ran', cond))
            continue
        if c == 0:
            li.problems.append(('body', 'an iteration can complete without calling the functor (index skipped)', cond))
        if c >= 2:
            li.problems.append(('body', 'the functor is called more than once in one iteration', li.call or cond))
        if s_ == 0 and step is not None:
            li.problems.append(('step', 'an iteration can complete without advancing the index', step))
        if s_ >= 2:
            li.problems.append(('step', 'the index is advanced more than once in one iteration', step))
        if bad:
            li.problems.append(('body', 'the index is advanced before the functor is called with it', li.call or cond))
    li.problems = sorted(set((k, t, n_['id']) for k, t, n_ in li.problems))
    li.problems = [(k, t, tu.node(i)) for k, t, i in li.problems]
    return li


# =====================================================================================================
#  R-C01-3 helper: value-preserving conversion chains
# =====================================================================================================
def check_chain(ctx, tu, inst, what, chain, lo, hi, loc, file, fn_name, cfgname, tail=''):
    """chain: canonical types from the source to the consumer; [lo,hi]: values the source can carry here"""
    R = 'R-C01-3'
    if len(chain) < 1:
        ctx.undecided(R, inst, '%s: no type information' % what, loc)
        return False
    r = preserved(chain, lo, hi)
    label = ' -> '.join(chain)
    if r is None:
        ctx.undecided(R, inst, '%s: conversion chain %s contains a non-integer type' % (what, label), loc)
        return False
    kept, lost = r
    if not lost:
        ctx.ok(R, '%s %s' % (inst, what), '%s preserves %s' % (label, fmt_intervals(kept)), loc, nontrivial=len(chain) > 1)
        return True
    below = any(b < 0 for a, b in lost)
    above = any(b >= 0 for a, b in lost)
    for side, flag in (('negative', below), ('large', above)):
        if not flag:
            continue
        part = [(a, b) for a, b in lost if (b < 0) == (side == 'negative')]
        ctx.violation(R, '%s %s' % (inst, what),
                      '%s passes through %s, which does not preserve the values %s%s'
                      % (what, label, fmt_intervals(part), tail), loc,
                      key='%s|%s|%s|%s%s-%s' % (R, file, fn_name, (cfgname + ':') if cfgname else '', what.split(' ')[0], side))
    return False


def range_for_signs(ct, signs):
    r = irange(ct)
    if r is None:
        return None, None
    lo, hi = r
    if 'N' not in signs:
        lo = max(lo, 0)
    if 'Z' not in signs and lo == 0:
        lo = 1
    if 'P' not in signs:
        hi = min(hi, 0)
    return lo, hi


# =====================================================================================================
#  R-C01-1 / R-C01-2 / R-C01-3 on detail::parallel_for_impl and parallel_for
# =====================================================================================================
def storage_of(tu, e, fn, depth=0):
    """('auto'|'static'|'thread'|None, description) of the object an lvalue expression designates: 'auto' = automatic variable
    of function fn (lives for one call), 'static'/'thread' = static / thread storage duration (survives the call).
    Calls of inlinable functions that return a reference are followed to what they return."""
    n = leaf(tu, e)
    if n is None or depth > 3:
        return None, '?'
    k = n.get('kind')
    if k == 'DeclRefExpr':
        did = n.get('referencedDecl', {}).get('id')
        vd = tu.node(did)
        name = n.get('referencedDecl', {}).get('name', '?')
        if vd is None or vd.get('kind') != 'VarDecl':
            return None, name            # parameter, binding, or a declaration outside the analysed tree
        if vd.get('tls'):
            return 'thread', '`%s` (thread_local)' % name
        enc = tu.enclosing_fn(vd)
        if enc is None:
            return 'static', '`%s` (namespace scope)' % name
        if vd.get('storageClass') in ('static', 'extern'):
            return 'static', '`%s` (a static local of %s)' % (name, enc.get('name', '?'))
        if (vd.get('type') or {}).get('qualType', '').rstrip().endswith('&'):
            ks = tu.kids(vd)
            return storage_of(tu, ks[0], fn, depth + 1) if ks else (None, name)
        return ('auto', '`%s`' % name) if enc.get('id') == fn.get('id') or enc.get('id') == fn.get('pat') or \
            tu.enclosing_fn(n) is not None and tu.enclosing_fn(n).get('id') == enc.get('id') else (None, name)
    if k in CALLS:
        cf = inlinable(tu, n)
        if cf is None:
            return None, tu.show(n)
        rets = [x for b, i, x in tu.cfg(cf).stmts() if x.get('kind') == 'ReturnStmt' and tu.kids(x)]
        res = {storage_of(tu, tu.kids(x)[0], cf, depth + 1) for x in rets}
        if len(res) == 1:
            d, w = next(iter(res))
            return d if d != 'auto' else None, '%s returned by %s()' % (w, tu.sd(n).get('q', '?').split('::')[-1])
        return None, tu.show(n)
    return None, tu.show(n)


def readonly_param(tu, f, p, allow_omp=True):
    """None if the parameter is only read by value, else a description of the offending use"""
    for r in refs_to(tu, f, p['id']):
        if is_rvalue_read(tu, r):
            continue
        par = tu.par(r)
        if allow_omp and par is not None and par.get('kind', '').startswith('OMP'):
            continue
        if par is not None and par.get('kind') in ('CapturedStmt', 'LambdaExpr'):
            continue        # captured; the uses inside the captured body are checked like the others
        return 'parameter `%s` is used other than by value at %s' % (p['name'], tu.loc(r))
    return None


def tbb_range_dispatch(ctx, tu, f, call, args, pn, pf, env, cfgname, inst, file, fnname):
    """tbb::parallel_for(tbb::blocked_range<T>(0, n[, grain]), body): the range must be [0, count); the body must run the
    canonical counting loop over [r.begin(), r.end()) of the sub-range it is given, calling the functor once per index."""
    out = dict(und=[], problems=[], recognised={call['id']}, count=None)
    und, probs = out['und'], out['problems']
    ppath, fpath = param_path(pn), param_path(pf)
    nct = clean_type(pn['ct'])
    rng = leaf(tu, args[0])
    if rng is not None and rng.get('kind') == 'DeclRefExpr':
        vd = tu.node(rng.get('referencedDecl', {}).get('id'))
        if vd is not None and vd.get('kind') == 'VarDecl' and tu.kids(vd):
            rng = leaf(tu, tu.kids(vd)[0])
    while rng is not None and rng.get('kind') in ('CXXFunctionalCastExpr', 'CXXBindTemporaryExpr') and tu.kids(rng):
        rng = leaf(tu, tu.kids(rng)[-1])
    if rng is None or rng.get('kind') not in ('CXXTemporaryObjectExpr', 'CXXConstructExpr') or \
            not tu.sd(rng).get('q', '').endswith('blocked_range'):
        und.append('the range argument of tbb::parallel_for is not a blocked_range built in place')
        return out
    ra = [a for a in tu.kids(rng) if a.get('kind') != 'CXXDefaultArgExpr']
    m = re.match(r'void \((.*)\)$', tu.sd(rng).get('fty', ''))
    rpt = [x.strip() for x in m.group(1).split(', ')] if m else []
    if len(ra) < 2 or len(rpt) < 2 or irange(rpt[0]) is None:
        und.append('blocked_range constructor `%s` is not the (begin, end[, grainsize]) form' % tu.sd(rng).get('fty'))
        return out
    first = const_value(tu, ra[0])
    if first is None:
        und.append('begin `%s` of the blocked_range is not a constant' % tu.show(ra[0]))
    elif first != 0:
        probs.append(('tbb-first', 'the blocked_range starts at %d instead of 0' % first, call))
    ll = lin(tu, ra[1], env)
    N = Lin.atom(('p', ppath))
    if ll != N:
        if (ll - N).is_const():
            probs.append(('tbb-last', 'the blocked_range ends at `%r` instead of the count `%s`' % (ll, pn['name']), call))
        else:
            und.append('end `%s` of the blocked_range is not recognised as the count' % tu.show(ra[1]))
    if len(ra) >= 3:
        gs = const_value(tu, ra[2])
        if gs is None or gs < 1:
            und.append('grainsize `%s` of the blocked_range is not a positive constant' % tu.show(ra[2]))
    out['count'] = (ra[1], clean_type(rpt[1]))
    for ai in range(2, len(args)):
        ct_ = clean_type(tu.sd(args[ai]).get('ct')) or ''
        if 'partitioner' not in ct_:
            und.append('unrecognised extra argument `%s` of tbb::parallel_for' % tu.show(args[ai]))
    # ---- the body
    opf, caps = callable_of(tu, args[1])
    if opf is None or tu.cfg(opf) is None or len(opf['params']) != 1 or 'blocked_range<' not in opf['params'][0]['ct']:
        und.append('the body argument of tbb::parallel_for is not a lambda / function object taking a blocked_range')
        return out
    og = tu.cfg(opf)
    rpath = param_path(opf['params'][0])
    fun_paths = {p_ for p_, src in caps.items() if src == fpath} or {fpath}
    # r.begin() / r.end(): member calls on the range parameter
    begin_l = end_l = None
    for b, i, x in og.stmts():
        if x.get('kind') == 'CXXMemberCallExpr':
            s_, obj, a_ = tu.call_parts(x)
            if obj is not None and access_path(tu, obj) == rpath and not a_:
                nm = s_.get('q', '').split('::')[-1]
                if nm == 'begin':
                    begin_l = Lin.atom(('opaque', tu.show(x)))
                elif nm == 'end':
                    end_l = Lin.atom(('opaque', tu.show(x)))
    if begin_l is None or end_l is None:
        und.append('the range body does not use r.begin() / r.end()')
        return out
    loops = analyse_counting_loops(tu, opf, og, fun_paths, begin_l, end_l, allow_ne=True)
    if len(loops) != 1:
        und.append('the range body has %d loops (expected one counting loop over its sub-range)' % len(loops))
        return out
    li = loops[0]
    und += ['range body: ' + u for u in li.undecided]
    for k_, t_, n_ in ([] if li.undecided else li.problems):
        probs.append(('tbb-body-' + k_, t_, n_))
    if li.decl_stmt and not li.undecided:
        ex, _ = count_paths(tu, og, {li.decl_stmt: 1}, None, 'P')
        for k_, t_ in once_verdict(ex):
            probs.append(('tbb-body-' + k_, 'a path through the range body does not run its sub-range exactly once', None))
    # uses of the functor that build the body object (in the call itself or in the local that holds the body)
    bl = leaf(tu, args[1])
    holder = bl.get('referencedDecl', {}).get('id') if bl is not None and bl.get('kind') == 'DeclRefExpr' else None
    for r in refs_to(tu, f, pf['id']):
        if any(x.get('id') in (call['id'], holder) for x in ancestors(tu, r, 12)):
            out['recognised'].add(r['id'])
    # conversions: index -> functor parameter
    if li.arg is not None and not li.undecided:
        M = irange(nct)[1]
        lf, ch = cast_chain(tu, li.arg)
        check_chain(ctx, tu, inst, 'index to the functor', ch, 0, max(M - 1, 0), tu.loc(li.arg), file, fnname, cfgname)
        ir = irange(li.itype)
        if ir is not None and ir[1] < M:
            probs.append(('loop-index-type', 'induction variable of type %s cannot reach counts up to %d of type %s' % (li.itype, M, nct),
                          li.init_node))
    if not und and not probs:
        ctx.ok('R-C01-1', inst + ' range body', 'blocked_range(0, count) with a body that runs [r.begin(), r.end()) once per index',
               tu.loc(call))
    return out


def cursor_dispatch(tu, f, call, args, fi, first, pn, pf, defs):
    """The `worker` dispatch form: tbb::parallel_for(0, W, body) where every body instance repeatedly takes
         begin = cursor.fetch_add(chunk)          (cursor: a std::atomic local of this call, initially 0)
         if (!(begin < n)) stop
         for i in [begin, min(begin + chunk, n)) : fcn(i)
    The pieces handed out are disjoint multiples of chunk and every piece below n is taken by somebody as long as one body
    runs: exactly-once holds iff chunk >= 1, W >= 1 and the cursor never leaves the range of its type.  Every body instance
    performs one last fetch_add at or beyond n, so the cursor reaches n - 1 + W * chunk.
    Returns None if the call is not of this shape at all; otherwise dict(und, problems, recognised, ok)."""
    lamf, caps = callable_of(tu, args[fi])
    if lamf is None or caps or tu.cfg(lamf) is None or len(lamf['params']) != 1:
        return None
    lg = tu.cfg(lamf)
    ppath, fpath = param_path(pn), param_path(pf)
    fetches = [n for b, i, n in lg.stmts() if n.get('kind') == 'CXXMemberCallExpr' and
               tu.sd(n).get('q', '').split('::')[-1] in ('fetch_add', 'operator+=', 'operator++')]
    if not fetches or not refs_inside(tu, lamf, pf['id']):
        return None
    out = dict(und=[], problems=[], recognised={call['id']}, ok='')
    und, probs = out['und'], out['problems']
    nct = clean_type(pn['ct'])
    M = irange(nct)[1]
    N = Lin.atom(('p', ppath))
    if first != 0:
        und.append('worker form: first index of the outer tbb::parallel_for is not 0')
    # W >= 1
    wdef = through_defs_simple(tu, args[1], defs)
    wl = leaf(tu, wdef)
    wq = tu.sd(wl).get('q', '') if wl is not None and wl.get('kind') in CALLS else ''
    wv = const_value(tu, wdef)
    if not (wq.endswith('max_concurrency') or (wv is not None and wv >= 1)):
        und.append('worker form: cannot show that the number of worker bodies `%s` is at least 1' % tu.show(args[1]))
    if len(fetches) != 1 or tu.sd(fetches[0]).get('q', '').split('::')[-1] != 'fetch_add':
        und.append('worker form: the cursor is advanced by %d operations (expected one fetch_add)' % len(fetches))
        return out
    fa = fetches[0]
    s_, cobj, cargs = tu.call_parts(fa)
    cpath = access_path(tu, cobj) if cobj is not None else None
    cvd = tu.node(cpath[1]) if cpath and len(cpath) == 3 else None
    if cvd is None or cvd.get('kind') != 'VarDecl' or tu.enclosing_fn(cvd) is None or cvd.get('storageClass') == 'static':
        und.append('worker form: the cursor `%s` is not an automatic variable of the dispatching call' % tu.show(cobj))
        return out
    cty = (cvd.get('type') or {}).get('qualType', '')
    cct = clean_type(tu.sd(cobj).get('ct')) or cty
    m = re.match(r'^(?:std::)?(?:__)?atomic(?:_base)?<(.*)>$', cct)
    T = clean_type(m.group(1)) if m else None
    if T is None or irange(T) is None:
        und.append('worker form: the cursor has type %s, not std::atomic<integer>' % cct)
        return out
    civ = tu.kids(cvd)
    c0 = const_value(tu, tu.kids(leaf(tu, civ[0]))[0]) if civ and leaf(tu, civ[0]) is not None and tu.kids(leaf(tu, civ[0])) else \
        (const_value(tu, civ[0]) if civ else None)
    if c0 != 0:
        probs.append(('tbb-cursor-start', 'the shared cursor starts at %s instead of 0' % c0, cvd)) if c0 is not None else \
            und.append('worker form: initial value of the cursor is not a constant')
    other = [r for r in refs_to(tu, f, cpath[1]) if not any(x.get('id') == fa['id'] for x in ancestors(tu, r, 6)) and
             (tu.par(r) or {}).get('kind') != 'LambdaExpr']
    if other:
        und.append('worker form: the cursor is used other than by the fetch_add at %s' % tu.loc(other[0]))
    # begin = fetch_add(chunk)
    par = tu.par(fa)
    while par is not None and par.get('kind') in ('ImplicitCastExpr', 'ExprWithCleanups', 'ParenExpr'):
        par = tu.par(par)
    if par is None or par.get('kind') != 'VarDecl':
        und.append('worker form: the value returned by fetch_add is not stored in a local')
        return out
    bpath = ('v', par['id'], par.get('name'))
    ldefs = local_defs(tu, [lamf])
    alldefs = dict(defs)
    alldefs.update(ldefs)
    lenv = make_env(tu, ldefs)          # locals of the body (begin -> the fetch_add value, end -> its initialiser)
    fenv = make_env(tu, alldefs)
    BEG = lin(tu, {'kind': 'DeclRefExpr', 'id': None, 'referencedDecl': {'id': par['id'], 'name': par.get('name')}}, lenv) \
        if False else Lin.atom(('opaque', tu.show(fa)))
    if bpath not in ldefs:
        und.append('worker form: `%s` is modified after the fetch_add' % bpath[2])
        return out
    BEG = lin(tu, ldefs[bpath], lenv)
    CHK_body = lin(tu, cargs[0], lenv) if cargs else None
    CHK_full = lin(tu, cargs[0], fenv) if cargs else None
    ca = CHK_full.single_atom() if CHK_full is not None else None
    chunk_pos = CHK_full is not None and ((CHK_full.is_const() and CHK_full.c >= 1) or
                                          (ca is not None and ca[0] == 'max' and any(m_.is_const() and m_.c >= 1 for m_ in ca[1])))
    if not chunk_pos:
        if CHK_full is not None and CHK_full.is_const():
            probs.append(('tbb-cursor-chunk', 'the cursor is advanced by %d: the same piece is handed out again and again' % CHK_full.c, fa))
        else:
            und.append('worker form: cannot show that the chunk `%s` is at least 1' % (tu.show(cargs[0]) if cargs else '?'))
    # loops of the body: an endless outer loop, one inner counting loop
    heads = sorted({t for s2, t in lg.back_edges()})
    if len(heads) != 2:
        und.append('worker form: the body has %d loops (expected the endless take-a-chunk loop and one counting loop)' % len(heads))
        return out
    L = {h: natural_loop(lg, h) for h in heads}
    outer = [h for h in heads if all(h2 in L[h] for h2 in heads)]
    if len(outer) != 1:
        und.append('worker form: the loops of the body are not nested')
        return out
    H0 = outer[0]
    H1 = [h for h in heads if h != H0][0]
    fpos = lg.where(fa['id'])
    if fpos is None or fpos[0] not in L[H0] or fpos[0] in L[H1]:
        und.append('worker form: the fetch_add is not executed once per round of the outer loop')
        return out
    # the stop test
    want = cmp_atom('<', BEG, N)
    stop_blk = cont = None
    for bid in L[H0] - L[H1]:
        blk = lg.blocks[bid]
        if blk.cond is None or len(blk.succ) != 2 or blk.succ[0] is None or blk.succ[1] is None:
            continue
        a = bool_atom(tu, tu.node(blk.cond), lenv)
        if a is None:
            continue
        if a == want:
            stop_blk, cont, leave = blk, blk.succ[0], blk.succ[1]
        elif a == negate_cmp(want):
            stop_blk, cont, leave = blk, blk.succ[1], blk.succ[0]
        elif set(a[2].t) == set((BEG - N).t) and BEG.single_atom() in a[2].t:
            probs.append(('tbb-cursor-stop', 'a worker stops taking chunks under `%s`, not exactly when its chunk starts at or beyond the '
                          'count' % tu.show(tu.node(blk.cond)), tu.node(blk.cond)))
            stop_blk = blk
            cont = leave = None
    if stop_blk is None:
        und.append('worker form: no test of the fetched start against the count `%s` found' % pn['name'])
        return out
    if cont is not None:
        dom = lg.dominators()
        if not lg.dominates(fpos, (stop_blk.id, 0)) and fpos[0] != stop_blk.id:
            und.append('worker form: the stop test does not follow the fetch_add')
        if cont not in dom.get(H1, ()) and cont != H1:
            und.append('worker form: the counting loop is not guarded by the stop test')
        # leaving: must leave the outer loop
        seen_, work = set(), [leave]
        while work:
            x = work.pop()
            if x in seen_ or x is None:
                continue
            seen_.add(x)
            work += [y for y in lg.blocks[x].succ if y is not None]
        if H0 in seen_:
            und.append('worker form: the stop branch does not leave the take-a-chunk loop')
    # the inner counting loop
    CHKb = CHK_body
    END = Lin.atom(('min', frozenset((BEG + CHKb, N)))) if CHKb is not None else None
    li = analyse_counting_loop(tu, lamf, lg, {fpath}, BEG, END, head=H1) if END is not None else None
    if li is None:
        und.append('worker form: counting loop not analysable')
        return out
    und += ['worker form: ' + u for u in li.undecided]
    for k_, t_, n_ in ([] if li.undecided else li.problems):
        probs.append(('tbb-cursor-' + k_, t_, n_))
    for c_ in li.calls:
        out['recognised'].add(c_['id'])
    # ---- the cursor must be able to hold n - 1 + W * chunk for every n of the index type
    tr = irange(T)
    bits = lambda r: (r[1] + 1).bit_length() if r[0] == 0 else (r[1] + 1).bit_length() + 1
    safe = bits(tr) >= 64 and bits(irange(nct)) <= 32
    if not safe and not und:
        ex = 'e.g. %s n = %d with 2 workers and chunk 1: one worker fetches %d and stops, the other fetches %s' % (
            nct, M, M, '0 again: the whole range is handed out a second time' if irange(T)[0] == 0 else
            '%d: the function is invoked for negative indices' % irange(T)[0]) if tr[1] <= M else \
            'the final fetch_add of each of the W workers moves the cursor to n - 1 + W * chunk'
        probs.append(('tbb-cursor-wraps',
                      'every worker body performs one final `%s` at or beyond the count, so the shared cursor (std::atomic<%s>) reaches '
                      'n - 1 + W * chunk, which exceeds the maximum %d of its type for counts near the maximum of %s: the cursor wraps '
                      'below the count and chunks are handed out again (%s)' % (tu.show(fa), T, tr[1], nct, ex), fa))
    out['ok'] = 'worker form: disjoint chunks [k*chunk, min((k+1)*chunk, n)) taken from a std::atomic<%s> cursor; chunk >= 1; ' \
                'cursor cannot wrap' % T
    return out


def ancestors(tu, n, k):
    out = []
    x = n
    for _ in range(k):
        x = tu.par(x)
        if x is None:
            break
        out.append(x)
    return out


def through_defs_simple(tu, e, defs):
    hops = 0
    while hops < 4:
        p_ = access_path(tu, e)
        if p_ in defs:
            e = defs[p_]
            hops += 1
        else:
            break
    return e


def functor_uses(tu, f, fparam, recognised):
    """uses of the functor parameter that are not part of a recognised dispatch: list of locations"""
    bad = []
    for r in refs_to(tu, f, fparam['id']):
        n = r
        okuse = r['id'] in recognised
        hops = 0
        while n is not None and hops < 60:
            if n.get('id') in recognised:
                okuse = True
                break
            if n.get('kind', '').startswith('OMP') or n.get('kind') == 'CapturedStmt':
                okuse = True
                break
            n = tu.par(n)
            hops += 1
        if not okuse:
            bad.append(tu.loc(r))
    return bad


OMP_PARALLEL = ('parallel', 'parallel for', 'parallel for simd', 'parallel sections', 'parallel master', 'parallel loop',
                'teams', 'target parallel', 'target parallel for')
OMP_WORKSHARE = ('for', 'for simd', 'sections', 'single', 'loop')
OMP_TRANSPARENT = ('simd', 'critical', 'master', 'ordered')


def clause_written(tu, d, cname):
    """was the clause written in the source (the directive line contains its name) - only used to word the diagnostic"""
    try:
        rng = d.get('range', {})
        path = tu.files[tu.sd(d)['f']]
        line = open(path).read().splitlines()[tu.sd(d)['l'] - 1]
        return cname in line
    except Exception:
        return True


def omp_join(tu, g, anc):
    """Does the construct around a dispatch loop join before control leaves it?  anc: OpenMP directives enclosing the loop,
    innermost first.  ('ok', text) | ('bad', key, text, node) | ('und', text)"""
    if not anc:
        return ('ok', 'serial loop')
    names = [tu.sd(d).get('directive') for d in anc]
    if any(nm is None for nm in names):
        return ('und', 'OpenMP directive without side-table entry (%s)' % anc[0]['kind'])
    pending = None          # (directive node, why its own join is missing)
    for idx, (d, nm) in enumerate(zip(anc, names)):
        cl = tu.sd(d).get('clauses', [])
        if nm in OMP_PARALLEL:
            return ('ok', '`omp %s`: the parallel region ends with a barrier' % nm)
        if nm in ('taskloop', 'taskloop simd'):
            if 'nogroup' not in cl:
                return ('ok', '`omp %s` without nogroup: implicit taskgroup waits for all generated tasks' % nm)
            pending = pending or (d, '`omp %s nogroup`: nogroup removes the implicit taskgroup, the encountering thread only creates '
                                  'the tasks' % nm)
        elif nm == 'taskgroup':
            return ('ok', '`omp taskgroup` waits for the tasks generated inside it')
        elif nm in OMP_WORKSHARE:
            if not any(x in OMP_PARALLEL for x in names[idx + 1:]):
                return ('bad', 'omp-directive', 'the loop is executed under an orphaned `omp %s%s` (no parallel construct of '
                        'parallel_for around it), which is not a fork-join region of its own: a worksharing construct binds to the '
                        'team that encounters it and has to be encountered by every thread of that team, in the same order. A '
                        'parallel_for called inside a parallel region (from the body of an outer parallel_for) is reached by single '
                        'threads, each with its own count and function object: the runtime pairs the work-shares of different inner '
                        'loops with one another, so indices are skipped or run by another loop\'s function and the call returns '
                        'before its indices ran%s; called outside a region there is a team of one and nothing to join'
                        % (nm, ' nowait' if 'nowait' in cl else '',
                           ' (and `nowait` removes even the barrier at the end of the loop)' if 'nowait' in cl else ''), d)
        elif nm == 'task':
            pending = pending or (d, '`omp task`: the loop becomes a deferred task')
        elif nm in OMP_TRANSPARENT:
            continue
        else:
            return ('und', 'OpenMP directive `%s` around the dispatch loop is not a recognised form' % nm)
    if pending is None:
        return ('ok', 'no deferring construct')
    d, why = pending
    pos = g.where(d['id'])
    if pos is None:
        return ('und', 'OpenMP directive is not a CFG element')
    for b, i, n in g.stmts():
        if n.get('kind') in ('OMPTaskwaitDirective',) and g.postdominates((b.id, i), pos) and (b.id, i) != pos:
            return ('ok', '%s, followed on every path by `omp taskwait`' % why.split(':')[0])
    return ('bad', 'omp-join-removed', '%s, and no taskwait / taskgroup follows before parallel_for returns: the call returns while '
            'indices have not run yet (they run later, with the caller\'s frame and functor possibly gone)' % why, d)


_IMPL_DONE = {}


def omp_loop_head(tu, f, li):
    """is the loop the associated loop of an OpenMP loop directive (its bound is evaluated once, before the region)?"""
    for n in fn_stmts(tu, f):
        if n.get('kind', '').startswith('OMP') and n.get('kind', '').endswith('Directive'):
            if li.header is not None and any(x.get('id') == li.header.term for x in tu.walk(n)):
                return True
    return False


def check_impl(ctx, tu, f, cfgname, chains, depth=0, signs_in=None, omp_outer=()):
    """signs_in: signs of the count that can reach this function (a dispatch helper is analysed under the guard its only
    caller establishes; the entry point itself is analysed for every count of its type)
    omp_outer: the OpenMP directives (innermost first) of the caller(s) around the call of this dispatch helper: the helper runs
    inside those regions, its own constructs bind to them"""
    R1, R2 = 'R-C01-1', 'R-C01-2'
    omp_outer = list(omp_outer)
    outer_ids = {d_['id'] for d_ in omp_outer}
    memo_key = (id(tu), f['id'], cfgname, ''.join(sorted(signs_in)) if signs_in is not None else None,
                tuple(d_['id'] for d_ in omp_outer))
    if memo_key in _IMPL_DONE:
        return _IMPL_DONE[memo_key]
    _IMPL_DONE[memo_key] = {'helper'}
    g = tu.cfg(f)
    inst = inst_name(f, cfgname)
    loc = tu.fn_loc(f)
    file = tu.fn_file(f)
    fnname = 'parallel_for_impl' if f['q'] == IMPL else f['q'].split('::')[-1]
    key = lambda rule, d: '%s|%s|%s|%s:%s' % (rule, file, fnname, cfgname, d)
    if g is None or len(f['params']) != 2:
        ctx.undecided(R1, inst, 'no CFG / unexpected parameter list', loc)
        return
    pn, pf = f['params']
    ppath, fpath = param_path(pn), param_path(pf)
    nct = clean_type(pn['ct'])
    if irange(nct) is None:
        ctx.undecided(R1, inst, 'count parameter has non-integer type %s' % nct, loc)
        return
    ro = readonly_param(tu, f, pn)
    if ro:
        ctx.undecided(R1, inst, ro, loc)
        return
    defs = local_defs(tu, [f])
    helper_calls = []

    def subst(p_, n_):
        if p_ in defs and irange(tu.sd(n_).get('ct')) is not None:
            return lin(tu, defs[p_], env)
        return None
    env = LinEnv(tu, on_read=subst)

    def through_defs(e):
        """follow single-assignment integer locals to their initialiser (for constants and conversion chains)"""
        hops = 0
        while hops < 4:
            p_ = access_path(tu, e)
            if p_ in defs and irange(tu.sd(leaf(tu, e)).get('ct')) is not None:
                e = defs[p_]
                hops += 1
            else:
                break
        return e
    events = {}
    recognised = set()
    problems = []   # (detail-key, text, node)
    und = []
    kinds = set()
    count_args = []  # (kind, expr node for the count as handed over, callee param type or None)
    # ---- calls
    for b, i, n in g.stmts():
        if n.get('kind') not in CALLS:
            continue
        s, obj, args = call_args(tu, n)
        q = s.get('q', '')
        if TBB_RX.match(q):
            kinds.add('tbb')
            events[n['id']] = 'tbb'
            recognised.add(n['id'])
            m = re.match(r'void \((.*)\)$', s.get('fty', ''))
            ptypes = [x.strip() for x in m.group(1).split(', ')] if m else []
            if len(args) >= 2 and ptypes and 'blocked_range<' in ptypes[0]:
                # (range, body) form: TBB hands the body sub-ranges that exactly partition the range
                rd = tbb_range_dispatch(ctx, tu, f, n, args, pn, pf, env, cfgname, inst, file, fnname)
                und += rd['und']
                problems += rd['problems']
                recognised |= rd['recognised']
                if rd['count'] is not None:
                    count_args.append(('tbb', rd['count'][0], rd['count'][1], n))
                continue
            if len(args) < 3 or len(ptypes) < 3 or clean_type(ptypes[0]) != clean_type(ptypes[1]) or irange(ptypes[0]) is None:
                und.append('tbb::parallel_for overload `%s` is not the (first, last, function) form' % s.get('fty'))
                continue
            fi = 2
            if irange(ptypes[2]) is not None:           # (first, last, step, f)
                fi = 3
                if const_value(tu, args[2]) != 1:
                    problems.append(('tbb-step', 'tbb::parallel_for is called with step `%s` instead of 1' % tu.show(args[2]), n))
            first = const_value(tu, through_defs(args[0]))
            if len(args) > fi and obj_path(tu, args[fi]) != fpath:
                # not the functor itself: a worker body that pulls chunks of the range off a shared cursor?
                cd = cursor_dispatch(tu, f, n, args, fi, first, pn, pf, defs)
                if cd is not None:
                    kinds.add('cursor')
                    und += cd['und']
                    for k_, t_, n_ in cd['problems']:
                        problems.append((k_, t_, n_))
                    recognised |= cd['recognised']
                    if not cd['und'] and not cd['problems']:
                        ctx.ok(R1, inst + ' worker body', cd['ok'], tu.loc(n))
                    continue
            if first is None:
                und.append('first index `%s` of tbb::parallel_for is not a constant' % tu.show(args[0]))
            elif first != 0:
                problems.append(('tbb-first', 'tbb::parallel_for starts at %d instead of 0' % first, n))
            ll = lin(tu, args[1], env)
            dd = ll - Lin.atom(('p', ppath))
            if ll != Lin.atom(('p', ppath)):
                if dd.is_const():
                    problems.append(('tbb-last', 'tbb::parallel_for ends at `%r` instead of the count `%s`' % (ll, pn['name']), n))
                else:
                    und.append('last index `%s` of tbb::parallel_for is not recognised as the count' % tu.show(args[1]))
            if len(args) <= fi or obj_path(tu, args[fi]) != fpath:
                und.append('function argument of tbb::parallel_for is not the functor parameter')
            # further arguments: a partitioner only steers the schedule; a task_group_context carries cancellation and a
            # captured exception, i.e. state that decides whether the loop runs at all - it has to be private to this call
            for ai in range(fi + 1, len(args)):
                pt = clean_type(ptypes[ai]) if ai < len(ptypes) else ''
                if 'partitioner' in pt:
                    continue
                if 'task_group_context' in pt:
                    dur, what_ = storage_of(tu, args[ai], f)
                    if dur == 'auto':
                        continue
                    if dur in ('static', 'thread'):
                        problems.append(('tbb-shared-context',
                                         'tbb::parallel_for is given the task_group_context %s, which has %s storage duration and is '
                                         'shared by all calls: cancellation and the exception captured from one loop whose body threw stay '
                                         'in it across calls, so every later loop runs no iteration at all; the context must be an '
                                         'automatic object of this call (or omitted)' % (what_, dur), n))
                    else:
                        und.append('cannot determine the lifetime of the task_group_context argument `%s`' % tu.show(args[ai]))
                else:
                    und.append('unrecognised extra argument `%s` of tbb::parallel_for' % tu.show(args[ai]))
            count_args.append(('tbb', through_defs(args[1]), clean_type(ptypes[1]), n))
            chains.append(dict(kind='tbb-first', node=args[0], ptype=clean_type(ptypes[0]), call=n))
        elif q == PINT:
            kinds.add('internal')
            events[n['id']] = 'internal'
            recognised.add(n['id'])
            if len(args) != 2:
                und.append('parallel_for_internal is called with %d arguments' % len(args))
                continue
            ll = lin(tu, args[0], env)
            if ll != Lin.atom(('p', ppath)):
                if (ll - Lin.atom(('p', ppath))).is_const():
                    problems.append(('internal-count', 'parallel_for_internal receives `%r` instead of the count' % ll, n))
                else:
                    und.append('count argument `%s` of parallel_for_internal is not recognised as the count' % tu.show(args[0]))
            if obj_path(tu, args[1]) != fpath:
                und.append('functor argument of parallel_for_internal is not the functor parameter')
            cf = tu.callee_fn(n)
            pt = clean_type(cf['params'][0]['ct']) if cf and cf.get('params') else None
            count_args.append(('internal', through_defs(args[0]), pt, n))
        else:
            # a helper of the analysed tree that is handed the count and the functor is a dispatch of its own:
            # it is analysed like this function (same rules) and its call counts as one dispatch of the whole range
            cf = inlinable(tu, n)
            if cf is not None and depth < 3 and len(args) == 2 and len(cf.get('params', [])) == 2 and \
                    irange(cf['params'][0]['ct']) is not None and obj_path(tu, args[1]) == fpath and not cf['dep']:
                ll = lin(tu, args[0], env)
                if ll == Lin.atom(('p', ppath)):
                    kinds.add('helper')
                    events[n['id']] = 'helper'
                    recognised.add(n['id'])
                    helper_calls.append((n, cf))
                    count_args.append(('helper', through_defs(args[0]), clean_type(cf['params'][0]['ct']), n))
                elif (ll - Lin.atom(('p', ppath))).is_const():
                    recognised.add(n['id'])
                    kinds.add('helper')
                    events[n['id']] = 'helper'
                    problems.append(('helper-count', '`%s` receives `%r` instead of the count' % (cf['q'].split('::')[-1], ll), n))
    # ---- loops (one per dispatch arm, e.g. selected by omp_in_parallel())
    omp_all = [n for n in fn_stmts(tu, f) if n.get('kind', '').startswith('OMP') and n.get('kind', '').endswith('Directive')]

    def enclosing_omp(term_id, local_only=False):
        anc_ = []
        for d_ in omp_all:
            ids_ = [x.get('id') for x in tu.walk(d_)]
            if term_id in ids_:
                anc_.append((len(ids_), d_))
        return [d_ for sz_, d_ in sorted(anc_, key=lambda z: z[0])] + ([] if local_only else omp_outer)

    def replicated(anc_):
        """the loop statement is executed by every thread of a parallel region (no worksharing / tasking construct owns it)"""
        for d_ in anc_:
            nm_ = tu.sd(d_).get('directive')
            if nm_ in ('parallel',):
                return d_
            if nm_ in OMP_TRANSPARENT:
                continue
            if nm_ not in OMP_WORKSHARE and d_['id'] not in outer_ids:
                # a complete fork-join / task-generating construct of this helper - but the helper itself is called by every
                # thread of the caller's parallel region, so the whole construct is executed once per thread of that team
                for o_ in omp_outer:
                    if tu.sd(o_).get('directive') == 'parallel':
                        return o_
                    if tu.sd(o_).get('directive') not in OMP_TRANSPARENT:
                        break
            return None
        return None
    REPL_TEXT = lambda region_: (
        'the loop is inside a plain `omp parallel` region without a worksharing construct: every thread of the team runs all '
        'indices, each index is invoked once per thread' if region_['id'] not in outer_ids else
        'this helper is called by every thread of the `omp parallel` region at %s and its loop is not a worksharing construct of '
        'that region: every thread of the team runs all indices, each index is invoked once per thread' % tu.loc(region_))
    heads_ = sorted({t for s_, t in g.back_edges()})
    nested_ = any(h1 != h2 and h2 in natural_loop(g, h1) for h1 in heads_ for h2 in heads_)
    loops = []
    spmd = {}
    if nested_:
        li_ = LoopInfo()
        li_.undecided.append('nested loops in the function')
        loops = [li_]
    else:
        TNUM = Lin.atom(('call', 'omp_get_thread_num', ()))
        for h_ in heads_:
            region = replicated(enclosing_omp(g.blocks[h_].term)) if g.blocks[h_].term else None
            if region is not None:
                li0 = analyse_counting_loop(tu, f, g, {fpath}, Lin.const(0), Lin.atom(('p', ppath)), head=h_)
                if li0 is not None and not li0.undecided and not any(k_ in ('start', 'step') for k_, t_, n_ in li0.problems):
                    # the ordinary loop over [0, n), but executed by every thread of the region
                    li_ = li0
                    li_.problems.append(('omp-loop-replicated', REPL_TEXT(region), region))
                else:
                    li_ = analyse_counting_loop(tu, f, g, {fpath}, TNUM, Lin.atom(('p', ppath)), head=h_, free_step=True)
                    spmd[id(li_)] = region
            else:
                li_ = analyse_counting_loop(tu, f, g, {fpath}, Lin.const(0), Lin.atom(('p', ppath)), head=h_)
            loops.append(li_)
    for li in loops:
        region = spmd.get(id(li))
        if region is not None and not li.undecided:
            # every thread of the region runs this loop: indices are covered exactly once only by the interleaved form
            #   i = omp_get_thread_num(); i < n; i += omp_get_num_threads()      (both read inside the region)
            start_is_zero = any(k_ == 'start' and 'instead of' in t_ for k_, t_, n_ in li.problems) or \
                (li.init_node is not None and lin(tu, li.init_node) == Lin.const(0))
            TEAM = Lin.atom(('call', 'omp_get_num_threads', ()))
            inside = lambda n_: n_ is not None and (region['id'] in outer_ids or
                                                   any(x.get('id') == n_.get('id') for x in tu.walk(region)))
            if start_is_zero and li.step_lin == Lin.const(1):
                li.problems = [(k_, t_, n_) for k_, t_, n_ in li.problems if k_ != 'start']
                li.problems.append(('omp-loop-replicated', REPL_TEXT(region), region))
            elif li.step_lin == TEAM and inside(li.step_node):
                pass
            elif li.step_lin is not None and li.step_lin != TEAM:
                sv = li.step_lin.single_atom()
                outside = sv is not None and sv[0] == 'p' and sv[1][0] == 'v' and not inside(tu.node(sv[1][1]))
                through = through_defs(li.step_node and tu.kids(li.step_node)[-1]) if li.step_node is not None else None
                tq = tu.sd(leaf(tu, through)).get('q', '') if through is not None and leaf(tu, through) is not None else ''
                if outside or li.step_lin.is_const() or tq.endswith('omp_get_max_threads'):
                    li.problems.append(('omp-stride-not-team-size',
                                        'each thread of the `omp parallel` region runs the indices t, t+S, t+2S, ... with the stride '
                                        'S = `%s`, which is fixed outside the region (a requested or maximal thread count), not the size '
                                        'of the team that actually executes it (omp_get_num_threads() inside the region): when the '
                                        'runtime delivers fewer threads - a nested call gets a team of one - the indices of the missing '
                                        'thread numbers are never run' % tu.show(tu.kids(li.step_node)[-1]), li.step_node))
                else:
                    li.undecided.append('stride `%r` of the per-thread loop is not recognised as the team size' % li.step_lin)
            else:
                li.undecided.append('step of the per-thread loop is not recognised')
    for li in loops:
        kinds.add('loop')
        if is_reference_param(pn) and li.header is not None and not omp_loop_head(tu, f, li):
            problems.append(('count-by-reference', 'the count is a reference parameter (`%s %s`) and the loop condition re-reads it in '
                             'every iteration: it is the caller\'s object, the user function can change it while the loop runs'
                             % (pn['ct'], pn['name']), tu.node(li.header.cond) if li.header.cond else None))
        und += li.undecided
        for k, t, n in ([] if li.undecided else li.problems):
            problems.append(('loop-' + k, t, n))
        if li.decl_stmt:
            events[li.decl_stmt] = 'loop'
        for c_ in li.calls:
            recognised.add(c_['id'])
    # ---- OpenMP: every dispatch loop must sit in a construct that joins before parallel_for returns
    jprobs = []
    joks = []
    omp_clause_jobs = []
    omp = [n for n in fn_stmts(tu, f) if n.get('kind', '').startswith('OMP') and n.get('kind', '').endswith('Directive')]
    helper_ctx = {}
    if omp or omp_outer:
        kinds.add('omp')
        used = set()
        # a dispatch helper called inside a plain `omp parallel` region: every thread of the team calls it, the helper is
        # analysed as running inside that region (its worksharing constructs bind to it, the region's end is the join)
        for n_, cf_ in helper_calls:
            canc = enclosing_omp(n_['id'], local_only=True)
            if not canc:
                helper_ctx[n_['id']] = omp_outer
            elif all(tu.sd(d).get('directive') == 'parallel' for d in canc):
                helper_ctx[n_['id']] = canc + omp_outer
                for d in canc:
                    used.add(d['id'])
                omp_clause_jobs.append((n_['id'], canc))
            else:
                helper_ctx[n_['id']] = None
                und.append('the dispatch helper `%s` is called inside `omp %s`: not followed' %
                           (cf_['q'].split('::')[-1], tu.sd(canc[0]).get('directive', canc[0]['kind'])))
        for li in loops:
            if li.header is None or li.undecided:
                continue
            # directives whose subtree contains the loop statement, innermost (smallest subtree) first
            anc = []
            for d in omp:
                ids = [x.get('id') for x in tu.walk(d)]
                if li.header.term in ids:
                    anc.append((len(ids), d))
            anc = [d for sz, d in sorted(anc, key=lambda z: z[0])]
            for d in anc:
                used.add(d['id'])
            omp_clause_jobs.append((li.decl_stmt, anc))
            anc = anc + omp_outer
            verdict = omp_join(tu, g, anc)
            if verdict[0] == 'ok':
                if anc:
                    joks.append((verdict[1], anc[0]))
            elif verdict[0] == 'bad':
                jprobs.append((verdict[1], verdict[2], verdict[3]))
            else:
                und.append(verdict[1])
        for d in omp:
            name = tu.sd(d).get('directive', d['kind'])
            if d['id'] not in used and name not in ('taskwait', 'barrier', 'taskgroup', 'taskyield', 'flush'):
                und.append('OpenMP directive `%s` is not attached to a recognised counting loop' % name)
    if not kinds & {'tbb', 'internal', 'loop', 'helper', 'cursor'}:
        if functor_uses(tu, f, pf, recognised):
            ctx.undecided(R1, inst, 'no recognised backend dispatch; the functor is handed to something that is not understood', loc)
        else:
            ctx.violation(R1, inst, 'no backend dispatch found: the body is never invoked', loc, key=key(R1, 'no-dispatch'))
        return
    stray = functor_uses(tu, f, pf, recognised)
    if stray:
        und.append('functor parameter is used outside the recognised dispatch at %s' % ', '.join(stray))
    # ---- every path dispatches exactly once
    sg0 = signs_of_type(nct) if signs_in is None else ''.join(s_ for s_ in signs_of_type(nct) if s_ in signs_in)
    exits, seen = count_paths(tu, g, events, ppath, sg0 or signs_of_type(nct))
    for k, t in once_verdict(exits, und):
        problems.append((k, t, None))
    # ---- OpenMP clauses that take a value: it must be valid for every count that reaches the directive
    for at_, anc_ in omp_clause_jobs:
        sg_ = set(seen.get(at_, sg0)) if at_ else set(sg0)
        lo_, hi_ = range_for_signs(nct, sg_)
        for d_ in anc_:
            cls = tu.sd(d_).get('clauses', [])
            kids_ = [k_ for k_ in d_.get('inner', ()) if isinstance(k_, dict) and not k_.get('kind')]
            for ci, cname in enumerate(cls):
                if cname in ('private', 'firstprivate', 'lastprivate', 'linear', 'reduction') and ci < len(kids_):
                    vars_ = [x for x in tu.walk(kids_[ci]) if isinstance(x, dict) and x.get('kind') == 'DeclRefExpr' and
                             x.get('referencedDecl', {}).get('id') == pf['id']]
                    if vars_:
                        problems.append(('omp-functor-privatised',
                                         'the function object `%s` is %s in `omp %s` (%s): every thread / task calls its own copy '
                                         '(for a reference the referenced object is copied), so whatever the invocations store in the '
                                         'function object never reaches the caller\'s object, and the other backends call the caller\'s '
                                         'object in place; it has to be shared' % (pf['name'], cname, tu.sd(d_).get('directive'),
                                         'implicitly: the default for a task-generating construct outside a parallel region'
                                         if not clause_written(tu, d_, cname) else 'explicit clause'), d_))
                    continue
                if cname not in ('num_threads', 'grainsize', 'num_tasks') or ci >= len(kids_):
                    continue
                exprs = [x for x in kids_[ci].get('inner', ()) if isinstance(x, dict) and x.get('kind')]
                if not exprs:
                    und.append('value of the OpenMP clause `%s` is not available' % cname)
                    continue
                iv_o = Ival(tu, {ppath: (lo_, hi_)}, defs, None)
                iv_o.assume_positive = True
                vo = iv_o.ev(exprs[0])
                iv_p = Ival(tu, {ppath: (lo_, hi_)}, defs, None)
                vp = iv_p.ev(exprs[0])
                if vo is not None and vo[0] < 0:
                    problems.append(('omp-clause-value',
                                     'the OpenMP clause `%s(%s)` must be given a positive value, but its argument is negative (down to %d) '
                                     'when the count is negative - the directive is reached for every count, there is no guard in front '
                                     'of it: the runtime takes the value for a huge unsigned team / chunk size and aborts (or spawns '
                                     'threads without bound) instead of simply running nothing' % (cname, tu.show(exprs[0]), vo[0]), d_))
                elif vo is not None and vo[0] == 0 and (vp is None or vp[0] >= 0):
                    pass        # 0 selects the default in the OpenMP runtimes: not a defect of the dispatch
                elif vp is None or vp[0] < 0 or iv_p.unknown:
                    und.append('cannot show that the value of the OpenMP clause `%s(%s)` is positive' % (cname, tu.show(exprs[0])))
    for n_, cf_ in helper_calls:
        # the helper only ever sees the counts that pass the guards in front of this call
        if n_['id'] in helper_ctx and helper_ctx[n_['id']] is None:
            continue
        sub = check_impl(ctx, tu, cf_, cfgname, chains, depth + 1, signs_in=set(seen.get(n_['id'], sg0)),
                         omp_outer=helper_ctx.get(n_['id'], omp_outer))
        if not sub:
            und.append('the dispatch helper `%s` is not decided' % cf_['q'].split('::')[-1])
    for u in sorted(set(und)):
        ctx.undecided(R1, inst, u, loc)
    if not und:
        for k, t, n in jprobs:
            ctx.violation(R2, inst, t, tu.loc(n), key=key(R2, k))
        for t, n in joks:
            ctx.ok(R2, inst, t, tu.loc(n))
    if problems and not und:
        for k, t, n in problems:
            ctx.violation(R1, inst, t, tu.loc(n) if n is not None else loc, key=key(R1, k))
    elif not und:
        ctx.ok(R1, inst, 'dispatch %s exactly once on every path with a positive count' % '+'.join(sorted(kinds)), loc)
    # ---- R-C01-3: conversions
    fn = fnname
    for kind, node, ptype, call in count_args:
        sg = seen.get(call['id'], set(signs_of_type(nct)))
        lo, hi = range_for_signs(nct, sg)
        lf, ch = cast_chain(tu, node)
        if ptype and (not ch or ch[-1] != ptype):
            ch = ch + [ptype]
        if kind == 'internal':
            chains.append(dict(kind='internal-count', f=f, chain=ch, lo=lo, hi=hi, call=call, inst=inst, cfg=cfgname,
                               nct=nct, signs=sg))
        else:
            check_chain(ctx, tu, inst, 'count to tbb::parallel_for' if kind == 'tbb' else 'count to the dispatch helper', ch, lo, hi,
                        tu.loc(call), file, fn, cfgname)
    for li in [l_ for l_ in loops if l_.ivar is not None and not l_.undecided]:
        M = irange(nct)[1]
        # induction variable must be able to hold every index below the count
        ir = irange(li.itype)
        if ir is None or ir[1] < M - 0 or ir[0] > 0:
            if ir is None:
                ctx.undecided('R-C01-3', inst, 'induction variable has type %s' % li.itype, loc)
            elif ir[1] < M:
                ctx.violation('R-C01-3', inst + ' induction variable', 'induction variable of type %s cannot reach counts up to %d of '
                              'type %s: the loop overflows before it terminates' % (li.itype, M, nct), tu.loc(li.init_node),
                              key=key('R-C01-3', 'loop-index-type'))
        else:
            ctx.ok('R-C01-3', inst + ' induction variable', '%s holds [0, max(%s)]' % (li.itype, nct), loc, nontrivial=False)
        for opnd, is_i in (li.cond_ops or []):
            lf, ch = cast_chain(tu, opnd)
            if is_i:
                check_chain(ctx, tu, inst, 'index in the loop condition', ch, 0, M, tu.loc(opnd), file, fn, cfgname)
            elif access_path(tu, opnd) == ppath:
                lo, hi = irange(nct)
                check_chain(ctx, tu, inst, 'count in the loop condition', ch, lo, hi, tu.loc(opnd), file, fn, cfgname)
        if li.arg is not None:
            lf, ch = cast_chain(tu, li.arg)
            check_chain(ctx, tu, inst, 'index to the functor', ch, 0, max(M - 1, 0), tu.loc(li.arg), file, fn, cfgname)
    _IMPL_DONE[memo_key] = kinds if not und else set()
    return _IMPL_DONE[memo_key]


def check_forwarder(ctx, tu, f, cfgname, callee_q, rule, fn_name, what):
    """f(n, fcn) must call callee(n, fcn) exactly once on every path with a positive count, arguments unchanged"""
    g = tu.cfg(f)
    inst = inst_name(f, cfgname)
    loc = tu.fn_loc(f)
    file = tu.fn_file(f)
    if g is None or len(f['params']) != 2:
        ctx.undecided(rule, inst, 'no CFG / unexpected parameter list', loc)
        return
    pn, pf = f['params']
    ppath, fpath = param_path(pn), param_path(pf)
    ro = readonly_param(tu, f, pn)
    if ro:
        ctx.undecided(rule, inst, ro, loc)
        return
    events = {}
    bad = []
    und = []
    for b, i, n in g.stmts():
        if n.get('kind') in CALLS and tu.sd(n).get('q') == callee_q:
            s, obj, args = call_args(tu, n)
            events[n['id']] = 'fwd'
            if len(args) != 2:
                und.append('%s is called with %d arguments' % (what, len(args)))
                continue
            ll = lin(tu, args[0])
            if ll != Lin.atom(('p', ppath)):
                if (ll - Lin.atom(('p', ppath))).is_const():
                    bad.append(('count', '%s receives `%r` instead of the count `%s`' % (what, ll, pn['name']), n))
                else:
                    und.append('count argument `%s` of %s is not recognised' % (tu.show(args[0]), what))
            else:
                lf, ch = cast_chain(tu, args[0])
                cf = tu.callee_fn(n)
                if cf and cf.get('params'):
                    pt = clean_type(cf['params'][0]['ct'])
                    if ch and ch[-1] != pt:
                        ch = ch + [pt]
                lo, hi = irange(pn['ct']) or (None, None)
                check_chain(ctx, tu, inst, 'count to %s' % what, ch, lo, hi, tu.loc(n), file, fn_name, '')
            if obj_path(tu, args[1]) != fpath:
                und.append('functor argument of %s is not the functor parameter' % what)
    if not events:
        if functor_uses(tu, f, pf, set()):
            ctx.undecided(rule, inst, '%s is not called directly; the functor is handed to something that is not understood' % what, loc)
        else:
            ctx.violation(rule, inst, '%s is never called: the body is never invoked' % what, loc,
                          key='%s|%s|%s|no-dispatch' % (rule, file, fn_name))
        return
    stray = functor_uses(tu, f, pf, set(events))
    if stray:
        und.append('functor parameter is used outside the call of %s at %s' % (what, ', '.join(stray)))
    exits, seen = count_paths(tu, g, events, ppath, signs_of_type(pn['ct']))
    for k, t in once_verdict(exits, und):
        bad.append((k, t, None))
    for u in sorted(set(und)):
        ctx.undecided(rule, inst, u, loc)
    for k, t, n in ([] if und else bad):
        ctx.violation(rule, inst, t, tu.loc(n) if n is not None else loc, key='%s|%s|%s|%s' % (rule, file, fn_name, k))
    if not bad and not und:
        ctx.ok(rule, inst, 'forwards count and functor unchanged to %s exactly once' % what, loc)


# =====================================================================================================
#  forward substitution over loop-free CFG regions (value-graph normal form of locals / fields)
# =====================================================================================================
class Store:
    def __init__(self, tu, vals=None, copies=None, conds=None, events=None):
        self.tu = tu
        self.vals = dict(vals or {})       # access path -> Lin
        self.copies = dict(copies or {})   # access path of a struct -> (source path, Store snapshot)
        self.conds = list(conds or [])     # cmp atoms known to hold
        self.events = list(events or [])
        self.havoc = {}                    # access path -> token: everything below was changed by an unknown call
        self.alias = {}                    # variable (3-tuple path) of an inlined callee's reference parameter -> caller's path
        self.depth = 0

    def clone(self):
        c = Store(self.tu, self.vals, self.copies, self.conds, self.events)
        c.havoc = dict(self.havoc)
        c.alias = dict(self.alias)
        c.depth = self.depth
        return c

    def norm(self, p):
        hops = 0
        while p is not None and len(p) >= 3 and p[:3] in self.alias and hops < 4:
            p = self.alias[p[:3]] + p[3:]
            hops += 1
        return p

    def clobber(self, p, token):
        p = self.norm(p)
        for k in [k for k in self.vals if k[:len(p)] == p]:
            del self.vals[k]
        for k in [k for k in self.copies if k[:len(p)] == p]:
            del self.copies[k]
        self.havoc[p] = token

    def read(self, p):
        p = self.norm(p)
        if p in self.vals:
            return self.vals[p]
        for k in range(len(p), 2, -1):
            if p[:k] in self.havoc and not any(c_[:k] == p[:k] and len(c_) > k and p[:len(c_)] == c_ for c_ in self.copies):
                return Lin.atom(('opaque', self.havoc[p[:k]], p))
        for k in range(len(p) - 1, 2, -1):
            pre = p[:k]
            if pre in self.copies:
                src, snap = self.copies[pre]
                return snap.read(src + p[k:])
        if len(p) >= 3 and p[:3] in self.copies and len(p) == 3:
            pass
        return Lin.atom(('init', p))

    def env(self):
        def on_read(p, n):
            v = self.read(p)
            if v == Lin.atom(('init', p)):
                cv = self.tu.sd(n).get('cv')      # a compile-time constant (static const / constexpr) that nobody wrote
                if cv is not None:
                    try:
                        return Lin.const(int(cv))
                    except ValueError:
                        pass
            return v

        def on_call(c, e):
            cf = inlinable(self.tu, c)
            if cf is None or c.get('kind') != 'CallExpr':
                return None
            av = [lin(self.tu, a_, e) if irange(self.tu.sd(a_).get('ct')) is not None else None for a_ in self.tu.kids(c)[1:]]
            return fn_value(self.tu, cf, av, e)
        return LinEnv(self.tu, on_read=on_read, on_call=on_call)

    def ev(self, e):
        return lin(self.tu, e, self.env())

    def write(self, p, v):
        p = self.norm(p)
        for k in [k for k in self.vals if k[:len(p)] == p and k != p]:
            del self.vals[k]
        for k in [k for k in self.copies if k[:len(p)] == p]:
            del self.copies[k]
        self.vals[p] = v

    def copy_struct(self, dst, src):
        dst, src = self.norm(dst), self.norm(src)
        snap = self.clone()
        for k in [k for k in self.havoc if k[:len(dst)] == dst]:
            del self.havoc[k]
        for k in [k for k in self.vals if k[:len(dst)] == dst]:
            del self.vals[k]
        for k in [k for k in self.copies if k[:len(dst)] == dst]:
            del self.copies[k]
        self.copies[dst] = (src, snap)


def struct_source(tu, e):
    """access path of the lvalue a record-typed initialiser copies from (copy construction), else None"""
    n = e
    hops = 0
    while n is not None and hops < 8:
        k = n.get('kind')
        ks = tu.kids(n)
        if k in ('ImplicitCastExpr', 'ParenExpr', 'ExprWithCleanups', 'MaterializeTemporaryExpr', 'CXXBindTemporaryExpr') and ks:
            n = ks[0]
        elif k == 'CXXConstructExpr' and len(ks) == 1:
            n = ks[0]
        else:
            break
        hops += 1
    if n is not None and n.get('kind') in ('DeclRefExpr', 'MemberExpr'):
        return access_path(tu, n)
    return None


def call_member_path(tu, e):
    """(call node, (field, ...)) if e is  f(...).a.b  (a member of a call's result), else None"""
    n = e
    fields = []
    hops = 0
    while n is not None and hops < 10:
        k = n.get('kind')
        ks = tu.kids(n)
        if k in ('ImplicitCastExpr', 'ParenExpr', 'ExprWithCleanups', 'MaterializeTemporaryExpr', 'CXXBindTemporaryExpr') and ks:
            n = ks[0]
        elif k == 'CXXConstructExpr' and len(ks) == 1:
            n = ks[0]
        elif k == 'MemberExpr' and ks:
            fields.append(n.get('name'))
            n = ks[0]
        else:
            break
        hops += 1
    if n is not None and n.get('kind') in CALLS and fields:
        return n, tuple(reversed(fields))
    return None


def inner_call(tu, e):
    """the call expression a record-typed initialiser is constructed from (T x = f(...);), else None"""
    n = e
    hops = 0
    while n is not None and hops < 8:
        k = n.get('kind')
        ks = tu.kids(n)
        if k in ('ImplicitCastExpr', 'ParenExpr', 'ExprWithCleanups', 'MaterializeTemporaryExpr', 'CXXBindTemporaryExpr') and ks:
            n = ks[0]
        elif k == 'CXXConstructExpr' and len(ks) == 1:
            n = ks[0]
        else:
            break
        hops += 1
    if n is not None and n.get('kind') in CALLS:
        return n
    return None


def sym_step(tu, st, n, on_call=None, env=None):
    """apply one CFG statement element to the store"""
    k = n.get('kind')
    ks = tu.kids(n)
    ev = (lambda e_: lin(tu, e_, env)) if env is not None else st.ev
    if k == 'BinaryOperator' and n.get('opcode') == '=':
        p = access_path(tu, ks[0])
        if p is None:
            return
        if irange(tu.sd(n).get('ct')) is None and clean_type(tu.sd(n).get('ct') or '').endswith('*') is False:
            src = struct_source(tu, ks[1])
            if src is not None:
                st.copy_struct(p, src)
                return
        v = ev(ks[1])
        st.write(p, v)
    elif k == 'CompoundAssignOperator':
        p = access_path(tu, ks[0])
        if p is None:
            return
        op = n.get('opcode')
        if op in ('+=', '-='):
            v = ev(ks[1])
            st.write(p, st.read(p) + v if op == '+=' else st.read(p) - v)
        else:
            st.write(p, Lin.atom(('opaque', n['id'])))
    elif k == 'UnaryOperator' and n.get('opcode') in ('++', '--'):
        p = access_path(tu, ks[0])
        if p is not None:
            st.write(p, st.read(p) + Lin.const(1 if n['opcode'] == '++' else -1))
    elif k == 'DeclStmt':
        for vd in ks:
            if vd.get('kind') != 'VarDecl':
                continue
            p = ('v', vd['id'], vd.get('name'))
            vks = tu.kids(vd)
            if not vks:
                continue
            init = vks[0]
            c = inner_call(tu, init)
            if c is not None and on_call is not None and on_call(st, c, p):
                continue
            ct = (vd.get('type') or {}).get('qualType', '')
            src = struct_source(tu, init)
            if src is not None and irange(tu.sd(leaf(tu, init)).get('ct')) is None and not clean_type(tu.sd(leaf(tu, init)).get('ct') or '').endswith('*'):
                st.copy_struct(p, src)
            else:
                st.write(p, ev(init))
    elif k == 'CXXOperatorCallExpr' and tu.sd(n).get('q', '').endswith('::operator=') and len(ks) == 3 and \
            irange(tu.sd(ks[1]).get('ct')) is None:
        # struct assignment  a = b;  /  a = f(...).member;
        p = access_path(tu, ks[1])
        if p is None:
            return
        src = struct_source(tu, ks[2])
        if src is not None:
            st.copy_struct(p, src)
            return
        c_ = inner_call(tu, ks[2])
        if c_ is not None and ('v', 'tmp:' + c_['id'], 'tmp') in st.copies:
            st.copy_struct(p, ('v', 'tmp:' + c_['id'], 'tmp'))
            return
        cm = call_member_path(tu, ks[2])
        if cm is not None and ('v', 'tmp:' + cm[0]['id'], 'tmp') in st.copies or \
                (cm is not None and any(k_[:3] == ('v', 'tmp:' + cm[0]['id'], 'tmp') for k_ in st.vals)):
            st.copy_struct(p, ('v', 'tmp:' + cm[0]['id'], 'tmp') + cm[1])
            return
        st.clobber(p, n['id'])
    elif k in CALLS:
        # calls that are not initialisers (handled from DeclStmt) still get a chance to record events / apply summaries
        handled = on_call(st, n, ('v', 'tmp:' + n['id'], 'tmp')) if on_call is not None else False
        if not handled:
            s_, obj, args = tu.call_parts(n)
            cf_params = re.match(r'.*?\((.*)\)', s_.get('fty', '') or '')
            ptypes = [x.strip() for x in cf_params.group(1).split(', ')] if cf_params else []
            for ai, a_ in enumerate(args):
                pt = ptypes[ai] if ai < len(ptypes) else ''
                a0 = leaf(tu, a_)
                tgt = None
                if a0 is not None and a0.get('kind') == 'UnaryOperator' and a0.get('opcode') == '&':
                    tgt = access_path(tu, tu.kids(a0)[0])
                elif pt.endswith('&') and not pt.startswith('const '):
                    tgt = access_path(tu, a_)
                if tgt is not None and tgt[0] == 'v':
                    st.clobber(tgt, n['id'])


def sym_paths(tu, g, start, stops, st0, on_call=None, limit=256):
    """enumerate the paths of a loop-free region from block `start` until a block in `stops` (or the exit) is reached.
    yields (stop block id, Store).  Raises ValueError on a cycle / too many paths."""
    out = []
    stack = [(start, st0, frozenset())]
    seen_decl = set()
    while stack:
        bid, st, onpath = stack.pop()
        if bid in stops or bid == g.exit:
            out.append((bid, st))
            if len(out) > limit:
                raise ValueError('too many paths')
            continue
        if bid in onpath:
            raise ValueError('cycle')
        blk = g.blocks[bid]
        if blk.noret:
            continue           # ends in a noreturn call (failed assert / abort / throw): control never comes back
        states = [st.clone()]
        for e in blk.el:
            if e[0] != 'S':
                continue
            n = tu.node(e[1])
            if n is None:
                continue
            plain_call = n.get('kind') in CALLS and not (n.get('kind') == 'CXXOperatorCallExpr' and
                                                         tu.sd(n).get('q', '').endswith('::operator='))
            if plain_call:
                # a call that initialises a declared variable is processed with its DeclStmt
                p_ = n
                isinit = False
                for _ in range(6):
                    p_ = tu.par(p_)
                    if p_ is None:
                        break
                    if p_.get('kind') == 'VarDecl':
                        isinit = True
                        break
                    if p_.get('kind') not in ('ImplicitCastExpr', 'ExprWithCleanups', 'MaterializeTemporaryExpr',
                                              'CXXBindTemporaryExpr', 'CXXConstructExpr', 'ParenExpr'):
                        break
                if isinit:
                    continue
            nxt = []
            for st1 in states:
                if plain_call:
                    handled = on_call(st1, n, ('v', 'tmp:' + n['id'], 'tmp')) if on_call is not None else False
                    if handled:
                        nxt.append(st1)
                        continue
                    inl = inline_void_call(tu, st1, n, on_call, want_struct=True)
                    if inl is not None:
                        nxt += inl
                        if len(nxt) > limit:
                            raise ValueError('too many paths')
                        continue
                    clobber_call_args(tu, st1, n)
                    nxt.append(st1)
                else:
                    sym_step(tu, st1, n, on_call)
                    nxt.append(st1)
            states = nxt
        succ = [s for s in blk.succ]
        for st in states:
            if blk.cond is not None and len(succ) == 2:
                a = bool_atom_any(tu, tu.node(blk.cond), st.env())
                for si, s in enumerate(succ):
                    if s is None:
                        continue
                    st2 = st.clone()
                    if a is not None and a[0] == 'cmp':
                        st2.conds.append(a if si == 0 else negate_cmp(a))
                    elif a is not None and a[0] == 'and' and si == 0:
                        st2.conds += [x for x in a[1] if x[0] == 'cmp']
                    st2.events.append(('branch', blk.cond, si == 0))
                    stack.append((s, st2, onpath | {bid}))
            else:
                for s in succ:
                    if s is not None:
                        stack.append((s, st, onpath | {bid}))
    return out


def clobber_call_args(tu, st, n):
    """an unknown call may change what it is given by non-const reference or by address"""
    s_, obj, args = tu.call_parts(n)
    cf_params = re.match(r'.*?\((.*)\)', s_.get('fty', '') or '')
    ptypes = [x.strip() for x in cf_params.group(1).split(', ')] if cf_params else []
    for ai, a_ in enumerate(args):
        pt = ptypes[ai] if ai < len(ptypes) else ''
        a0 = leaf(tu, a_)
        tgt = None
        if a0 is not None and a0.get('kind') == 'UnaryOperator' and a0.get('opcode') == '&':
            tgt = access_path(tu, tu.kids(a0)[0])
        elif pt.endswith('&') and not pt.startswith('const '):
            tgt = access_path(tu, a_)
        if tgt is not None and tgt[0] == 'v':
            st.clobber(tgt, n['id'])


def inline_void_call(tu, st, n, on_call, want_struct=False):
    """Replay a call of a loop-free void helper of the scheduler at the call site: by-value parameters are copied,
    reference parameters alias the caller's objects; one resulting store per path of the helper.  None if the callee is
    not such a helper."""
    cf = tu.callee_fn(n)
    if cf is None or cf.get('virt') or cf['dep'] or tu.cfg(cf) is None or st.depth >= 3:
        return None
    q = cf['q']
    if not (q.startswith('enki::TaskScheduler::') or q.startswith('(anonymous namespace)::')):
        return None
    returns_struct = False
    if not cf.get('fty', '').startswith('void'):
        # a helper that returns a record by value (`return local;`): the result is left in the call's temporary
        rt = (cf.get('fty', '') or '').split('(')[0].strip()
        if not want_struct or irange(rt) is not None or rt.endswith(('*', '&')) or rt == 'bool' or \
                not q.startswith('(anonymous namespace)::'):
            return None
        returns_struct = True
    g2 = tu.cfg(cf)
    if g2.back_edges():
        return None
    s_, obj, args = tu.call_parts(n)
    if len(args) != len(cf['params']):
        return None
    st2 = st.clone()
    st2.depth += 1
    for p_, a_ in zip(cf['params'], args):
        pt = (p_['ct'] or '').strip()
        pp = param_path(p_)
        if pt.endswith('&'):
            src = access_path(tu, a_) or struct_source(tu, a_)
            if src is None:
                return None
            st2.alias[pp] = st.norm(src)
        elif irange(pt) is not None or clean_type(pt).endswith('*') or clean_type(pt) == 'bool':
            st2.write(pp, st.ev(a_))
        else:
            src = struct_source(tu, a_)
            if src is None:
                return None
            st2.copy_struct(pp, st.norm(src))
    try:
        outs = sym_paths(tu, g2, g2.entry, set(), st2, on_call)
    except ValueError:
        return None
    ret_src = None
    if returns_struct:
        rets = [x for b, i, x in g2.stmts() if x.get('kind') == 'ReturnStmt' and tu.kids(x)]
        srcs = {struct_source(tu, tu.kids(x)[0]) for x in rets}
        if len(srcs) != 1 or None in srcs:
            return None
        ret_src = next(iter(srcs))
        if ret_src[0] != 'v' or len(ret_src) != 3:
            return None
    res = []
    for stop, st3 in outs:
        if ret_src is not None:
            st3.copy_struct(('v', 'tmp:' + n['id'], 'tmp'), st3.norm(ret_src))
        for p_ in cf['params']:
            st3.alias.pop(param_path(p_), None)
        st3.depth = st.depth
        res.append(st3)
    return res


def inlinable(tu, call):
    """the callee's definition, if it is an ordinary (non-virtual) function of the analysed tree whose CFG is known"""
    cf = tu.callee_fn(call)
    if cf is None or cf.get('virt') or tu.cfg(cf) is None:
        return None
    if tu.sd(call).get('q', '').startswith('std::'):
        return None
    return cf


def fn_value(tu, f, args, env_outer=None, depth=0):
    """Value returned by the loop-free function f for argument values `args` (Lin per parameter, None = unknown),
    as a Lin over the caller's atoms: branches become ite / min / max atoms.  None if not expressible."""
    g = tu.cfg(f)
    if g is None or depth > 3 or g.back_edges():
        return None
    st0 = Store(tu)
    for p, a in zip(f['params'], args):
        if a is not None:
            st0.vals[param_path(p)] = a

    def on_call(c, env):
        cf = inlinable(tu, c)
        if cf is None:
            return None
        av = [lin(tu, a_, env) if irange(tu.sd(a_).get('ct')) is not None else None for a_ in tu.kids(c)[1:]]
        return fn_value(tu, cf, av, env, depth + 1)

    def walk(bid, st, seen):
        if bid in seen or bid == g.exit:
            return None
        blk = g.blocks[bid]
        st = st.clone()
        env = st.env()
        env.on_call = on_call
        for e in blk.el:
            if e[0] != 'S':
                continue
            n = tu.node(e[1])
            if n is None:
                continue
            if n.get('kind') == 'ReturnStmt':
                ks = tu.kids(n)
                return lin(tu, ks[0], env) if ks else None
            if n.get('kind') in ('BinaryOperator', 'CompoundAssignOperator', 'UnaryOperator', 'DeclStmt'):
                if n.get('kind') == 'DeclStmt' or n.get('opcode') in ('=', '+=', '-=', '++', '--'):
                    sym_step(tu, st, n, None, env)
        succ = blk.succ
        if blk.cond is not None and len(succ) == 2 and succ[0] is not None and succ[1] is not None:
            a = bool_atom(tu, tu.node(blk.cond), env)
            t = walk(succ[0], st, seen | {bid})
            f_ = walk(succ[1], st, seen | {bid})
            if t is None or f_ is None:
                return None
            if t == f_:
                return t
            if a is None:
                return None
            return Lin.atom(ite_atom(a, t, f_))
        nxt = [x for x in succ if x is not None]
        if len(nxt) != 1:
            return None
        return walk(nxt[0], st, seen | {bid})
    return walk(g.entry, st0, frozenset())


def make_env(tu, defs):
    """LinEnv that reads single-assignment integer locals through their initialiser and inlines helper functions"""
    def on_read(p, n):
        if p in defs and irange(tu.sd(n).get('ct')) is not None:
            return lin(tu, defs[p], env)
        return None

    def on_call(c, e):
        cf = inlinable(tu, c)
        if cf is None:
            return None
        av = [lin(tu, a_, e) if irange(tu.sd(a_).get('ct')) is not None else None for a_ in tu.kids(c)[1:]]
        return fn_value(tu, cf, av, e)
    env = LinEnv(tu, on_read=on_read, on_call=on_call)
    return env


# =====================================================================================================
#  INTERNAL backend: parallel_for_internal, its local task class, TaskSys.cpp, AddTaskSetToPipe, WaitforTask
# =====================================================================================================
def derives_from_taskset(tu, recid):
    r = tu.records.get(recid)
    seen = 0
    while r is not None and seen < 6:
        if r['q'] == 'enki::ITaskSet':
            return True
        nxt = None
        for b in r.get('bases', []):
            bt = b if isinstance(b, str) else b.get('type', b.get('q', ''))
            if 'enki::ITaskSet' in bt:
                return True
            nxt = tu.records_by_type.get(bt)
        r = nxt
        seen += 1
    return False


def pat_name(f):
    """pattern-level name of a function: qualified name without template arguments / parameter lists"""
    q = f['q']
    q = re.sub(r'\((?:[^()]|\([^()]*\))*\)', '', q)
    q = re.sub(r'<[^<>]*(<[^<>]*>[^<>]*)*>', '', q)
    return q.replace(NS, '').replace('detail::', '')


def task_fn_summaries(tu):
    """For every function of the unit that takes an enkiTS task pointer: the set of event sequences over
    A = TaskScheduler::AddTaskSetToPipe(param), W = TaskScheduler::WaitforTask(param), ? = param handed to something unknown,
    one sequence per CFG path (callees of the same unit inlined)."""
    memo = {}

    def summ(f, k, depth):
        key_ = (f['id'], k)
        if key_ in memo:
            return memo[key_]
        memo[key_] = {('?',)}
        g = tu.cfg(f)
        if g is None or depth > 4:
            return memo[key_]
        pp = param_path(f['params'][k])
        ev = {}
        for b, i, n in g.stmts():
            if n.get('kind') not in CALLS:
                continue
            s_, obj, args = call_args(tu, n)
            hit = [ai for ai, a_ in enumerate(args) if access_path(tu, a_) == pp]
            if not hit:
                continue
            q = s_.get('q', '')
            if q == TS + 'AddTaskSetToPipe':
                ev[n['id']] = {('A',)}
            elif q in (TS + 'WaitforTask', TS + 'WaitforTaskSet'):
                ev[n['id']] = {('W',)}
            else:
                cf = tu.callee_fn(n)
                if cf is not None and tu.cfg(cf) is not None and not cf.get('virt') and hit[0] < len(cf['params']):
                    ev[n['id']] = summ(cf, hit[0], depth + 1)
                else:
                    ev[n['id']] = {('?',)}

        def transfer(blk, idx, e, st):
            if e[0] == 'S' and e[1] in ev:
                return [(st + x)[:4] for x in ev[e[1]]]
            return [st]
        try:
            res = g.explore([()], transfer, None)
            memo[key_] = {st for st, via in res.exits if not g.blocks[via].noret} or {()}
        except RuntimeError:
            memo[key_] = {('?',)}
        return memo[key_]
    out = {}
    for f in tu.functions.values():
        if f['dep'] or tu.cfg(f) is None:
            continue
        for k, p_ in enumerate(f.get('params', [])):
            t = clean_type(p_['ct']) or ''
            if t.endswith('*') and ('ITaskSet' in t or 'ICompletable' in t or t.endswith('Task *')):
                out[f['q']] = (summ(f, k, 0), tu.fn_loc(f), tu.fn_file(f))
                break
    return out


def ref_target(tu, e, depth=0):
    """access path of the object an lvalue expression designates, following local references to what they were bound to"""
    p = obj_path(tu, e)
    if p is None or depth > 3 or p[0] != 'v' or len(p) != 3:
        return p
    vd = tu.node(p[1])
    ty = (vd.get('type') or {}) if vd is not None else {}
    if vd is not None and vd.get('kind') == 'VarDecl' and (ty.get('desugaredQualType') or ty.get('qualType', '')).rstrip().endswith('&') \
            and tu.kids(vd):
        return ref_target(tu, tu.kids(vd)[0], depth + 1)
    return p


def functor_address(tu, e):
    """access path of X if e is the address of X (&X, std::addressof(X), through pointer casts), else None"""
    n = leaf(tu, e)
    hops = 0
    while n is not None and hops < 6:
        k = n.get('kind')
        ks = tu.kids(n)
        if k in ('CXXReinterpretCastExpr', 'CXXConstCastExpr') and ks:
            n = leaf(tu, ks[-1])
        elif k == 'UnaryOperator' and n.get('opcode') == '&' and ks:
            return ref_target(tu, ks[0])
        elif k == 'CallExpr' and tu.sd(n).get('q') in ('std::addressof', 'std::__addressof') and len(ks) == 2:
            return ref_target(tu, ks[1])
        else:
            return None
        hops += 1
    return None


def function_ref(tu, e):
    """the function (entry of tu.functions) an expression names: &f, f (decayed), else None"""
    n = leaf(tu, e)
    if n is not None and n.get('kind') == 'UnaryOperator' and n.get('opcode') == '&' and tu.kids(n):
        n = leaf(tu, tu.kids(n)[0])
    if n is not None and n.get('kind') == 'DeclRefExpr':
        d = n.get('referencedDecl', {})
        if d.get('kind') in ('FunctionDecl', 'CXXMethodDecl'):
            return tu.functions.get(d.get('id')) or tu.functions.get(tu.sd(n).get('def')) or tu.functions.get(tu.sd(n).get('d'))
    return None


def check_trampoline_execute(ctx, tu, f, g, ci, tp, inst, loc, key):
    """ExecuteRange of a type-erased task class: it must hand exactly its partition [tp.start, tp.end) and the stored functor
    address to the function pointer stored at construction, once; each function bound there must run the canonical loop over
    [begin, end) calling the functor (recovered from the pointer with its real type) once per index."""
    R1 = 'R-C01-1'
    n_ok = 0
    tm, fm = ci['tramp_member'], ci['fun_member']
    calls = []
    for b, i, n in g.stmts():
        if n.get('kind') == 'CallExpr' and tu.kids(n) and access_path(tu, tu.kids(n)[0]) == ('this', tm):
            calls.append(n)
    if len(calls) != 1:
        ctx.undecided(R1, inst, 'ExecuteRange calls the stored function pointer `%s` %d times' % (tm, len(calls)), loc)
        return 0
    c = calls[0]
    args = tu.kids(c)[1:]
    roles = {}
    for ai, a_ in enumerate(args):
        ap = access_path(tu, a_)
        if ap == ('this', fm):
            roles['fun'] = ai
        elif ap == tp + ('start',):
            roles['start'] = ai
        elif ap == tp + ('end',):
            roles['end'] = ai
    if set(roles) != {'fun', 'start', 'end'} or len(args) != 3:
        got = ', '.join(tu.show(a_) for a_ in args)
        if 'fun' in roles and all((lin(tu, a_) - Lin.atom(('p', tp + (nm,)))).is_const() for a_, nm in
                                  ((args[roles.get('start', 1)], 'start'), (args[roles.get('end', 2)], 'end'))
                                  if irange(tu.sd(a_).get('ct')) is not None) and len(args) == 3:
            ctx.violation(R1, inst, 'ExecuteRange hands (%s) to the stored function instead of (functor, tp.start, tp.end): indices of '
                          'the partition are skipped or run twice' % got, tu.loc(c), key=key(R1, 'trampoline-range'))
        else:
            ctx.undecided(R1, inst, 'arguments (%s) of the call through `%s` are not (functor, tp.start, tp.end)' % (got, tm), loc)
        return 0
    ex, _ = count_paths(tu, g, {c['id']: 1}, None, 'P')
    pr = once_verdict(ex)
    if pr:
        ctx.violation(R1, inst, 'ExecuteRange does not call the stored function exactly once on every path', loc, key=key(R1, 'loop-body'))
        return 0
    ctx.ok(R1, inst, 'hands (functor address, tp.start, tp.end) to the function stored at construction, once', loc)
    n_ok += 1
    # ---- every function bound at a construction site
    for info in ci.get('infos', []):
        tf = info.get('tramp_fn')
        tinst = '[INTERNAL] %s<%s>' % ((tf or {}).get('q', '?').replace(NS, '').replace('detail::', ''), short_type(info['f']))
        if tf is None or tu.cfg(tf) is None:
            ctx.undecided(R1, tinst, 'the function bound to `%s` at %s has no body in this unit' % (tm, tu.loc(info['ce'])), loc)
            continue
        tg = tu.cfg(tf)
        tfile, tname = tu.fn_file(tf), tf['q'].split('::')[-1]
        tkey = lambda rule, d: '%s|%s|%s|%s' % (rule, tfile, tname, d)
        tps = tf['params']
        if len(tps) != 3 or roles['fun'] >= 3:
            ctx.undecided(R1, tinst, 'unexpected parameter list of the range function', tu.fn_loc(tf))
            continue
        pfun, pbeg, pend = (param_path(tps[roles['fun']]), param_path(tps[roles['start']]), param_path(tps[roles['end']]))
        # the functor: a local reference (or pointer) obtained from the untyped pointer by casts
        fun_paths = set()
        ftype = None
        for n in fn_stmts(tu, tf):
            if n.get('kind') == 'VarDecl' and tu.kids(n):
                init = tu.kids(n)[0]
                x = leaf(tu, init)
                if x is not None and x.get('kind') == 'UnaryOperator' and x.get('opcode') == '*' and tu.kids(x):
                    src = tu.kids(x)[0]
                    hops = 0
                    cast_t = None
                    while src is not None and hops < 6:
                        k_ = src.get('kind')
                        if k_ in ('CXXStaticCastExpr', 'CXXReinterpretCastExpr', 'CXXConstCastExpr', 'CStyleCastExpr',
                                  'ImplicitCastExpr', 'ParenExpr') and tu.kids(src):
                            if k_ in ('CXXStaticCastExpr', 'CXXReinterpretCastExpr', 'CStyleCastExpr') and cast_t is None:
                                cast_t = (src.get('type') or {}).get('qualType')
                                cast_t = tu.sd(src).get('ct') or cast_t
                            src = tu.kids(src)[-1]
                            hops += 1
                        else:
                            break
                    if src is not None and access_path(tu, src) == pfun:
                        fun_paths.add(('v', n['id'], n.get('name')))
                        ftype = cast_t
        if not fun_paths:
            ctx.undecided(R1, tinst, 'the range function does not recover the functor from its pointer parameter in a recognised way',
                          tu.fn_loc(tf))
            continue
        want_t = clean_type(info.get('fun_type') or '')
        got_t = clean_type((ftype or '').rstrip('*').strip()) if ftype else None
        if got_t is not None and want_t and got_t != want_t:
            ctx.violation(R1, tinst, 'the range function casts the functor pointer to `%s`, but the object behind it has type `%s`'
                          % (got_t, want_t), tu.fn_loc(tf), key=tkey(R1, 'trampoline-type'))
            continue
        li = analyse_counting_loop(tu, tf, tg, fun_paths, Lin.atom(('p', pbeg)), Lin.atom(('p', pend)), allow_ne=True)
        if li is None:
            ctx.violation(R1, tinst, 'the range function has no loop over [begin, end): at most one index of each partition runs',
                          tu.fn_loc(tf), key=tkey(R1, 'no-loop'))
            continue
        for u in sorted(set(li.undecided)):
            ctx.undecided(R1, tinst, u, tu.fn_loc(tf))
        for k_, t_, n_ in ([] if li.undecided else li.problems):
            ctx.violation(R1, tinst, t_, tu.loc(n_), key=tkey(R1, 'loop-' + k_))
        if li.decl_stmt and not li.undecided:
            ex2, _ = count_paths(tu, tg, {li.decl_stmt: 'loop'}, None, 'P')
            for k_, t_ in once_verdict(ex2):
                ctx.violation(R1, tinst, t_.replace('hands the range to the backend', 'runs the partition loop'), tu.fn_loc(tf),
                              key=tkey(R1, k_))
        if not li.undecided and not li.problems:
            ctx.ok(R1, tinst, 'canonical loop over [begin, end) calling the functor (recovered with its own type) once per index',
                   tu.fn_loc(tf))
            n_ok += 1
        if li.arg is not None and li.call is not None and not li.undecided:
            lf, ch = cast_chain(tu, li.arg)
            callee = tu.callee_fn(li.call)
            ptype = clean_type(callee['params'][0]['ct']) if callee and callee.get('params') else (ch[-1] if ch else None)
            if ch and ptype and ch[-1] != ptype:
                ch = ch + [ptype]
            M = irange(ptype)[1] if irange(ptype) else None
            info['index_chain'] = (ch, M, tu.loc(li.arg), tinst, tfile, tname)
    return n_ok


def check_internal(ctx, tu, chains, summaries=None):
    summaries = summaries or {}
    R1, R2, R3 = 'R-C01-1', 'R-C01-2', 'R-C01-3'
    cfgname = 'INTERNAL'
    n_int = 0
    internal_by_fn = {}
    for f in tu.fns(q=PINT, dep=False):
        g = tu.cfg(f)
        if g is None:
            continue
        n_int += 1
        inst = '[INTERNAL] parallel_for_internal<%s>' % short_type(f)
        loc = tu.fn_loc(f)
        file = tu.fn_file(f)
        key = lambda rule, d: '%s|%s|parallel_for_internal|%s' % (rule, file, d)
        if len(f['params']) != 2:
            ctx.undecided(R1, inst, 'unexpected parameter list', loc)
            continue
        pn, pf = f['params']
        ppath, fpath = param_path(pn), param_path(pf)
        ro = readonly_param(tu, f, pn)
        if ro:
            ctx.undecided(R1, inst, ro, loc)
            continue
        # the task object(s)
        tasks = []
        for b, i, n in g.stmts():
            if n.get('kind') == 'DeclStmt':
                for vd in tu.kids(n):
                    if vd.get('kind') != 'VarDecl':
                        continue
                    vks = tu.kids(vd)
                    ce = leaf(tu, vks[0]) if vks else None
                    if ce is not None and ce.get('kind') == 'CXXConstructExpr':
                        cf = tu.callee_fn(ce)
                        if cf is not None and derives_from_taskset(tu, cf.get('recid')):
                            tasks.append((vd, ce, cf, n))
        if len(tasks) != 1:
            ctx.undecided(R1, inst, '%d local task-set objects (expected one)' % len(tasks), loc)
            continue
        vd, ce, ctor, dstmt = tasks[0]
        tpath = ('v', vd['id'], vd.get('name'))
        und = []
        bad = []
        # constructor arguments
        cargs = tu.kids(ce)
        cnt_i = fun_i = tramp_i = None
        tramp_fn = None
        # the count may be handed over through a local that is initialised once (`const int setSize = static_cast<int>(n)`)
        ldefs = {p_: e_ for p_, e_ in local_defs(tu, [f]).items() if irange(tu.sd(e_).get('ct')) is not None}
        env_l = make_env(tu, ldefs)
        for ai, a_ in enumerate(cargs):
            if irange(tu.sd(a_).get('ct')) is not None and lin(tu, a_, env_l) == Lin.atom(('p', ppath)):
                cnt_i = ai
            elif obj_path(tu, a_) == fpath:
                fun_i = ai
            elif functor_address(tu, a_) == fpath:
                fun_i = ai               # type-erased: the address of the functor
            elif function_ref(tu, a_) is not None:
                tramp_i, tramp_fn = ai, function_ref(tu, a_)   # a function that knows the functor's type (trampoline)
        if cnt_i is None:
            ll = [lin(tu, a_, env_l) for a_ in cargs if irange(tu.sd(a_).get('ct')) is not None]
            if ll and (ll[0] - Lin.atom(('p', ppath))).is_const():
                bad.append(('task-size', 'the task set is constructed with size `%r` instead of the count' % ll[0], ce))
            else:
                und.append('no constructor argument of the task set is the count')
        if fun_i is None:
            und.append('no constructor argument of the task set is the functor')
        # schedule / wait
        sched = []
        waits = []
        uses = refs_to(tu, f, vd['id'])
        used_ok = set()
        for b, i, n in g.stmts():
            if n.get('kind') not in CALLS:
                continue
            s, obj, args = call_args(tu, n)
            mine = False
            for a_ in args:
                a0 = leaf(tu, a_)
                if a0 is not None and a0.get('kind') == 'UnaryOperator' and a0.get('opcode') == '&' and \
                        access_path(tu, tu.kids(a0)[0]) == tpath:
                    mine = True
            if not mine:
                continue
            q = s.get('q', '')
            summaries.setdefault('__used__', (set(), '', ''))[0].add(q)
            # what the callee does with the task: its summary from TaskSys.cpp (schedule = A, wait = W)
            seqs = summaries.get(q, (None,))[0]
            if seqs is None and q in (SCHED, WAIT):
                seqs = {('A',)} if q == SCHED else {('W',)}      # library unit not available: the documented roles
            if seqs is None or any('?' in x for x in seqs):
                und.append('the task set is handed to `%s`, whose effect on it is not known' % q.split('::')[-1])
            elif len(seqs) != 1:
                und.append('`%s` does not treat the task set the same way on all of its paths (%s)'
                           % (q.split('::')[-1], sorted(seqs)))
            else:
                sq = next(iter(seqs))
                if sq == ('A',):
                    sched.append(n)
                elif sq == ('W',):
                    waits.append(n)
                elif sq == ('A', 'W'):
                    sched.append(n)
                    waits.append(n)
                elif sq == ():
                    pass
                else:
                    und.append('`%s` applies the sequence %s to the task set' % (q.split('::')[-1], sq))
            for r in uses:
                x = r
                for _ in range(4):
                    x = tu.par(x)
                    if x is None:
                        break
                    if x.get('id') == n['id']:
                        used_ok.add(r['id'])
        for r in uses:
            if r['id'] not in used_ok:
                und.append('the task set `%s` is used outside schedule/wait at %s' % (vd.get('name'), tu.loc(r)))
        events = {n['id']: 'sched' for n in sched}
        if not sched and not und:
            bad.append(('never', 'the task set is never scheduled: the body is never invoked', None))
        exits, seen = count_paths(tu, g, events, ppath, signs_of_type(pn['ct']))
        if sched or not und:
            for k, t in once_verdict(exits, und):
                if k == 'never' and und:
                    continue
                bad.append((k, t.replace('hands the range to the backend', 'schedules the task set'), None))
        for s_ in sched:
            if not g.dominates(g.where(dstmt['id']), g.where(s_['id'])):
                und.append('the task set is scheduled on a path that does not construct it first')
        for u in sorted(set(und)):
            ctx.undecided(R1, inst, u, loc)
        for k, t, n in ([] if und else bad):
            ctx.violation(R1, inst, t, tu.loc(n) if n is not None else loc, key=key(R1, k))
        if not und and not bad:
            ctx.ok(R1, inst, 'one task set of size count, scheduled exactly once', loc)
        # ---- R-C01-2 join
        ad = None
        for blk, i, e in g.elements():
            if e[0] == 'AD' and e[1] == vd['id']:
                ad = (blk.id, i)
        for s_ in ([] if und else sched):
            sp = g.where(s_['id'])
            pd = [w for w in waits if g.postdominates(g.where(w['id']), sp)]
            if not pd:
                ctx.violation(R2, inst, 'scheduleTaskInternal(&%s) is not followed on every path by waitInternal(&%s): '
                              'parallel_for can return (and destroy the task set) while partitions are still queued or running'
                              % (vd.get('name'), vd.get('name')), tu.loc(s_), key=key(R2, 'no-wait'))
            elif ad is not None and not all(g.dominates(g.where(w['id']), ad) for w in pd[:1]):
                ctx.violation(R2, inst, 'the task set is destroyed before the wait', tu.loc(s_), key=key(R2, 'destroyed-before-wait'))
            else:
                ctx.ok(R2, inst, 'waitInternal(&%s) post-dominates scheduleTaskInternal(&%s); the object outlives the wait'
                       % (vd.get('name'), vd.get('name')), tu.loc(pd[0]))
        # ---- conversion chain pieces: count -> constructor parameter
        ch_here = None
        if cnt_i is not None and ctor.get('params') and cnt_i < len(ctor['params']):
            lf, ch = cast_chain(tu, cargs[cnt_i])
            hops = 0
            while lf is not None and access_path(tu, lf) in ldefs and hops < 4:
                # conversions written at the initialiser of the local come first
                lf, ch0 = cast_chain(tu, ldefs[access_path(tu, lf)])
                ch = ch0 + (ch[1:] if ch and ch0 and ch[0] == ch0[-1] else ch)
                hops += 1
            pt = clean_type(ctor['params'][cnt_i]['ct'])
            if not ch or ch[-1] != pt:
                ch = ch + [pt]
            ch_here = ch
        sg_here = set()
        for s_ in sched:
            sg_here |= set(seen.get(s_['id'], ()))
        internal_by_fn[f['id']] = dict(f=f, inst=inst, ctor=ctor, cnt_i=cnt_i, fun_i=fun_i, chain=ch_here, ce=ce,
                                       tramp_i=tramp_i, tramp_fn=tramp_fn, fun_type=clean_type(pf['ct']),
                                       param_guard=range_for_signs(clean_type(pn['ct']), sg_here or set('NZP')),
                                       param_type=clean_type(pn['ct']), param_name=pn['name'])
    ctx.floor(R1 + '(internal)', n_int, 8, 'parallel_for_internal instantiations: one per index type of the driver')

    # ---- constructors of the local task classes: base size and functor member
    ctor_info = {}
    n_ctor = 0
    for info in internal_by_fn.values():
        ctor = info['ctor']
        g = tu.cfg(ctor)
        inst = '[INTERNAL] %s' % pat_name(ctor) + '<%s>' % short_type(info['f'])
        loc = tu.fn_loc(ctor)
        file = tu.fn_file(ctor)
        if g is None:
            ctx.undecided(R1, inst, 'constructor has no CFG', loc)
            continue
        n_ctor += 1
        cparams = ctor['params']
        base_chain = None
        fun_member = None
        tramp_member = None
        size_ok = False
        for blk, i, e in g.elements():
            if e[0] != 'I':
                continue
            init = tu.node(e[1])
            if e[3] == '<base>' and init is not None and init.get('kind') == 'CXXConstructExpr':
                bf = tu.callee_fn(init)
                bargs = tu.kids(init)
                if bf is None or bf.get('rec') != 'enki::ITaskSet':
                    continue
                if not bargs:
                    ctx.violation(R1, inst, 'the ITaskSet base is default-constructed (size 1): the count is dropped', loc,
                                  key='%s|%s|%s|base-size' % (R1, file, pat_name(ctor)))
                    continue
                if info['cnt_i'] is None:
                    continue
                want = Lin.atom(('p', param_path(cparams[info['cnt_i']])))
                got = lin(tu, bargs[0])
                if got != want:
                    if (got - want).is_const():
                        ctx.violation(R1, inst, 'the ITaskSet base is constructed with size `%r` instead of the count' % got, loc,
                                      key='%s|%s|%s|base-size' % (R1, file, pat_name(ctor)))
                    else:
                        ctx.undecided(R1, inst, 'size argument `%s` of the ITaskSet base is not recognised' % tu.show(bargs[0]), loc)
                    continue
                lf, ch = cast_chain(tu, bargs[0])
                pt = clean_type(bf['params'][0]['ct'])
                if not ch or ch[-1] != pt:
                    ch = ch + [pt]
                # ITaskSet(uint32_t setSize_, ...) : m_SetSize(setSize_)
                bg = tu.cfg(bf)
                sz = None
                if bg is not None:
                    for b2, i2, e2 in bg.elements():
                        if e2[0] == 'I' and e2[3] == 'm_SetSize':
                            iv = tu.node(e2[1])
                            if iv is not None and lin(tu, iv) == Lin.atom(('p', param_path(bf['params'][0]))):
                                l2, c2 = cast_chain(tu, iv)
                                sz = c2
                if sz is None:
                    ctx.undecided(R1, inst, 'ITaskSet constructor does not initialise m_SetSize from its first parameter', loc)
                    continue
                fld = [fl for r in tu.records.values() if r['q'] == 'enki::ITaskSet' for fl in r['fields'] if fl['name'] == 'm_SetSize']
                ft = clean_type(fld[0]['ct']) if fld else None
                if ft and sz[-1] != ft:
                    sz = sz + [ft]
                base_chain = ch + sz[1:] if sz and ch and sz[0] == ch[-1] else ch + sz
                size_ok = True
            elif e[3] not in ('<base>',) and init is not None and info.get('tramp_i') is not None and \
                    info['tramp_i'] < len(cparams) and obj_path(tu, init) == param_path(cparams[info['tramp_i']]):
                tramp_member = e[3]
            elif e[3] not in ('<base>',) and init is not None and info['fun_i'] is not None:
                if obj_path(tu, init) == param_path(cparams[info['fun_i']]):
                    fun_member = e[3]
        if size_ok and fun_member:
            ctx.ok(R1, inst, 'm_SetSize <- count parameter, member `%s` <- functor parameter' % fun_member, loc)
        elif not fun_member:
            ctx.undecided(R1, inst, 'no member of the task class is bound to the functor parameter', loc)
        prev = ctor_info.get(ctor.get('recid'), {}).get('infos', [])
        ctor_info[ctor.get('recid')] = dict(fun_member=fun_member, base_chain=base_chain, info=info, tramp_member=tramp_member,
                                            infos=prev + [info])
        info['base_chain'] = base_chain
        info['fun_member'] = fun_member
    # ---- ExecuteRange of the local task classes
    n_exec = 0
    for f in tu.functions.values():
        if f['dep'] or not f['q'].endswith('::ExecuteRange') or f.get('recid') not in ctor_info:
            continue
        ci = ctor_info[f['recid']]
        g = tu.cfg(f)
        inst = '[INTERNAL] %s<%s>' % (pat_name(f), short_type(ci['info']['f']))
        loc = tu.fn_loc(f)
        file = tu.fn_file(f)
        key = lambda rule, d: '%s|%s|%s|%s' % (rule, file, pat_name(f), d)
        if g is None or not f['params']:
            ctx.undecided(R1, inst, 'no CFG', loc)
            continue
        n_exec += 1
        if not f.get('overrides') and not f.get('virt'):
            ctx.violation(R1, inst, 'ExecuteRange does not override enki::ITaskSet::ExecuteRange: the scheduler never calls it', loc,
                          key=key(R1, 'not-override'))
        tp = param_path(f['params'][0])
        if not ci['fun_member']:
            continue
        if ci.get('tramp_member'):
            n_exec += check_trampoline_execute(ctx, tu, f, g, ci, tp, inst, loc, key)
            continue
        fun_paths = {('this', ci['fun_member'])}
        li = analyse_counting_loop(tu, f, g, fun_paths, Lin.atom(('p', tp + ('start',))), Lin.atom(('p', tp + ('end',))),
                                   allow_ne=True)
        if li is None:
            handed = [n for b, i, n in g.stmts() if n.get('kind') in CALLS and
                      any(obj_path(tu, a_) in fun_paths or access_path(tu, a_) == tp for a_ in tu.call_parts(n)[2])]
            if handed:
                ctx.undecided(R1, inst, 'ExecuteRange hands its partition / functor to `%s` instead of looping itself'
                              % tu.sd(handed[0]).get('q', '?'), loc)
            else:
                ctx.violation(R1, inst, 'ExecuteRange has no loop over its partition: at most one index of each partition runs', loc,
                              key=key(R1, 'no-loop'))
            continue
        for u in sorted(set(li.undecided)):
            ctx.undecided(R1, inst, u, loc)
        for k, t, n in ([] if li.undecided else li.problems):
            ctx.violation(R1, inst, t, tu.loc(n), key=key(R1, 'loop-' + k))
        # the loop must run on every path exactly once
        if li.decl_stmt:
            exits, seen = count_paths(tu, g, {li.decl_stmt: 'loop'}, None, 'P')
            for k, t in once_verdict(exits):
                ctx.violation(R1, inst, t.replace('hands the range to the backend', 'runs the partition loop'), loc, key=key(R1, k))
        if not li.undecided and not li.problems:
            ctx.ok(R1, inst, 'canonical loop over [partition.start, partition.end) calling the functor once per index', loc)
        # index conversions: partition index -> functor parameter; values are below the count
        fobj = ci['info']['f']
        # the count type of the *caller*: parameter type of the functor's operator()
        if li.arg is not None and li.call is not None and not li.undecided:
            lf, ch = cast_chain(tu, li.arg)
            callee = tu.callee_fn(li.call)
            ptype = clean_type(callee['params'][0]['ct']) if callee and callee.get('params') else (ch[-1] if ch else None)
            if ch and ptype and ch[-1] != ptype:
                ch = ch + [ptype]
            M = irange(ptype)[1] if irange(ptype) else None
            ci['info']['index_chain'] = (ch, M, tu.loc(li.arg), inst, file, pat_name(f))
            ir = irange(li.itype)
            if ir is not None and li.cond_ops:
                for opnd, is_i in li.cond_ops:
                    l2, c2 = cast_chain(tu, opnd)
                    check_chain(ctx, tu, inst, ('index' if is_i else 'partition end') + ' in the loop condition', c2, 0,
                                irange(c2[0])[1] if c2 and irange(c2[0]) else None, tu.loc(opnd), file, pat_name(f), '')
    ctx.floor(R1 + '(ExecuteRange)', n_exec, 8, 'ExecuteRange of the local task class, one per index type')
    return internal_by_fn


def _merge_iv(iv):
    out = []
    for a, b in sorted(iv):
        if out and a <= out[-1][1] + 1:
            out[-1] = (out[-1][0], max(out[-1][1], b))
        else:
            out.append((a, b))
    return out


def finish_internal_chains(ctx, tu, chains, internal_by_fn):
    """compose: INDEX_T count -> parallel_for_internal parameter -> task constructor parameter -> ITaskSet(uint32_t) ->
    m_SetSize, and decide which counts arrive unchanged; then the index path back to the functor"""
    R3 = 'R-C01-3'
    n = 0
    for c in chains:
        if c.get('kind') != 'internal-count':
            continue
        callee = tu.callee_fn(c['call'])
        info = internal_by_fn.get(callee['id']) if callee else None
        inst = c['inst']
        loc = tu.loc(c['call'])
        if info is None or info.get('chain') is None or info.get('base_chain') is None:
            ctx.undecided(R3, inst, 'count path into the internal backend could not be followed to m_SetSize', loc)
            continue
        # pipeline: conversions up to the parameter of parallel_for_internal, the guard that parameter has to pass there
        # before a task set is scheduled, then the conversions down to m_SetSize
        def dedupe(ts):
            out_ = []
            for t_ in ts:
                if not out_ or out_[-1] != t_:
                    out_.append(t_)
            return out_
        first = dedupe(list(c['chain']))
        if first[-1] != info['param_type']:
            first.append(info['param_type'])
        rest = []
        for part in (info['chain'], info['base_chain']):
            rest += list(part)
        rest = dedupe([first[-1]] + rest)[1:]
        glo, ghi = info['param_guard']
        pr_ = irange(info['param_type'])
        guarded = pr_ is not None and (glo, ghi) != pr_
        steps = [('conv', t_) for t_ in first[1:]]
        if guarded:
            steps.append(('guard', glo, ghi))
        steps += [('conv', t_) for t_ in rest]
        cc = first + rest
        n += 1
        label = ' -> '.join(first) + (' [guard %s in %s]' % (info['param_name'], fmt_intervals([(glo, ghi)])) if guarded else '') + \
            ''.join(' -> ' + t_ for t_ in rest)
        r = flow(steps, c['lo'], c['hi']) if irange(first[0]) is not None else None
        if r is None:
            ctx.undecided(R3, inst, 'count path %s contains a non-integer type' % label, loc)
            continue
        kept, altered, dropped = r
        file = tu.fn_file(c['f'])
        LIM = 1 << 32
        bad_drop = clip(dropped, 1, LIM - 1)          # positive counts (below 2^32) for which nothing is scheduled at all
        neg = clip(altered, -(1 << 200), -1)
        mid = clip(altered, 0, LIM - 1)
        big = clip(altered, LIM, 1 << 200) + clip(dropped, LIM, 1 << 200)
        lost = altered + [d_ for d_ in dropped if d_[1] >= 1]
        if not neg and not mid and not big and not bad_drop:
            ctx.ok(R3, inst + ' count to m_SetSize', '%s preserves %s%s' % (label, fmt_intervals(kept),
                   ('; counts %s schedule nothing' % fmt_intervals(clip(dropped, -(1 << 200), 0))) if dropped else ''), loc)
        if neg:
            ctx.violation(R3, inst + ' count to m_SetSize',
                          'negative counts reach the task set size through %s as a positive value (counts %s are neither '
                          'preserved nor excluded by a guard): %s' % (label, fmt_intervals(neg),
                          'parallel_for(-1, f) runs f about 2^32 times instead of never' if any(a <= -1 <= b for a, b in neg)
                          else 'parallel_for(%d, f) runs f although the count is negative' % neg[-1][1]), loc,
                          key='%s|%s|parallel_for_impl|INTERNAL:count-negative' % (R3, file))
        if bad_drop:
            ctx.violation(R3, inst + ' count to m_SetSize',
                          'the positive counts %s are turned into a value outside %s by the conversion %s *before* the guard on `%s` '
                          'is evaluated, so the guard rejects them and parallel_for runs nothing (the guard has to test the count '
                          'before it is narrowed)' % (fmt_intervals(bad_drop), fmt_intervals([(glo, ghi)]), ' -> '.join(first),
                                                      info['param_name']), loc,
                          key='%s|%s|parallel_for_impl|INTERNAL:count-rejected-after-narrowing' % (R3, file))
        if mid:
            ctx.violation(R3, inst + ' count to m_SetSize',
                          'counts %s arrive at the task set size as a different value through %s' % (fmt_intervals(mid), label), loc,
                          key='%s|%s|parallel_for_impl|INTERNAL:count-altered' % (R3, file))
        if big:
            ctx.violation(R3, inst + ' count to m_SetSize',
                          'counts %s do not survive %s (the enkiTS task set size is 32 bit): parallel_for runs only '
                          'count mod 2^32 indices' % (fmt_intervals(_merge_iv(big)), ' -> '.join(cc)), loc,
                          key='%s|%s|parallel_for_impl|INTERNAL:count-above-32-bit' % (R3, file))
        ic = info.get('index_chain')
        if ic and not neg:
            chx, M, iloc, iinst, ifile, ifn = ic
            hi = min(M, irange(c['nct'])[1]) - 1 if M is not None else None
            if kept:
                hi = min(hi, kept[-1][1] - 1) if hi is not None else kept[-1][1] - 1
            check_chain(ctx, tu, iinst, 'index to the functor', chx, 0, max(hi, 0), iloc, ifile, ifn, '')
    return n


def check_single_call(ctx, tu, f, rule, callee_q, what, file_key, require_arg_param=0):
    """every path of f calls callee exactly once, handing over parameter #require_arg_param unchanged"""
    g = tu.cfg(f)
    inst = '[INTERNAL] ' + f['q'].replace(NS, '').replace('detail::', '')
    loc = tu.fn_loc(f)
    key = lambda d: '%s|%s|%s|%s' % (rule, file_key, f['q'].split('::')[-1], d)
    if g is None:
        ctx.undecided(rule, inst, 'no CFG', loc)
        return
    events = {}
    for b, i, n in g.stmts():
        if n.get('kind') in CALLS and tu.sd(n).get('q') == callee_q:
            events[n['id']] = 1
            s, obj, args = call_args(tu, n)
            pp = param_path(f['params'][require_arg_param])
            if not args or access_path(tu, args[0]) != pp:
                ctx.violation(rule, inst, '%s receives `%s` instead of the parameter `%s`'
                              % (what, tu.show(args[0]) if args else '', pp[2]), tu.loc(n), key=key('argument'))
                return
            if refs_to(tu, f, pp[1]) and any(not is_rvalue_read(tu, r) for r in refs_to(tu, f, pp[1])):
                ctx.undecided(rule, inst, 'parameter `%s` is modified' % pp[2], loc)
                return
    if not events:
        ctx.violation(rule, inst, '%s is never called' % what, loc, key=key('never'))
        return
    exits, seen = count_paths(tu, g, events, None, 'P')
    pr = once_verdict(exits)
    for k, t in pr:
        ctx.violation(rule, inst, t.replace('hands the range to the backend', 'calls ' + what).replace(
            ' although the count can be positive', ''), loc, key=key(k))
    if not pr:
        ctx.ok(rule, inst, 'calls %s(%s) exactly once on every path' % (what, f['params'][require_arg_param]['name']), loc)


def check_tasksys(ctx, tu, summaries):
    """every function of TaskSys.cpp that parallel_for_internal hands its task to does the same thing with it on all of its
    paths: schedule-like functions reach AddTaskSetToPipe(task) exactly once, wait-like ones WaitforTask(task)"""
    n = 0
    used = summaries_used(summaries) | {SCHED, WAIT}
    for q, (seqs, loc, file) in sorted((k_, v_) for k_, v_ in summaries.items() if k_ in used):
        name = q.split('::')[-1]
        letters = {c for x in seqs for c in x}
        want = ('A',) if q == SCHED else ('W',) if q == WAIT else None
        rule = 'R-C01-2' if (want == ('W',) or (want is None and 'A' not in letters)) else 'R-C01-1'
        inst = '[INTERNAL] ' + q.replace(NS, '').replace('detail::', '')
        key = lambda d: '%s|%s|%s|%s' % (rule, F_TASKSYS, name, d)
        n += 1
        if '?' in letters:
            ctx.undecided(rule, inst, 'the task is handed to a function whose effect on it is not known', loc)
            continue
        if want is not None and seqs == {want}:
            ctx.ok(rule, inst, 'reaches TaskScheduler::%s(task) exactly once on every path'
                   % ('AddTaskSetToPipe' if want == ('A',) else 'WaitforTask'), loc)
            continue
        if want is None and len(seqs) == 1 and next(iter(seqs)) in (('A',), ('W',), ('A', 'W')):
            ctx.ok(rule, inst, 'applies %s to the task on every path' % '+'.join(next(iter(seqs))), loc)
            continue
        w = want[0] if want else 'A'
        what = 'TaskScheduler::AddTaskSetToPipe' if w == 'A' else 'TaskScheduler::WaitforTask'
        if any(w not in x for x in seqs):
            ctx.violation(rule, inst, 'a path returns without calling %s for the task' % what, loc, key=key('never'))
        elif any(x.count(w) > 1 for x in seqs):
            ctx.violation(rule, inst, 'a path calls %s more than once for the task' % what, loc, key=key('twice'))
        else:
            ctx.undecided(rule, inst, 'the task is treated differently on different paths: %s' % sorted(seqs), loc)
    ctx.floor('R-C01-1/2(TaskSys.cpp)', n, 2, 'scheduleTaskInternal and waitInternal')


# ---- R-C01-8: the scheduler a loop is scheduled on / waited on is the one that exists at the time of the call
SMART_PTR = ('std::unique_ptr<', 'std::shared_ptr<')


def _var_decl(tu, n):
    if n is None or n.get('kind') != 'DeclRefExpr':
        return None
    vd = tu.node(n.get('referencedDecl', {}).get('id'))
    return vd if vd is not None and vd.get('kind') == 'VarDecl' else None


def _var_type(vd):
    ty = vd.get('type') or {}
    return (ty.get('desugaredQualType') or ty.get('qualType', '')).strip()


def _var_storage(tu, vd):
    if vd.get('tls'):
        return 'thread'
    if tu.enclosing_fn(vd) is None or vd.get('storageClass') in ('static', 'extern'):
        return 'static'
    return 'auto'


def sched_source(tu, e, depth=0):
    """where a scheduler pointer / reference comes from:
    ('owner', VarDecl)  read out of a smart pointer with static storage duration at this very point (g->, *g, g.get())
    ('var', VarDecl)    a raw pointer / reference variable with static or thread storage duration
    ('new',) ('null',)  or None if the form is not recognised"""
    n = leaf(tu, e)
    hops = 0
    while n is not None and n.get('kind') in ('ParenExpr', 'ImplicitCastExpr', 'CXXStaticCastExpr', 'ExprWithCleanups',
                                               'MaterializeTemporaryExpr', 'CXXBindTemporaryExpr') and tu.kids(n) and hops < 8:
        n = leaf(tu, tu.kids(n)[0])
        hops += 1
    if n is None or depth > 4:
        return None
    k = n.get('kind')
    ks = tu.kids(n)
    if k == 'CXXNullPtrLiteralExpr' or (k in ('IntegerLiteral', 'GNUNullExpr') and const_value(tu, n) in (0, None)):
        return ('null',)
    if k == 'CXXNewExpr':
        return ('new',)
    if k == 'UnaryOperator' and n.get('opcode') in ('*', '&') and ks:
        return sched_source(tu, ks[0], depth + 1)
    q = tu.sd(n).get('q', '') or ''
    if k == 'CXXOperatorCallExpr' and q.startswith(SMART_PTR) and q.endswith(('::operator->', '::operator*')) and len(ks) >= 2:
        vd = _var_decl(tu, leaf(tu, ks[1]))
        if vd is not None and _var_storage(tu, vd) != 'auto' and _var_type(vd).startswith(SMART_PTR):
            return ('owner', vd)
        return None
    if k == 'CXXMemberCallExpr' and q.startswith(SMART_PTR) and q.endswith('::get') and ks:
        s_, obj, args = call_args(tu, n)
        vd = _var_decl(tu, leaf(tu, obj)) if obj is not None else None
        if vd is not None and _var_storage(tu, vd) != 'auto' and _var_type(vd).startswith(SMART_PTR):
            return ('owner', vd)
        return None
    if k == 'DeclRefExpr':
        vd = _var_decl(tu, n)
        if vd is None:
            return None
        ty = _var_type(vd)
        if ty.startswith(SMART_PTR):
            return ('owner', vd) if _var_storage(tu, vd) != 'auto' else None
        if not ty.endswith(('*', '&', '*const', '* const')):
            return None
        if _var_storage(tu, vd) != 'auto':
            return ('var', vd)
        fnn = tu.enclosing_fn(vd)
        fn = tu.functions.get(fnn.get('id')) if fnn is not None else None
        if fn is None:
            return None
        writes = [r for r in refs_to(tu, fn, vd['id']) if not is_rvalue_read(tu, r)]
        if ty.endswith('&'):
            return sched_source(tu, tu.kids(vd)[0], depth + 1) if tu.kids(vd) else None
        if writes or not tu.kids(vd):
            return None             # a local pointer that is assigned again: not followed
        return sched_source(tu, tu.kids(vd)[0], depth + 1)
    if k == 'CallExpr':
        cf = inlinable(tu, n)
        if cf is None:
            return None
        rets = [x for b, i, x in tu.cfg(cf).stmts() if x.get('kind') == 'ReturnStmt' and tu.kids(x)]
        res = [sched_source(tu, tu.kids(x)[0], depth + 1) for x in rets]
        if not res or any(r is None for r in res):
            return None
        keys = {(r[0], r[1]['id'] if len(r) > 1 else None) for r in res}
        return res[0] if len(keys) == 1 else None
    return None


def _fns_of_file(tu, file):
    return [f for f in tu.functions.values() if not f['dep'] and tu.cfg(f) is not None and tu.fn_file(f) == file]


def owner_writes(tu, ovd, file):
    """[(function, node)] for every place of the unit that can replace / release the object owned by the smart pointer ovd,
    None if the smart pointer is used in a way that is not understood"""
    READS = ('::operator->', '::operator*', '::get', '::operator bool')
    out = []
    for f in _fns_of_file(tu, file):
        for r in refs_to(tu, f, ovd['id']):
            up = tu.par(r)
            hops = 0
            while up is not None and up.get('kind') in ('ImplicitCastExpr', 'ParenExpr', 'MemberExpr') and hops < 4:
                up = tu.par(up)
                hops += 1
            if up is None:
                return None
            q = tu.sd(up).get('q', '') or ''
            if up.get('kind') in CALLS and q.startswith(SMART_PTR) and q.endswith(READS):
                continue
            if up.get('kind') in CALLS and (q.startswith('std::operator==') or q.startswith('std::operator!=')):
                continue
            if up.get('kind') in CALLS and q.startswith(SMART_PTR) and q.endswith(('::operator=', '::reset', '::release', '::swap')):
                out.append((f, up))
                continue
            return None
    return out


def check_scheduler_object(ctx, tu):
    """R-C01-8: scheduleTaskInternal / waitInternal (and whatever they call in TaskSys.cpp) must hand the task to the scheduler
    that exists now.  initTaskSystemInternal may replace (and thereby destroy) the scheduler at any time between two loops;
    reading the owning pointer at the call is immune to that, a copy of the raw pointer kept in a static / thread_local
    variable is not unless every replacement refreshes it."""
    R = 'R-C01-8'
    n_ok = 0
    n_sites = 0
    for f in _fns_of_file(tu, F_TASKSYS):
        g = tu.cfg(f)
        for b, i, n in g.stmts():
            if n.get('kind') not in CALLS:
                continue
            q = tu.sd(n).get('q', '')
            if q not in (TS + 'AddTaskSetToPipe', TS + 'WaitforTask', TS + 'WaitforTaskSet'):
                continue
            n_sites += 1
            s_, obj, args = call_args(tu, n)
            fname = f['q'].split('::')[-1]
            inst = '[INTERNAL] detail::%s: scheduler of %s' % (fname, q.split('::')[-1])
            loc = tu.loc(n)
            key = lambda d: '%s|%s|%s|%s' % (R, F_TASKSYS, fname, d)
            src = sched_source(tu, obj) if obj is not None else None
            if src is None:
                ctx.undecided(R, inst, 'where the scheduler object `%s` comes from is not recognised' % (tu.show(obj) if obj else '?'), loc)
                continue
            if src[0] == 'owner':
                ctx.ok(R, inst, 'the scheduler is read out of the owning pointer `%s` at the call' % src[1].get('name'), loc)
                n_ok += 1
                continue
            if src[0] != 'var':
                ctx.undecided(R, inst, 'the scheduler object is `%s`' % src[0], loc)
                continue
            cvd = src[1]
            cname = cvd.get('name', '?')
            stor = _var_storage(tu, cvd)
            # everything that is ever stored in the variable
            sources, unknown = [], []
            if tu.kids(cvd):
                sources.append((None, cvd, sched_source(tu, tu.kids(cvd)[0])))
            for f2 in _fns_of_file(tu, F_TASKSYS):
                for r in refs_to(tu, f2, cvd['id']):
                    if is_rvalue_read(tu, r):
                        continue
                    up = tu.par(r)
                    if up is not None and up.get('kind') == 'BinaryOperator' and up.get('opcode') == '=' and \
                            tu.kids(up)[0].get('id') == r.get('id'):
                        sources.append((f2, up, sched_source(tu, tu.kids(up)[1])))
                    else:
                        unknown.append(tu.loc(r))
            owners = {s3[1]['id']: s3[1] for f2, nd, s3 in sources if s3 is not None and s3[0] == 'owner'}
            if unknown or any(s3 is None or s3[0] == 'var' for f2, nd, s3 in sources) or len(owners) > 1:
                ctx.undecided(R, inst, 'the scheduler pointer `%s` (%s storage) is written in a way that is not followed' % (cname, stor), loc)
                continue
            if not owners:
                if any(s3[0] == 'new' for f2, nd, s3 in sources):
                    ctx.ok(R, inst, '`%s` is itself the pointer the scheduler is created into; it is read at the call' % cname, loc)
                    n_ok += 1
                else:
                    ctx.undecided(R, inst, 'the scheduler pointer `%s` is never set from a recognised source' % cname, loc)
                continue
            ovd = next(iter(owners.values()))
            oname = ovd.get('name', '?')
            ows = owner_writes(tu, ovd, F_TASKSYS)
            if ows is None:
                ctx.undecided(R, inst, 'uses of the owning pointer `%s` are not all recognised' % oname, loc)
                continue
            stale = []
            for f2, w in ows:
                g2 = tu.cfg(f2)
                wp = g2.where(w['id'])
                refreshed = False
                if stor != 'thread' and wp is not None:
                    for f3, nd, s3 in sources:
                        if f3 is not None and f3['id'] == f2['id'] and s3[0] == 'owner':
                            np_ = g2.where(nd['id'])
                            if np_ is not None and np_ != wp and g2.postdominates(np_, wp):
                                refreshed = True
                if not refreshed:
                    stale.append((f2, w))
            if not stale:
                ctx.ok(R, inst, '`%s` is a copy of `%s.get()` that is refreshed after every replacement of `%s`' % (cname, oname, oname), loc)
                n_ok += 1
                continue
            f2, w = stale[0]
            where_set = [nd for f3, nd, s3 in sources if s3[0] == 'owner']
            ctx.violation(R, inst,
                          'the scheduler is taken from `%s`, a %s copy of `%s.get()` (set at %s) instead of from `%s` itself: %s() at %s '
                          'replaces `%s` - the old scheduler is destroyed - %s, so a thread that has run a loop before the task system is '
                          'initialised again keeps the pointer to the destroyed scheduler and its next parallel_for schedules into / waits '
                          'on freed memory (no index runs, crash); the scheduler has to be read from `%s` at every call'
                          % (cname, 'thread_local' if stor == 'thread' else 'static', oname,
                             tu.loc(where_set[0]) if where_set else '?', oname, f2['q'].split('::')[-1], tu.loc(w), oname,
                             'and a thread_local copy cannot be refreshed for the other threads at all' if stor == 'thread'
                             else 'without storing the new pointer into `%s`' % cname, oname),
                          loc, key=key('scheduler-pointer-cached'))
    ctx.floor(R, n_sites, 2, 'scheduler object of AddTaskSetToPipe / WaitforTask in TaskSys.cpp')


def summaries_used(summaries):
    return set(summaries.get('__used__', ((),))[0]) if '__used__' in summaries else set()


RC = 'm_RunningCount'


_RC_HELPERS = {}


def rc_helper(tu, cf):
    """(parameter index, 'inc'|'dec') if the function cf of the analysed tree adds +1 / -1 to the running count of the task
    passed as that parameter exactly once on every path that returns (whatever else it does: signalling, bookkeeping),
    None if it does not touch a running count, 'und' if it touches one in another way"""
    key_ = (id(tu), cf['id'])
    if key_ in _RC_HELPERS:
        return _RC_HELPERS[key_]
    _RC_HELPERS[key_] = None
    g = tu.cfg(cf)
    if g is None or cf.get('virt') or g.back_edges():
        return None
    evs = {}
    for b, i, n in g.stmts():
        if n.get('kind') == 'CallExpr':
            ev = running_count_event(tu, n, follow=False)
            if ev is not None:
                evs[n['id']] = ev
        if n.get('kind') in CALLS and n.get('kind') != 'CXXOperatorCallExpr' and tu.sd(n).get('q') != 'enki::AtomicAdd':
            cf2 = tu.callee_fn(n)
            if cf2 is not None and tu.cfg(cf2) is not None and cf2['id'] != cf['id'] and \
                    (cf2.get('rec') == 'enki::TaskScheduler' or cf2['q'].startswith('(anonymous namespace)::')):
                if running_count_event(tu, n) is not None or any(
                        tu.sd(x).get('q') == 'enki::ITaskSet::ExecuteRange' for b2, i2, x in tu.cfg(cf2).stmts() if x.get('kind') in CALLS):
                    return None
        if n.get('kind') in CALLS:
            q_ = tu.sd(n).get('q', '')
            if q_ == 'enki::ITaskSet::ExecuteRange' or q_.endswith(('::WriterTryWriteFront', '::WriterTryReadFront', '::ReaderTryReadBack')) \
                    or q_ == TS + 'SplitAndAddTask':
                return None          # more than a count helper: it is replayed at the call site instead
    if not evs:
        return None
    res = 'und'
    pps = {param_path(p_): k for k, p_ in enumerate(cf.get('params', []))}
    kinds = {e[0] for e in evs.values()}
    tasks = {e[1] for e in evs.values()}
    if len(kinds) == 1 and len(tasks) == 1 and next(iter(kinds)) in ('inc', 'dec') and next(iter(tasks)) in pps:
        exits, _ = count_paths(tu, g, {i: 1 for i in evs}, None, 'P')
        if exits and all(cnt == 1 for cnt, sg, unk in exits):
            pk = pps[next(iter(tasks))]
            if all(is_rvalue_read(tu, r) for r in refs_to(tu, cf, cf['params'][pk]['id'])):
                res = (pk, next(iter(kinds)))
    _RC_HELPERS[key_] = res
    return res


def running_count_event(tu, n, follow=True):
    """('inc'|'dec'|'rmw', task access path) for AtomicAdd(&X->m_RunningCount, c), directly or through a helper that does
    exactly that with one of its parameters"""
    if follow and n.get('kind') in CALLS and tu.sd(n).get('q') != 'enki::AtomicAdd':
        cf = tu.callee_fn(n)
        if cf is not None and tu.cfg(cf) is not None and not cf.get('virt') and \
                tu.sd(n).get('q', '') not in (TS + 'SplitAndAddTask', TS + 'TryRunTask', TS + 'AddTaskSetToPipe') and \
                tu.sd(n).get('q', '') not in RANGE_CONSUMERS:
            h = rc_helper(tu, cf)
            if h == 'und':
                return ('rmw', None)
            if h is not None:
                s_, obj, args = tu.call_parts(n)
                if h[0] < len(args):
                    return (h[1], access_path(tu, args[h[0]]))
        return None
    if n.get('kind') != 'CallExpr' or tu.sd(n).get('q') != 'enki::AtomicAdd':
        return None
    args = tu.kids(n)[1:]
    if len(args) != 2:
        return None
    a0 = leaf(tu, args[0])
    if a0 is None or a0.get('kind') != 'UnaryOperator' or a0.get('opcode') != '&':
        return None
    p = access_path(tu, tu.kids(a0)[0])
    if p is None or p[-1] != RC:
        return None
    c = const_value(tu, args[1])
    return ('inc' if c == 1 else 'dec' if c == -1 else 'rmw', p[:-1])


def check_add_task_set(ctx, tu):
    """AddTaskSetToPipe hands exactly [0, m_SetSize) of the task to SplitAndAddTask, once, after zeroing the count"""
    R = 'R-C01-1'
    fs = tu.fns(q=TS + 'AddTaskSetToPipe', dep=False)
    if not fs or tu.cfg(fs[0]) is None:
        ctx.broken('R-C01-1: enki::TaskScheduler::AddTaskSetToPipe not found')
        return
    f = fs[0]
    g = tu.cfg(f)
    inst = '[INTERNAL] TaskScheduler::AddTaskSetToPipe'
    loc = tu.fn_loc(f)
    key = lambda d: '%s|%s|TaskScheduler::AddTaskSetToPipe|%s' % (R, F_ENKI, d)
    pp = param_path(f['params'][0])
    found = []

    def on_call(st, c, target):
        if tu.sd(c).get('q') == TS + 'SplitAndAddTask':
            s, obj, args = call_args(tu, c)
            src = struct_source(tu, args[1]) if len(args) >= 2 else None
            if src is None:
                found.append((c, None))
            else:
                found.append((c, (st.read(src + ('pTask',)), st.read(src + ('partition', 'start')),
                                  st.read(src + ('partition', 'end')))))
                st.events.append(('split', c['id']))
            return True
        return False
    try:
        paths = sym_paths(tu, g, g.entry, set(), Store(tu), on_call)
    except ValueError as e:
        ctx.undecided(R, inst, 'function is not loop-free (%s)' % e, loc)
        return
    bad = []
    if not found:
        handed = [n for b, i, n in g.stmts() if n.get('kind') in CALLS and
                  any(access_path(tu, a_) == pp for a_ in tu.call_parts(n)[2])]
        if handed:
            ctx.undecided(R, inst, 'SplitAndAddTask is not called directly; the task is handed to `%s`' % tu.sd(handed[0]).get('q', '?'), loc)
            return
    for stop, st in paths:
        k = sum(1 for e in st.events if e[0] == 'split')
        if k != 1:
            bad.append(('once', 'a path calls SplitAndAddTask %d times (expected once)' % k))
    want = (Lin.atom(('init', pp)), Lin.const(0), Lin.atom(('init', pp + ('m_SetSize',))))
    for c, vals in found:
        if vals is None:
            ctx.undecided(R, inst, 'sub task argument of SplitAndAddTask is not a local structure', tu.loc(c))
            return
        for name, got, exp in zip(('pTask', 'partition.start', 'partition.end'), vals, want):
            if got != exp:
                if name != 'pTask' and (got - exp).is_const() or got.is_const():
                    bad.append((name, 'the initial sub task has %s = `%r` instead of `%r`: indices outside [0, m_SetSize) '
                                'are run or indices inside are never queued' % (name, got, exp)))
                else:
                    ctx.undecided(R, inst, 'initial %s `%r` is not recognised as `%r`' % (name, got, exp), tu.loc(c))
                    return
    for k, t in sorted(set(bad)):
        ctx.violation(R, inst, t, loc, key=key(k))
    if not bad:
        ctx.ok(R, inst, 'SplitAndAddTask receives (pTaskSet, [0, pTaskSet->m_SetSize)) exactly once on every path', loc)


def check_wait_for_task(ctx, tu):
    R = 'R-C01-2'
    fs = tu.fns(q=TS + 'WaitforTask', dep=False)
    if not fs or tu.cfg(fs[0]) is None:
        ctx.broken('R-C01-2: enki::TaskScheduler::WaitforTask not found')
        return
    f = fs[0]
    g = tu.cfg(f)
    inst = '[INTERNAL] TaskScheduler::WaitforTask'
    loc = tu.fn_loc(f)
    pp = param_path(f['params'][0])
    pat = Lin.atom(('p', pp))
    rc = Lin.atom(('p', pp + (RC,)))

    def classify(cond):
        """('null', truth-when-nonnull) | ('zero', truth-when-zero) | None"""
        c_, pos_ = strip_not(tu, cond)
        if c_ is not None and not pos_:
            r_ = classify(c_)
            return None if r_ is None else (r_[0], not r_[1])
        if c_ is not None:
            cond = c_
        a = bool_atom(tu, cond)
        if a is None:
            n = leaf(tu, cond)
            if n is not None and n.get('kind') == 'CXXMemberCallExpr' and tu.sd(n).get('q') == 'enki::ICompletable::GetIsComplete':
                s, obj, args = call_args(tu, n)
                if obj is not None and access_path(tu, obj) == pp:
                    return ('zero', True)
            p = access_path(tu, cond)
            if p == pp:
                return ('null', True)
            return None
        _, rel, d = a
        if d == pat or d == -pat:
            return ('null', rel == '!=') if rel in ('==', '!=') else None
        if d == rc or d == -rc:
            return ('zero', rel == '==') if rel in ('==', '!=') else None
        return None

    # state: (nullness 'V'|'N'|'?', observed-zero flag)
    def transfer(blk, idx, e, st):
        return [st]

    def refine(blk, si, st):
        if blk.cond is None or len(blk.succ) != 2:
            return [st]
        c = classify(tu.node(blk.cond))
        truth = (si == 0)
        if c is None:
            return [st]
        kind, t = c
        if kind == 'null':
            nonnull = (truth == t)
            if st[0] == 'V' and not nonnull or st[0] == 'N' and nonnull:
                return []
            return [('V' if nonnull else 'N', st[1])]
        zero = (truth == t)
        return [(st[0], st[1] or zero)]

    res = g.explore([('?', False)], transfer, refine)
    live_exits = [(st, via) for st, via in res.exits if not g.blocks[via].noret]
    bad = [st for st, via in live_exits if st[0] in ('V', '?') and not st[1]]
    sawzero = any(st[1] for st, via in live_exits)
    unclassified = []
    for blk in g.blocks.values():
        if blk.cond is not None and len(blk.succ) == 2 and classify(tu.node(blk.cond)) is None:
            cn = tu.node(blk.cond)
            if any(x.get('kind') == 'DeclRefExpr' and x.get('referencedDecl', {}).get('id') == pp[1] for x in tu.walk(cn)):
                unclassified.append(tu.show(cn))
    if unclassified and (not sawzero or bad):
        ctx.undecided(R, inst, 'the completion test `%s` is not in a recognised form' % unclassified[0], loc)
    elif not sawzero:
        ctx.violation(R, inst, 'no exit of WaitforTask is guarded by an observation of m_RunningCount == 0: the join does not wait',
                      loc, key='%s|%s|TaskScheduler::WaitforTask|no-zero-test' % (R, F_ENKI))
    elif bad:
        ctx.violation(R, inst, 'WaitforTask can return for a non-null task without having observed m_RunningCount == 0',
                      loc, key='%s|%s|TaskScheduler::WaitforTask|early-return' % (R, F_ENKI))
    else:
        ctx.ok(R, inst, 'for a non-null task every return follows an observation of m_RunningCount == 0', loc)
    check_wait_sleep(ctx, tu, f, g, classify)


BLOCKING = ('enki::SemaphoreWait',)
OTHER_BLOCKING = ('std::condition_variable::wait', 'std::condition_variable_any::wait', 'pthread_cond_wait', 'sem_wait',
                  'std::this_thread::sleep_for', 'std::this_thread::sleep_until', 'usleep', 'nanosleep')


def check_wait_sleep(ctx, tu, f, g, classify):
    """A join that goes to sleep must not lose the wake-up: if the thread that completes the last partition posts the
    semaphore only for waiters that have registered (post count read from a counter), the waiter has to register first and
    then look at the running count again before it blocks.  Otherwise the last partition can finish between the waiter's
    test and its registration: nobody posts, the waiter sleeps for good and parallel_for never returns."""
    R = 'R-C01-2'
    inst = '[INTERNAL] TaskScheduler::WaitforTask'
    loc = tu.fn_loc(f)
    key = lambda d: '%s|%s|TaskScheduler::WaitforTask|%s' % (R, F_ENKI, d)
    waits = [(b, i, n) for b, i, n in g.stmts() if n.get('kind') in CALLS and tu.sd(n).get('q') in BLOCKING]
    other = [n for b, i, n in g.stmts() if n.get('kind') in CALLS and tu.sd(n).get('q') in OTHER_BLOCKING]
    if other:
        ctx.undecided(R, inst, 'the join blocks in `%s`, a form of waiting that is not analysed' % tu.sd(other[0]).get('q'), loc)
        return
    if not waits:
        return                     # pure spinning / helping: nothing can be lost
    # all posts of the unit, by semaphore
    posts = {}
    for pf_ in tu.functions.values():
        pg = tu.cfg(pf_)
        if pf_['dep'] or pg is None:
            continue
        for b, i, n in pg.stmts():
            if n.get('kind') in CALLS and tu.sd(n).get('q') == 'enki::SemaphoreSignal':
                a_ = tu.kids(n)[1:]
                if len(a_) == 2:
                    posts.setdefault(access_path(tu, a_[0]), []).append((pf_, pg, b, i, n, a_[1]))
    for wb, wi, w in waits:
        sem = access_path(tu, tu.kids(w)[1]) if len(tu.kids(w)) > 1 else None
        ps = posts.get(sem, [])
        if sem is None or not ps:
            ctx.undecided(R, inst, 'the join sleeps on `%s` but no post of that semaphore is found in the scheduler'
                          % (tu.show(tu.kids(w)[1]) if len(tu.kids(w)) > 1 else '?'), tu.loc(w))
            continue
        counters = set()
        for pf_, pg, b, i, n, cnt in ps:
            cv = const_value(tu, cnt)
            if cv is not None and cv >= 1:
                continue                          # always posts: the semaphore remembers it
            cp = access_path(tu, cnt)
            if cp is None or cp[0] != 'this' or len(cp) != 2:
                counters.add(None)
            else:
                counters.add(cp)
        if not counters:
            ctx.ok(R, inst, 'sleeps on %s; every post is unconditional' % path_str(sem), tu.loc(w))
            continue
        if None in counters or len(counters) != 1:
            ctx.undecided(R, inst, 'the number of posts of %s is computed in a form that is not recognised' % path_str(sem), tu.loc(w))
            continue
        ctr = next(iter(counters))
        # the poster must decrement the running count before it reads the counter
        okpost = True
        for pf_, pg, b, i, n, cnt in ps:
            decs = [(b2, i2) for b2, i2, n2 in pg.stmts() if n2.get('kind') in CALLS and
                    (running_count_event(tu, n2, follow=False) or (None,))[0] == 'dec']
            if not any(pg.dominates((b2.id, i2), (b.id, i)) for b2, i2 in decs):
                okpost = False
        if not okpost:
            ctx.undecided(R, inst, 'a post of %s is not preceded by the decrement of the running count in the same function'
                          % path_str(sem), tu.loc(w))
            continue
        wpos = (wb.id, wi)
        regs = []
        for b, i, n in g.stmts():
            if n.get('kind') == 'CallExpr' and tu.sd(n).get('q') == 'enki::AtomicAdd':
                a_ = tu.kids(n)[1:]
                a0 = leaf(tu, a_[0]) if a_ else None
                if a0 is not None and a0.get('kind') == 'UnaryOperator' and a0.get('opcode') == '&' and \
                        access_path(tu, tu.kids(a0)[0]) == ctr and const_value(tu, a_[1]) == 1 and g.dominates((b.id, i), wpos):
                    regs.append((b.id, i))
            elif n.get('kind') == 'UnaryOperator' and n.get('opcode') == '++' and access_path(tu, tu.kids(n)[0]) == ctr and \
                    g.dominates((b.id, i), wpos):
                regs.append((b.id, i))
        cname = path_str(ctr)
        if not regs:
            ctx.violation(R, inst, 'the join blocks in SemaphoreWait(%s) without having registered in `%s`, but the thread that '
                          'completes the last partition posts only `%s` times: the post can be missing and parallel_for never returns'
                          % (path_str(sem), cname, cname), tu.loc(w), key=key('sleep-without-recheck'))
            continue
        dom = g.dominators()
        recheck = False
        for blk in g.blocks.values():
            if blk.cond is None or len(blk.succ) != 2:
                continue
            c = classify(tu.node(blk.cond))
            if c is None or c[0] != 'zero':
                continue
            cpos = (blk.id, len(blk.el))
            if any(g.dominates(r, cpos) for r in regs) and blk.id in dom.get(wb.id, ()) :
                # the wait must lie on the branch taken when the count is not yet zero
                zero_succ = blk.succ[0] if c[1] else blk.succ[1]
                if zero_succ is None or zero_succ not in dom.get(wb.id, ()):
                    recheck = True
        if recheck:
            ctx.ok(R, inst, 'registers in %s, re-reads m_RunningCount and only then sleeps on %s' % (cname, path_str(sem)), tu.loc(w))
        else:
            ctx.violation(R, inst, 'lost wake-up: the join tests m_RunningCount, then registers in `%s`, then blocks in '
                          'SemaphoreWait(%s) without looking at the count again, while the thread that completes the last partition '
                          'posts only `%s` times. If the last partition finishes between the test and the registration, the completer '
                          'reads 0 waiters and posts nothing; the waiter then sleeps for good and parallel_for never returns'
                          % (cname, path_str(sem), cname), tu.loc(w), key=key('sleep-without-recheck'))


# =====================================================================================================
#  R-C01-6 enkiTS: SplitTask algebra, SplitAndAddTask / TryRunTask token discipline and exact cover
# =====================================================================================================
def find_split_task(tu):
    for f in tu.functions.values():
        if not f['dep'] and f['q'].endswith('::SplitTask') and tu.fn_file(f) == F_ENKI:
            return f
    return None


def plain(*lins):
    """all values are built from entry values, constants and min/max of such (nothing opaque, no unknown call)"""
    def ok(v):
        for at in v.t:
            if at[0] == 'init':
                continue
            if at[0] in ('min', 'max') and all(ok(m) for m in at[1]):
                continue
            return False
        return True
    return all(v is not None and ok(v) for v in lins)


def implies_le(conds, x, y, depth=0):
    """do the path conditions imply x <= y ?  Syntactic difference, known comparisons, and min algebra:
    min(a, b) <= y if a <= y or b <= y;  x <= min(a, b) if x <= a and x <= b"""
    d = x - y
    if d.is_const():
        return d.c <= 0
    for a in conds:
        _, rel, c = a
        if rel in ('<', '<=') and c == d:
            return True
        if rel == '==' and (c == d or c == -d):
            return True
    if depth > 4:
        return False
    # cancel what both sides have in common:  s + a <= s + b  iff  a <= b
    pos = Lin({a_: c_ for a_, c_ in d.t.items() if c_ > 0}, d.c if d.c > 0 else 0)
    neg = Lin({a_: -c_ for a_, c_ in d.t.items() if c_ < 0}, -d.c if d.c < 0 else 0)
    if (pos != x or neg != y) and (pos.t or neg.t):
        if implies_le(conds, pos, neg, depth + 1):
            return True
    xa = x.single_atom()
    if xa is not None and xa[0] == 'min' and any(implies_le(conds, m, y, depth + 1) for m in xa[1]):
        return True
    ya = y.single_atom()
    if ya is not None and ya[0] == 'min' and all(implies_le(conds, x, m, depth + 1) for m in ya[1]):
        return True
    if ya is not None and ya[0] == 'max' and any(implies_le(conds, x, m, depth + 1) for m in ya[1]):
        return True
    # x = k + min(...) against y = k + z : compare after removing a common summand
    for a in conds:
        _, rel, c = a
        if rel in ('<', '<='):
            # known: u <= v with c = u - v ; x <= u and v <= y  =>  x <= y   (one step of transitivity through a min atom)
            for at in c.t:
                if at[0] == 'min' and c.t[at] == -1:
                    u = c + Lin.atom(at)           # u - min <= 0  ->  u <= min(..)
                    if u == x and implies_le([], Lin.atom(at), y, depth + 1):
                        return True
    return False


def check_split_task(ctx, tu):
    """(c) SplitTask(sub, r): returns [s, s+take), leaves sub = [s+take, e), take = min(r, e-s), same task"""
    R = 'R-C01-6'
    f = find_split_task(tu)
    inst = '[INTERNAL] SplitTask'
    if f is None or tu.cfg(f) is None:
        ctx.broken('R-C01-6: SplitTask not found in %s' % F_ENKI)
        return None
    g = tu.cfg(f)
    loc = tu.fn_loc(f)
    key = lambda d: '%s|%s|SplitTask|%s' % (R, F_ENKI, d)
    if len(f['params']) != 2:
        ctx.undecided(R, inst, 'unexpected parameter list', loc)
        return None
    sub, rp = param_path(f['params'][0]), param_path(f['params'][1])
    rets = []

    def run():
        out = []
        for stop, st in sym_paths(tu, g, g.entry, set(), Store(tu)):
            out.append(st)
        return out
    try:
        stores = run()
    except ValueError as e:
        ctx.undecided(R, inst, 'function is not loop-free (%s)' % e, loc)
        return None
    # the returned object: the ReturnStmt's operand
    ret_path = None
    for b, i, n in g.stmts():
        if n.get('kind') == 'ReturnStmt' and tu.kids(n):
            ret_path = struct_source(tu, tu.kids(n)[0])
    if ret_path is None:
        ctx.undecided(R, inst, 'return value is not a local structure', loc)
        return None
    s0 = Lin.atom(('init', sub + ('partition', 'start')))
    e0 = Lin.atom(('init', sub + ('partition', 'end')))
    p0 = Lin.atom(('init', sub + ('pTask',)))
    r0 = Lin.atom(('init', rp))
    left = e0 - s0
    bad = []
    und_st = []
    for st in stores:
        rs, re_, rpk = st.read(ret_path + ('partition', 'start')), st.read(ret_path + ('partition', 'end')), st.read(ret_path + ('pTask',))
        ss, se, sp = st.read(sub + ('partition', 'start')), st.read(sub + ('partition', 'end')), st.read(sub + ('pTask',))
        if not plain(rs, re_, rpk, ss, se, sp):
            und_st.append('a value computed by SplitTask is not in a recognised form (`%r`, `%r`, `%r`, `%r`)' % (rs, re_, ss, se))
            continue
        if rpk != p0 or sp != p0:
            bad.append(('task', 'the task pointer of the halves differs from the input sub task'))
        if rs != s0:
            bad.append(('first-start', 'the split-off part starts at `%r` instead of the old start `%r`' % (rs, s0)))
        if se != e0:
            bad.append(('rest-end', 'the remaining part ends at `%r` instead of the old end `%r`' % (se, e0)))
        if ss != re_:
            bad.append(('adjacent', 'the remaining part starts at `%r` but the split-off part ends at `%r`: the halves overlap or '
                        'leave a gap' % (ss, re_)))
        take = re_ - s0
        if take == left:
            if not implies_le(st.conds, left, r0):
                # taking everything is always inside the partition; fine (may just not split)
                pass
        elif take == r0:
            if not implies_le(st.conds, r0, left):
                bad.append(('clamp', 'the split-off part has length `%r` on a path where it is not known to be <= the remaining '
                            'range `%r`: it can extend beyond the partition' % (take, left)))
        else:
            if not implies_le(st.conds, take, left):
                und_st.append('cannot show that the split length `%r` stays within the remaining range `%r`' % (take, left))
    for u in sorted(set(und_st)):
        ctx.undecided(R, inst, u, loc)
    for k, t in ([] if und_st else sorted(set(bad))):
        ctx.violation(R, inst, t, loc, key=key(k))
    if not bad and not und_st:
        ctx.ok(R, inst, 'returns [s, s+min(r, e-s)), leaves [s+min(r, e-s), e), same task, on both paths', loc)
    return f if not bad and not und_st else None


def make_split_summary(tu, split_fn):
    """on_call hook applying SplitTask's verified post-condition"""
    def on_call(st, c, target):
        q = tu.sd(c).get('q', '')
        cf = tu.callee_fn(c)
        if cf is not None and split_fn is not None and cf['id'] == split_fn['id'] and target is not None:
            args = tu.kids(c)[1:]
            ap = access_path(tu, args[0])
            if ap is None:
                return False
            s = st.read(ap + ('partition', 'start'))
            e = st.read(ap + ('partition', 'end'))
            r = st.ev(args[1])
            take = Lin.atom(('min', frozenset((r, e - s))))
            pt = st.read(ap + ('pTask',))
            st.write(target + ('partition', 'start'), s)
            st.write(target + ('partition', 'end'), s + take)
            st.write(target + ('pTask',), pt)
            st.write(ap + ('partition', 'start'), s + take)
            st.events.append(('split', c['id'], target, ap))
            return True
        ev = running_count_event(tu, c)
        if ev is not None:
            st.events.append((ev[0], c['id'], st.read(ev[1]) if ev[1] is not None else None))
            return True
        if q.endswith('::WriterTryWriteFront'):
            s_, obj, args = call_args(tu, c)
            src = struct_source(tu, args[0]) if args else None
            vals = None
            if src is not None:
                vals = (st.read(src + ('pTask',)), st.read(src + ('partition', 'start')), st.read(src + ('partition', 'end')))
            st.events.append(('pub', c['id'], vals))
            return True
        if q == 'enki::ITaskSet::ExecuteRange':
            s_, obj, args = call_args(tu, c)
            src = struct_source(tu, args[0]) if args else None
            vals = None
            if src is not None and obj is not None:
                op = access_path(tu, obj)
                vals = (st.read(op) if op else None, st.read(src + ('start',)), st.read(src + ('end',)))
            st.events.append(('exec', c['id'], vals))
            return True
        if q == TS + 'SplitAndAddTask' or q in RANGE_CONSUMERS:
            s_, obj, args = call_args(tu, c)
            ai_ = RANGE_CONSUMERS.get(q, 1)
            src = struct_source(tu, args[ai_]) if len(args) > ai_ else None
            vals = None
            if src is not None:
                vals = (st.read(src + ('pTask',)), st.read(src + ('partition', 'start')), st.read(src + ('partition', 'end')))
            st.events.append(('requeue', c['id'], vals))
            return True
        if q.endswith('::WriterTryReadFront') or q.endswith('::ReaderTryReadBack'):
            st.events.append(('acq', c['id'], None))
            return True
        return False
    return on_call


def pub_outcome(tu, st_events, pub_id):
    """True/False: did the publication with call id pub_id succeed on this path (from the branch taken on its result)"""
    for e in st_events:
        if e[0] == 'branch':
            cond = tu.node(e[1])
            n = leaf(tu, cond)
            neg = False
            while n is not None and n.get('kind') == 'UnaryOperator' and n.get('opcode') == '!':
                neg = not neg
                n = leaf(tu, tu.kids(n)[0])
            if n is not None and n.get('id') == pub_id:
                return e[2] != neg
    return None


def check_tokens(ctx, tu, inst, loc, key, events, outcome_of, owned0, require_empty_end=True, requeue_takes_count=False):
    """running-count token discipline along one path.  owned0: tokens held at the start.  Returns list of problems."""
    R = 'R-C01-6'
    held = owned0          # tokens this thread holds (each stands for one +1 on m_RunningCount)
    executed = []          # tasks executed and not yet decremented
    bad = []
    gave = False
    for e in events:
        kind = e[0]
        if kind == 'requeue' and requeue_takes_count and e[2] and e[2][0] in held:
            held.remove(e[2][0])     # the callee publishes a partition under the count its caller holds
            gave = True
        if kind == 'inc':
            held.append(e[2])
        elif kind == 'pub':
            ok = outcome_of(e[1])
            task = e[2][0] if e[2] else None
            if ok is None:
                bad.append(('pub-result', 'the result of WriterTryWriteFront is not tested: a failed publication loses its partition'))
                ok = True
            if task not in held:
                bad.append(('publish-before-increment', 'a partition is published to the pipe before m_RunningCount of its task was '
                            'incremented: a worker can run and decrement it first, and the count reaches 0 (join returns) while work remains'))
                return bad      # what follows on this path is a consequence of the missing increment
            elif ok:
                held.remove(task)
        elif kind == 'exec':
            task = e[2][0] if e[2] else None
            if task not in held and gave:
                bad.append(('exec-uncovered', 'the running count this thread held for the partition it took from the pipe is handed to '
                            'SplitAndAddTask (which publishes a partition without an increment of its own) before the thread runs the '
                            'range it kept for itself: nothing counts that range while ExecuteRange runs, m_RunningCount can reach 0 and '
                            'the join can return (and the task object die) while these indices are still running'))
                return bad
            if task not in held:
                bad.append(('exec-without-count', 'ExecuteRange runs a partition whose running count is not held by this thread'))
            else:
                held.remove(task)
                executed.append(task)
        elif kind == 'dec':
            if e[2] in executed:
                executed.remove(e[2])
            elif e[2] in held:
                bad.append(('decrement-before-run', 'm_RunningCount is decremented before the partition it stands for has run'))
                held.remove(e[2])
            else:
                bad.append(('extra-decrement', 'm_RunningCount is decremented without a matching executed partition of the same task: '
                            'the count reaches 0 while partitions are still queued (join returns early)'))
        elif kind == 'rmw':
            bad.append(('rmw', 'm_RunningCount is changed by an amount other than +1 / -1'))
    if executed:
        bad.append(('missing-decrement', 'a partition is executed but m_RunningCount is not decremented afterwards through the same '
                    'task: the count never reaches 0 and the join never returns'))
    if held and require_empty_end:
        bad.append(('leaked-increment', 'm_RunningCount was incremented for a partition that is neither published nor executed: '
                    'the count never reaches 0 and the join never returns'))
    return bad


def loop_invariant_store(tu, g, H, L, split_fn):
    """Values of locals that are set once on the single path from the function entry to the loop head and are loop
    invariant (neither they nor anything they were computed from is written inside the loop).  Their 'entry' atoms then
    also denote the value at the start of every iteration."""
    st = Store(tu)
    try:
        pre = sym_paths(tu, g, g.entry, {H.id}, Store(tu))
    except ValueError:
        return st
    pre = [x for x in pre if x[0] == H.id]
    if len(pre) != 1:
        return st
    written = set()
    for w in find_writes(tu, g, L):
        if w[0] is not None:
            written.add(w[0])
    for bid in L:
        for e in g.blocks[bid].el:
            n = tu.node(e[1]) if e[0] == 'S' else None
            if n is None:
                continue
            if n.get('kind') == 'DeclStmt':
                for vd in tu.kids(n):
                    if vd.get('kind') == 'VarDecl':
                        written.add(('v', vd['id'], vd.get('name')))
            if n.get('kind') in CALLS:
                cf = tu.callee_fn(n)
                s_, obj, args = tu.call_parts(n)
                if cf is not None and split_fn is not None and cf['id'] == split_fn['id'] and args:
                    ap = access_path(tu, args[0])
                    if ap:
                        written.add(ap + ('partition', 'start'))
                    continue
                m = re.match(r'.*?\((.*)\)', s_.get('fty', '') or '')
                ptypes = [x.strip() for x in m.group(1).split(', ')] if m else []
                for ai, a_ in enumerate(args):
                    pt = ptypes[ai] if ai < len(ptypes) else ''
                    a0 = leaf(tu, a_)
                    if a0 is not None and a0.get('kind') == 'UnaryOperator' and a0.get('opcode') == '&':
                        ap = access_path(tu, tu.kids(a0)[0])
                        # &x->m_RunningCount handed to an atomic: only that field
                        if ap:
                            written.add(ap)
                    elif pt.endswith('&') and not pt.startswith('const '):
                        ap = access_path(tu, a_)
                        if ap:
                            written.add(ap)

    def touched(q):
        # q names a scalar (integer or pointer): it changes only if q itself or an object containing it is written
        return any(q[:len(w)] == w for w in written)

    def invariant(v):
        for at in v.t:
            if at[0] == 'init':
                if touched(at[1]):
                    return False
            elif at[0] in ('min', 'max'):
                if not all(invariant(m) for m in at[1]):
                    return False
            else:
                return False
        return True
    for p, v in pre[0][1].vals.items():
        if len(p) == 3 and not touched(p) and invariant(v):
            st.vals[p] = v
    return st


RANGE_CONSUMERS = {}     # qualified name -> index of the SubTaskSet parameter; functions that are handed a whole remaining range


def subtask_param(f):
    """(index of the by-value SubTaskSet parameter, index of the following integer range parameter) or None"""
    ps = f.get('params', [])
    for k, p_ in enumerate(ps):
        if clean_type(p_['ct']) in ('enki::SubTaskSet', 'SubTaskSet') and not (p_['ct'] or '').rstrip().endswith('&'):
            for k2 in range(k + 1, len(ps)):
                if irange(ps[k2]['ct']) is not None:
                    return k, k2
    return None


def find_range_consumers(tu):
    """SplitAndAddTask and every other scheduler member of the same kind: by-value sub task + split range, one loop"""
    RANGE_CONSUMERS.clear()
    out = []
    for f in tu.functions.values():
        if f['dep'] or f.get('rec') != 'enki::TaskScheduler' or tu.cfg(f) is None:
            continue
        sp = subtask_param(f)
        if sp is None or len({t for s_, t in tu.cfg(f).back_edges()}) != 1:
            continue
        RANGE_CONSUMERS[f['q']] = sp[0]
        out.append(f)
    return out


def check_split_and_add(ctx, tu, split_fn):
    fs = tu.fns(q=TS + 'SplitAndAddTask', dep=False)
    if not fs or tu.cfg(fs[0]) is None:
        ctx.broken('R-C01-6: enki::TaskScheduler::SplitAndAddTask not found')
        return
    cons = find_range_consumers(tu)
    takes = False
    for f in sorted(cons, key=lambda x: x['q'] != TS + 'SplitAndAddTask'):
        r = check_split_fn(ctx, tu, f, split_fn)
        if f['q'] == TS + 'SplitAndAddTask':
            takes = r
    if TS + 'SplitAndAddTask' not in RANGE_CONSUMERS:
        ctx.undecided('R-C01-6', '[INTERNAL] TaskScheduler::SplitAndAddTask', 'not of the form (thread, sub task by value, split range) '
                      'with one splitting loop', tu.fn_loc(fs[0]))
    return takes


def check_split_fn(ctx, tu, f, split_fn):
    R = 'R-C01-6'
    fname = f['q'].replace('enki::', '')
    inst = '[INTERNAL] ' + fname
    g = tu.cfg(f)
    loc = tu.fn_loc(f)
    key = lambda d: '%s|%s|%s|%s' % (R, F_ENKI, fname, d)
    heads = sorted({t for s, t in g.back_edges()})
    if len(heads) != 1:
        ctx.undecided(R, inst, '%d loops (expected the one splitting loop)' % len(heads), loc)
        return
    H = g.blocks[heads[0]]
    sk, rk = subtask_param(f)
    sub = param_path(f['params'][sk])
    rsp = param_path(f['params'][rk])
    # loop condition: start != end  (or start < end)
    a = bool_atom(tu, tu.node(H.cond)) if H.cond else None
    s_at, e_at = Lin.atom(('p', sub + ('partition', 'start'))), Lin.atom(('p', sub + ('partition', 'end')))
    good_cond = a is not None and ((a[1] == '!=' and a[2] in (s_at - e_at, e_at - s_at)) or (a[1] == '<' and a[2] == s_at - e_at))
    if not good_cond:
        if a is not None and a[1] in ('<', '<=', '==', '!=') and set(a[2].t) <= {('p', sub + ('partition', 'start')), ('p', sub + ('partition', 'end'))}:
            ctx.violation(R, inst, 'the splitting loop runs while `%s`, not while the remaining range [start, end) is non-empty'
                          % tu.show(tu.node(H.cond)), loc, key=key('loop-condition'))
        else:
            ctx.undecided(R, inst, 'loop condition `%s` is not recognised' % (tu.show(tu.node(H.cond)) if H.cond else None), loc)
        return
    L = natural_loop(g, H.id)
    # anything outside the loop must not touch the count or the pipes
    on_call = make_split_summary(tu, split_fn)
    st_init = loop_invariant_store(tu, g, H, L, split_fn)
    try:
        paths = sym_paths(tu, g, H.succ[0], {H.id} | (set(g.blocks) - L), st_init, on_call)
    except ValueError as e:
        ctx.undecided(R, inst, 'loop body is not loop-free (%s)' % e, loc)
        return
    # Operations outside the loop.  Before the loop (in a block from which the loop head is reachable) they change what an
    # iteration starts with: not a recognised form.  After the loop they cannot account for a publication made inside it
    # (the partition is already visible to other threads): the per-iteration analysis below stays valid and decides.
    pr = g.preds()
    reach_head = {H.id}
    work = [H.id]
    while work:
        for p_ in pr[work.pop()]:
            if p_ not in reach_head:
                reach_head.add(p_)
                work.append(p_)
    # blocks reachable from the loop head (the loop and what follows it)
    after = set()
    work = [H.id]
    while work:
        x = work.pop()
        if x in after:
            continue
        after.add(x)
        work += [y for y in g.blocks[x].succ if y is not None]
    late_ops = []
    for bid in set(g.blocks) - L:
        for e in g.blocks[bid].el:
            n = tu.node(e[1]) if e[0] == 'S' else None
            if n is not None and n.get('kind') in CALLS and (running_count_event(tu, n) or tu.sd(n).get('q') in RANGE_CONSUMERS or
                                                             tu.sd(n).get('q', '').endswith(('WriterTryWriteFront', 'ExecuteRange'))):
                if bid in reach_head:
                    ctx.undecided(R, inst, 'running-count / pipe operation before the splitting loop at %s' % tu.loc(n), loc)
                    return
                if bid in after:
                    late_ops.append(n)
    s0 = Lin.atom(('init', sub + ('partition', 'start')))
    e0 = Lin.atom(('init', sub + ('partition', 'end')))
    p0 = Lin.atom(('init', sub + ('pTask',)))
    r0 = Lin.atom(('init', rsp))
    bad = []
    und = []
    borrows = [False]
    # ---- paths that return without entering the loop (e.g. a special case handed to another function): whatever they
    #      consume must be exactly the range the function was given
    try:
        early = sym_paths(tu, g, g.entry, {H.id}, Store(tu), on_call)
    except ValueError as e:
        early = None
        und.append('the code in front of the splitting loop cannot be followed (%s)' % e)
    for stop, st in (early or []):
        ev = [e for e in st.events if e[0] != 'branch']
        if stop == H.id:
            if any(e[0] in ('pub', 'exec', 'requeue', 'inc', 'dec', 'rmw') for e in ev):
                und.append('partitions are consumed before the splitting loop is entered')
            continue
        tb = check_tokens(ctx, tu, inst, loc, key, ev, lambda pid: pub_outcome(tu, st.events, pid), [])
        bad += tb
        pieces = []
        for e in ev:
            if e[0] in ('exec', 'requeue') or (e[0] == 'pub' and pub_outcome(tu, st.events, e[1])):
                pieces.append(e[2])
        if any(p_ is None or None in p_ for p_ in pieces):
            und.append('a partition consumed in front of the loop is not a local structure')
            continue
        cur, rest, okc = s0, list(pieces), True
        while rest:
            nx = [p_ for p_ in rest if p_[1] == cur]
            if len(nx) != 1:
                okc = False
                break
            if nx[0][0] != p0:
                bad.append(('task', 'a partition is handed on for a different task than the sub task being split'))
            cur = nx[0][2]
            rest.remove(nx[0])
        if not okc or cur != e0:
            if plain(*[x for p_ in pieces for x in p_[1:]]):
                bad.append(('early-exit-cover', 'a path returns before the splitting loop having consumed %s of the range [%r, %r) it '
                            'was given: the rest is neither queued nor run'
                            % (', '.join('[%r, %r)' % (p_[1], p_[2]) for p_ in pieces) or 'nothing', s0, e0)))
            else:
                und.append('range consumed by an early return is not in a recognised form')
    for stop, st in paths:
        if stop != H.id:
            bad.append(('loop-exit', 'the splitting loop can be left from inside its body while [start, end) is not yet empty'))
            continue
        ev = [e for e in st.events if e[0] != 'branch']
        if not any(e[0] == 'split' for e in ev) and split_fn is not None:
            und.append('an iteration does not call SplitTask')
            continue
        tb = check_tokens(ctx, tu, inst, loc, key, ev, lambda pid: pub_outcome(tu, st.events, pid), [])
        if any(k_ == 'publish-before-increment' for k_, t_ in tb):
            borrows[0] = True
            pids = {p_['id'] for p_ in f['params']}
            for e_ in st.events:
                if e_[0] == 'branch':
                    cn_ = tu.node(e_[1])
                    if any(x.get('kind') == 'DeclRefExpr' and x.get('referencedDecl', {}).get('id') in pids and
                           clean_type(tu.sd(x).get('ct')) == 'bool' for x in tu.walk(cn_)):
                        tb = [(k_, t_ + ' (here the increment is skipped when `%s` is %s: the partition is published under a count '
                               'that belongs to the caller, which then no longer covers what the caller itself is still running)'
                               % (tu.show(cn_), 'true' if e_[2] else 'false') if k_ == 'publish-before-increment' else t_)
                              for k_, t_ in tb]
                        break
        bad += tb
        # exact cover: what was consumed (published successfully or executed) + what remains == [s0, e0)
        consumed = []
        for e in ev:
            if e[0] == 'pub' and pub_outcome(tu, st.events, e[1]) and e[2]:
                consumed.append(e[2])
            if e[0] == 'exec' and e[2]:
                consumed.append(e[2])
            if e[0] in ('pub', 'exec') and not e[2]:
                und.append('partition handed to the pipe / ExecuteRange is not a local structure')
        if len(consumed) != 1:
            if not tb:
                bad.append(('consume', 'an iteration consumes %d partitions (expected one: published or executed inline)' % len(consumed)))
            continue
        task, xs, xe = consumed[0]
        ss, se = st.read(sub + ('partition', 'start')), st.read(sub + ('partition', 'end'))
        if not plain(task, xs, xe, ss, se):
            und.append('the partition consumed in an iteration is not in a recognised form ([`%r`, `%r`), remaining from `%r`)' % (xs, xe, ss))
            continue
        if task != p0:
            bad.append(('task', 'the partition consumed belongs to a different task than the sub task being split'))
        if xs != s0:
            bad.append(('cover-start', 'the consumed partition starts at `%r`, not at the start `%r` of the remaining range' % (xs, s0)))
        if ss != xe:
            if implies_le(st.conds, xe, ss):
                how = 'the indices in between are neither queued nor run (they are lost)'
            elif implies_le(st.conds, ss, xe):
                how = 'the indices in between are run again later (they run twice)'
            else:
                how = 'indices are run twice or never'
            bad.append(('cover-adjacent', 'after the iteration the remaining range starts at `%r` but the partition that was consumed '
                        '(published or run inline) ends at `%r`: %s' % (ss, xe, how)))
        if se != e0:
            bad.append(('cover-end', 'the end of the remaining range changes from `%r` to `%r`' % (e0, se)))
        ln = xe - xs
        if not implies_le(st.conds, ln, e0 - s0):
            # which guard is there?
            guard = [c for c in st.conds if c[1] in ('<', '<=') and any(k[0] == 'init' and k[1][-1] == 'm_RangeToRun' for k in c[2].t)]
            lnat = ln.single_atom()
            if guard and any(set(c[2].t) - {lnat} == {('init', rsp)} for c in guard):
                bad.append(('recut-overrun', 'when the pipe is full the partition is re-cut to length `%r` under the guard `%r < %r`; '
                            'that bounds it by the *requested* split range, not by the partition, whose length is min(%r, end-start): '
                            'for a last partition shorter than m_RangeToRun, ExecuteRange runs indices beyond the end of the task set and '
                            'the remaining range becomes start > end (the loop then never terminates properly)'
                            % (ln, ln, r0, r0)))
            else:
                und.append('cannot show that the consumed length `%r` stays within the remaining range `%r` (path conditions: %s)'
                           % (ln, e0 - s0, [repr(c[2]) + c[1] + '0' for c in st.conds]))
    if late_ops:
        late = ', '.join('`%s` at %s' % (tu.show(n), tu.loc(n)) for n in late_ops[:3])
        if any(k == 'publish-before-increment' for k, t in bad):
            bad = [(k, t + ' (the count is only adjusted after the loop: %s - too late, the partitions are already visible to other '
                    'threads)' % late if k == 'publish-before-increment' else t) for k, t in bad]
        elif not bad:
            und.append('running-count / pipe operation after the splitting loop (%s) although every iteration is balanced' % late)
    for u in sorted(set(und)):
        ctx.undecided(R, inst, u, loc)
    for k, t in ([] if und else sorted(set(bad))):
        ctx.violation(R, inst, t, loc, key=key(k))
    if not bad and not und:
        ctx.ok(R, inst, '%d iteration paths: increment precedes publication, inline execution is followed by one decrement, '
               'consumed + remaining = exact cover' % len(paths), loc)
    return borrows[0]


def bool_var_cond(tu, cond):
    """(decl id, positive?) if cond is `v` or `!v` for a bool variable"""
    n = leaf(tu, cond)
    pos = True
    while n is not None and n.get('kind') == 'UnaryOperator' and n.get('opcode') == '!':
        pos = not pos
        n = leaf(tu, tu.kids(n)[0])
    if n is not None and n.get('kind') == 'DeclRefExpr' and clean_type(tu.sd(n).get('ct')) == 'bool':
        return n['referencedDecl']['id'], pos
    return None


PIPE_READS = ('::WriterTryReadFront', '::ReaderTryReadBack')


def deciding(tu, cond):
    """The operand that decides a block's branch: for the block that ends an `a && b` / `a || b` condition clang reports the
    whole expression, whose value there equals that of its right operand (the left one already had its own block)."""
    n = leaf(tu, cond)
    while n is not None and n.get('kind') == 'BinaryOperator' and n.get('opcode') in ('&&', '||'):
        n = leaf(tu, tu.kids(n)[1])
    return n


def strip_not(tu, cond):
    """(leaf expression, positive?) of a condition after removing logical negations"""
    n = deciding(tu, cond)
    pos = True
    while n is not None and n.get('kind') == 'UnaryOperator' and n.get('opcode') == '!':
        pos = not pos
        n = deciding(tu, tu.kids(n)[0])
    return n, pos


def is_subtask_ptr(ct):
    t = clean_type(ct) or ''
    return t.replace(' ', '') in ('enki::SubTaskSet*', 'SubTaskSet*')


_RUN_HELPERS = {}


def run_counted_helper(tu, cf, split_fn):
    """index of the SubTaskSet parameter if the loop-free void helper cf, on every path, executes exactly that partition and
    then decrements the running count of the same task once (nothing else with counts, pipes or partitions); else None"""
    key_ = (id(tu), cf['id'])
    if key_ in _RUN_HELPERS:
        return _RUN_HELPERS[key_]
    _RUN_HELPERS[key_] = None
    g = tu.cfg(cf)
    if g is None or cf.get('virt') or cf['dep'] or g.back_edges() or not cf.get('fty', '').startswith('void'):
        return None
    ks = [k for k, p_ in enumerate(cf['params']) if 'SubTaskSet' in (p_['ct'] or '')]
    if len(ks) != 1:
        return None
    sp = param_path(cf['params'][ks[0]])
    try:
        paths = sym_paths(tu, g, g.entry, set(), Store(tu), make_split_summary(tu, split_fn))
    except ValueError:
        return None
    p0 = Lin.atom(('init', sp + ('pTask',)))
    s0 = Lin.atom(('init', sp + ('partition', 'start')))
    e0 = Lin.atom(('init', sp + ('partition', 'end')))
    if not paths:
        return None
    for stop, st in paths:
        ev = [e for e in st.events if e[0] not in ('branch',)]
        if [e[0] for e in ev] != ['exec', 'dec']:
            return None
        if ev[0][2] is None or ev[0][2] != (p0, s0, e0) or ev[1][2] != p0:
            return None
    _RUN_HELPERS[key_] = ks[0]
    return ks[0]


class AcqFlow:
    """Flow of 'a partition was obtained from a pipe' through a function: acquisition sites are pipe reads or verified
    acquire-helpers; their Boolean result is either stored in one flag variable or tested directly by a branch."""

    def __init__(self, tu, f, helpers):
        self.tu, self.f, self.g = tu, f, tu.cfg(f)
        self.und = []
        self.sites = {}       # call id -> (flag var id | None, out-argument expression)
        self.flag = None
        self.unknown_taker = []
        g = self.g
        for b, i, n in g.stmts():
            if n.get('kind') not in CALLS:
                continue
            s_, obj, args = call_args(tu, n)
            q = s_.get('q', '')
            out = None
            if q.endswith(PIPE_READS):
                out = args[0] if args else None
            else:
                cf = tu.callee_fn(n)
                k = helpers(cf) if cf is not None else None
                if k is not None and k < len(args):
                    out = args[k]
                elif any(is_subtask_ptr(tu.sd(a_).get('ct')) for a_ in args) and q not in (TS + 'SplitAndAddTask',) \
                        and not q.endswith('::WriterTryWriteFront'):
                    self.unknown_taker.append(n)
            if out is None:
                continue
            p = tu.par(n)
            while p is not None and p.get('kind') in ('ImplicitCastExpr', 'ParenExpr', 'ExprWithCleanups'):
                p = tu.par(p)
            v = None
            if p is not None and p.get('kind') == 'VarDecl':
                v = p['id']
            elif p is not None and p.get('kind') == 'BinaryOperator' and p.get('opcode') == '=':
                ap = access_path(tu, tu.kids(p)[0])
                v = ap[1] if ap and len(ap) == 3 else None
            if v is None:
                # must be tested directly by the branch that ends its block
                blk = g.blocks[g.where(n['id'])[0]]
                c, pos = strip_not(tu, tu.node(blk.cond)) if blk.cond else (None, True)
                if c is None or c.get('id') != n['id'] or len(blk.succ) != 2:
                    self.und.append('result of the pipe read at %s is neither stored in a flag nor tested directly' % tu.loc(n))
                    continue
            else:
                if self.flag is not None and self.flag != v:
                    self.und.append('pipe reads store their result in different variables')
                self.flag = v
            self.sites[n['id']] = (v, out)
        # other writes of the flag
        for b, i, n in g.stmts():
            if n.get('kind') == 'BinaryOperator' and n.get('opcode') == '=' and self.flag is not None:
                ap = access_path(tu, tu.kids(n)[0])
                if ap and ap[1] == self.flag:
                    rhs = leaf(tu, tu.kids(n)[1])
                    if rhs is None or rhs.get('id') not in self.sites:
                        self.und.append('flag variable is assigned something else than a pipe read at %s' % tu.loc(n))

    def out_paths(self):
        """access paths of the sub task the acquisitions fill (`&x` -> x ; pointer parameter p -> p)"""
        tu = self.tu
        out = set()
        for v, a in self.sites.values():
            a0 = leaf(tu, a)
            if a0 is not None and a0.get('kind') == 'UnaryOperator' and a0.get('opcode') == '&':
                out.add(access_path(tu, tu.kids(a0)[0]))
            else:
                out.add(access_path(tu, a))
        return out

    def success_succ(self, blk):
        """successor block on which an acquisition is known to have succeeded, for a block ending in a test of it"""
        tu = self.tu
        if blk.cond is None or len(blk.succ) != 2:
            return None
        c, pos = strip_not(tu, tu.node(blk.cond))
        if c is None:
            return None
        if c.get('id') in self.sites and self.sites[c['id']][0] is None:
            return blk.succ[0] if pos else blk.succ[1]
        if c.get('kind') == 'DeclRefExpr' and self.flag is not None and c.get('referencedDecl', {}).get('id') == self.flag:
            return blk.succ[0] if pos else blk.succ[1]
        return None

    def explore(self, events, probs):
        """events: {stmt id: 'exec'|'dec'|'inc'|'rmw'}.  Returns (exit states (v, tok, exe), returns {(value, tok, exe, v)})"""
        tu, g = self.tu, self.g
        sites, flag = self.sites, self.flag
        returns = set()

        def transfer(blk, idx, e, st):
            if e[0] != 'S':
                return [st]
            v, tok, exe, pend = st
            nid = e[1]
            if nid in sites:
                if v == 'T' or tok > 0:
                    probs.add(('acquire-while-holding', 'a second partition is read from a pipe while one is already held: '
                               'the first one is overwritten and never run'))
                if sites[nid][0] is None:
                    return [(v, tok, exe, nid)]
                return [('T', min(tok + 1, 2), exe, None), ('F', tok, exe, None)]
            k = events.get(nid)
            if k == 'execdec':
                if tok == 0:
                    probs.add(('exec-without-task', 'a partition is run on a path where none was obtained from a pipe'))
                    return [st]
                return [(v, tok - 1, exe, pend)]
            if k == 'exec':
                if tok == 0:
                    probs.add(('exec-without-task', 'ExecuteRange is reached on a path where no partition was obtained from a pipe'))
                    return [st]
                return [(v, tok - 1, min(exe + 1, 2), pend)]
            if k == 'dec':
                if exe == 0:
                    probs.add(('extra-decrement', 'm_RunningCount is decremented on a path where no partition has just been executed: '
                               'the count reaches 0 while partitions are still queued (join returns early)'))
                    return [st]
                return [(v, tok, exe - 1, pend)]
            if k in ('inc', 'rmw'):
                probs.add(('rmw', 'm_RunningCount is changed other than by the decrement after ExecuteRange'))
                return [st]
            n = tu.node(nid)
            if n is not None and n.get('kind') == 'ReturnStmt' and tu.kids(n):
                x = leaf(tu, tu.kids(n)[0])
                val = '?'
                if x is not None and x.get('kind') == 'CXXBoolLiteralExpr':
                    val = bool(x.get('value'))
                elif x is not None and x.get('kind') == 'DeclRefExpr' and x.get('referencedDecl', {}).get('id') == flag:
                    val = 'flag'
                returns.add((val, tok, exe, v))
            return [st]

        def refine(blk, si, st):
            if blk.cond is None or len(blk.succ) != 2:
                return [st]
            v, tok, exe, pend = st
            c, pos = strip_not(tu, tu.node(blk.cond))
            if c is None:
                return [st]
            truth = (si == 0) == pos
            if pend is not None and c.get('id') == pend:
                return [(v, min(tok + 1, 2), exe, None)] if truth else [(v, tok, exe, None)]
            if c.get('kind') == 'DeclRefExpr' and flag is not None and c.get('referencedDecl', {}).get('id') == flag:
                if v == '?':
                    return [st]
                return [st] if (v == 'T') == truth else []
            return [st]
        res = g.explore([('F', 0, 0, None)], transfer, refine)
        return {st[:3] for st, via in res.exits if not g.blocks[via].noret}, returns


_ACQ_HELPERS = {}


def acquire_helper(tu, f):
    """index of the SubTaskSet* out-parameter if f is a verified acquire-helper: it returns true exactly on the paths on
    which one pipe read into that parameter succeeded (and nothing was read before or after), else None"""
    key_ = (id(tu), f['id'])
    if key_ in _ACQ_HELPERS:
        return _ACQ_HELPERS[key_]
    _ACQ_HELPERS[key_] = None
    ks = [k for k, p_ in enumerate(f.get('params', [])) if is_subtask_ptr(p_['ct'])]
    if len(ks) != 1 or tu.cfg(f) is None or f.get('virt') or not f.get('fty', '').startswith('bool'):
        return None
    k = ks[0]
    flow = AcqFlow(tu, f, lambda cf: None)
    if flow.und or not flow.sites or flow.unknown_taker:
        return None
    if flow.out_paths() != {param_path(f['params'][k])}:
        return None
    probs = set()
    exits, returns = flow.explore({}, probs)
    if probs or not returns:
        return None
    for val, tok, exe, v in returns:
        if val is True and tok != 1:
            return None
        if val is False and tok != 0:
            return None
        if val == 'flag' and ((v == 'T') != (tok == 1) or v == '?'):
            return None
        if val == '?':
            return None
    # the out-parameter itself is only handed to the pipe reads
    for r in refs_to(tu, f, f['params'][k]['id']):
        x = r
        okr = False
        for _ in range(4):
            x = tu.par(x)
            if x is None:
                break
            if x.get('id') in flow.sites:
                okr = True
                break
        if not okr:
            return None
    _ACQ_HELPERS[key_] = k
    return k


def check_try_run_task(ctx, tu, split_fn, requeue_takes_count=False):
    R = 'R-C01-6'
    fs = tu.fns(q=TS + 'TryRunTask', dep=False)
    inst = '[INTERNAL] TaskScheduler::TryRunTask'
    if not fs or tu.cfg(fs[0]) is None:
        ctx.broken('R-C01-6: enki::TaskScheduler::TryRunTask not found')
        return
    f = fs[0]
    g = tu.cfg(f)
    loc = tu.fn_loc(f)
    key = lambda d: '%s|%s|TaskScheduler::TryRunTask|%s' % (R, F_ENKI, d)
    flow = AcqFlow(tu, f, lambda cf: acquire_helper(tu, cf))
    if flow.und:
        for u in sorted(set(flow.und)):
            ctx.undecided(R, inst, u, loc)
        return
    if not flow.sites:
        if flow.unknown_taker:
            ctx.undecided(R, inst, 'the sub task is filled by `%s`, which is not recognised as a pipe read'
                          % tu.sd(flow.unknown_taker[0]).get('q', '?'), loc)
        else:
            ctx.violation(R, inst, 'TryRunTask never reads a partition from a pipe: queued partitions are never run', loc,
                          key=key('no-read'))
        return
    events = {}
    for b, i, n in g.stmts():
        if n.get('kind') in CALLS and n['id'] not in flow.sites:
            q = tu.sd(n).get('q', '')
            if q == 'enki::ITaskSet::ExecuteRange':
                events[n['id']] = 'exec'
            else:
                ev = running_count_event(tu, n)
                cf_ = tu.callee_fn(n)
                if ev:
                    events[n['id']] = ev[0]
                elif cf_ is not None and run_counted_helper(tu, cf_, split_fn) is not None:
                    events[n['id']] = 'execdec'     # helper: ExecuteRange of the partition it is given + one decrement
    probs = set()
    exits, returns = flow.explore(events, probs)
    for v, tok, exe in exits:
        if tok > 0:
            probs.add(('dropped', 'a partition obtained from a pipe is not executed on some path: its indices never run and '
                       'm_RunningCount never reaches 0'))
        if exe > 0:
            probs.add(('missing-decrement', 'a partition is executed but m_RunningCount is not decremented afterwards: the count '
                       'never reaches 0 and the join never returns'))
    # ---- exact cover and same-task pairing in the region entered after a successful read
    dom = g.dominators()
    ev_blocks = {g.where(i)[0] for i, k in events.items() if k in ('exec', 'dec', 'execdec')}
    guards = []
    for blk in g.blocks.values():
        ts = flow.success_succ(blk)
        if ts is not None and ev_blocks and all(ts in dom.get(b, ()) for b in ev_blocks):
            guards.append(ts)
    if len(guards) > 1:
        inner = [x for x in guards if all(y in dom.get(x, ()) for y in guards)]
        guards = inner[:1] if inner else guards
    if not ev_blocks:
        probs.add(('dropped', 'a partition obtained from a pipe is never executed'))
    elif len(guards) != 1:
        ctx.undecided(R, inst, 'the region that runs the obtained partition is not entered through one test of the pipe read '
                      '(%d candidates)' % len(guards), loc)
    else:
        subs = flow.out_paths()
        if len(subs) != 1 or None in subs:
            ctx.undecided(R, inst, 'pipe reads do not fill one local sub task', loc)
        else:
            sub = next(iter(subs))
            s0 = Lin.atom(('init', sub + ('partition', 'start')))
            e0 = Lin.atom(('init', sub + ('partition', 'end')))
            p0 = Lin.atom(('init', sub + ('pTask',)))
            try:
                paths = sym_paths(tu, g, guards[0], set(), Store(tu), make_split_summary(tu, split_fn))
            except ValueError as e:
                paths = None
                ctx.undecided(R, inst, 'region entered after the pipe read is not loop-free (%s)' % e, loc)
            for stop, st in (paths or []):
                ev = [e for e in st.events if e[0] != 'branch']
                for k, t in check_tokens(ctx, tu, inst, loc, key, ev, lambda pid: None, [p0],
                                         requeue_takes_count=requeue_takes_count):
                    probs.add((k, t))
                pieces = [e[2] for e in ev if e[0] in ('exec', 'requeue')]
                if any(p is None or None in p for p in pieces):
                    ctx.undecided(R, inst, 'a partition handed to ExecuteRange / SplitAndAddTask is not a local structure', loc)
                    continue
                cur = s0
                rest = list(pieces)
                okc = True
                while rest:
                    nxt = [p for p in rest if p[1] == cur]
                    if len(nxt) != 1:
                        okc = False
                        break
                    if nxt[0][0] != p0:
                        probs.add(('task', 'a partition is run / re-queued for a different task than the one read from the pipe'))
                    cur = nxt[0][2]
                    rest.remove(nxt[0])
                if not okc or cur != e0:
                    recognised = all(all(a_[0] in ('init', 'min') for a_ in x.t) for p in pieces for x in p[1:])
                    msg = ('the partitions run and re-queued (%s) are not an exact cover of the partition [%r, %r) read from '
                           'the pipe' % (', '.join('[%r, %r)' % (p[1], p[2]) for p in pieces), s0, e0))
                    if recognised:
                        probs.add(('cover', msg + ': indices are run twice or never'))
                    else:
                        ctx.undecided(R, inst, msg + ' (bounds not in a recognised form)', loc)
    if any(k == 'exec-uncovered' for k, t in probs):
        probs = {(k, t) for k, t in probs if k != 'missing-decrement'}     # explained by the count that was given away
    for k, t in sorted(probs):
        ctx.violation(R, inst, t, loc, key=key(k))
    if not probs:
        ctx.ok(R, inst, 'every partition read from a pipe is executed (or split, executed and re-queued as an exact cover) and '
               'followed by exactly one decrement through the same task', loc)


def check_thread_identity(ctx, tu):
    """R-C01-6f: the per-thread pipes have one writer each.  A loop issued from inside a task (nested call) reaches
    AddTaskSetToPipe / WaitforTask, which pick the pipe by the thread-local thread number; the thread runs its tasks through
    TryRunTask(threadNum, ...).  Both must be the same number on every thread: wherever TryRunTask is called with something
    else than the thread-local itself, the thread-local must have been set to that value before."""
    R = 'R-C01-6f'
    ctx.describe(R, 'single writer per pipe: on every thread the thread-local thread number used by AddTaskSetToPipe / WaitforTask '
                    'equals the thread number the thread passes to TryRunTask')
    fs = tu.fns(q=TS + 'AddTaskSetToPipe', dep=False)
    G = None
    if fs and tu.cfg(fs[0]) is not None:
        for b, i, n in tu.cfg(fs[0]).stmts():
            if n.get('kind') in CALLS and tu.sd(n).get('q') == TS + 'SplitAndAddTask':
                s_, obj, args = call_args(tu, n)
                G = access_path(tu, args[0]) if args else None
    gv = tu.node(G[1]) if G and len(G) == 3 else None
    if gv is None or gv.get('kind') != 'VarDecl' or tu.enclosing_fn(gv) is not None or not (gv.get('tls') or gv.get('storageClass') == 'static'):
        ctx.undecided(R, '[INTERNAL] TaskScheduler::AddTaskSetToPipe', 'the pipe of the calling thread is not selected by a thread-local '
                      'variable in a recognised way', tu.fn_loc(fs[0]) if fs else F_ENKI)
        return
    n_inst = 0
    for f in tu.functions.values():
        g = tu.cfg(f)
        if f['dep'] or g is None:
            continue
        calls = [(b, i, n) for b, i, n in g.stmts() if n.get('kind') in CALLS and tu.sd(n).get('q') == TS + 'TryRunTask']
        if not calls:
            continue
        defs = local_defs(tu, [f])
        env = make_env(tu, defs)
        assigns = [(b, i, n) for b, i, n in g.stmts() if n.get('kind') == 'BinaryOperator' and n.get('opcode') == '=' and
                   access_path(tu, tu.kids(n)[0]) == G]
        for b, i, c in calls:
            s_, obj, args = call_args(tu, c)
            inst = '[INTERNAL] %s: %s' % (f['q'].replace('enki::', ''), tu.show(c))
            n_inst += 1
            if not args:
                continue
            if access_path(tu, args[0]) == G:
                ctx.ok(R, inst, 'runs tasks under the thread-local thread number itself', tu.loc(c), nontrivial=False)
                continue
            want = lin(tu, args[0], env)
            if want == Lin.atom(('p', G)) and not assigns:
                ctx.ok(R, inst, 'runs tasks under a local copy of the thread-local thread number', tu.loc(c), nontrivial=False)
                continue
            good = [a for a in assigns if g.dominates((a[0].id, a[1]), (b.id, i)) and lin(tu, tu.kids(a[2])[1], env) == want]
            if good:
                ctx.ok(R, inst, '`%s` is set to the same value (%s) before the first task runs' % (G[2], tu.show(tu.kids(good[0][2])[1])),
                       tu.loc(c))
            elif not [a for a in assigns if g.dominates((a[0].id, a[1]), (b.id, i))]:
                ctx.violation(R, inst, 'this thread runs tasks as thread `%s`, but the thread-local `%s` is not set on it before that: a parallel loop '
                              'issued from inside one of those tasks goes through AddTaskSetToPipe / WaitforTask, which use `%s` (still '
                              'its initial value 0), so the worker writes to and reads from pipe 0 as if it were its owner - two writers '
                              'on a single-writer pipe: partitions are lost or run twice'
                              % (tu.show(args[0]), G[2], G[2]), tu.loc(c),
                              key='%s|%s|%s|thread-number-not-published' % (R, F_ENKI, f['q'].replace('enki::', '')))
            else:
                ctx.undecided(R, inst, '`%s` is assigned in this function, but not recognisably to the thread number `%s` passed to '
                              'TryRunTask before the call' % (G[2], tu.show(args[0])), tu.loc(c))
    ctx.floor(R, n_inst, 3, 'TryRunTask call sites: worker thread function, WaitforTask, WaitforAll')


def check_partition_divisors(ctx, tu):
    """R-C01-6g: AddTaskSetToPipe divides the set size by scheduler members (number of partitions); whichever function
    sets those members must leave them >= 1 for every thread count >= 1 - with one thread too - or scheduling the task set
    divides by zero."""
    R = 'R-C01-6g'
    ctx.describe(R, 'the scheduler members AddTaskSetToPipe divides the set size by are >= 1 for every thread count >= 1')
    fs = tu.fns(q=TS + 'AddTaskSetToPipe', dep=False)
    if not fs or tu.cfg(fs[0]) is None:
        return
    f = fs[0]
    inst0 = '[INTERNAL] TaskScheduler::AddTaskSetToPipe'
    members = {}        # member name -> division node

    def scan(fn, amap, depth):
        g = tu.cfg(fn)
        for b, i, n in g.stmts():
            if n.get('kind') == 'BinaryOperator' and n.get('opcode') in ('/', '%'):
                dp = access_path(tu, tu.kids(n)[1])
                hops = 0
                while dp in amap and hops < 3:
                    dp = access_path(tu, amap[dp])
                    hops += 1
                if dp is not None and dp[0] == 'this' and len(dp) == 2:
                    members.setdefault(dp[1], n)
                elif dp is not None and const_value(tu, tu.kids(n)[1]) is None and dp[0] == 'v' and fn is f:
                    pass
            elif n.get('kind') in CALLS and depth < 2:
                cf = inlinable(tu, n)
                if cf is not None and not cf['dep'] and tu.sd(n).get('q') != TS + 'SplitAndAddTask':
                    s_, obj, args = tu.call_parts(n)
                    scan(cf, {param_path(p_): a_ for p_, a_ in zip(cf['params'], args)}, depth + 1)
    scan(f, {}, 0)
    if not members:
        ctx.ok(R, inst0, 'no division by a scheduler member', tu.fn_loc(f), nontrivial=False)
        return
    n_inst = 0
    TH = ('this', 'm_NumThreads')

    def writes_member(wg, blocks, path):
        """the member is assigned in these blocks - directly, or by a callee that receives it by non-const reference"""
        if any(p_ == path for p_, k_, n_ in find_writes(tu, wg, blocks)):
            return True
        for b_, i_, n_ in wg.stmts():
            if b_.id not in blocks or n_.get('kind') not in CALLS:
                continue
            cf_ = tu.callee_fn(n_)
            if cf_ is None or not cf_.get('params'):
                continue
            s_, obj_, args_ = tu.call_parts(n_)
            for p_, a_ in zip(cf_['params'], args_):
                pt_ = (p_.get('ct') or '').strip()
                if pt_.endswith('&') and not pt_.startswith('const ') and access_path(tu, a_) == path:
                    return True
        return False
    for X, divnode in sorted(members.items()):
        inst = '[INTERNAL] TaskScheduler::%s' % X
        writers = []
        for w in tu.functions.values():
            wg = tu.cfg(w)
            if w['dep'] or wg is None or w.get('ctor') or w.get('rec') != 'enki::TaskScheduler':
                continue
            if writes_member(wg, set(wg.blocks), ('this', X)):
                writers.append(w)
        n_inst += 1
        if len(writers) != 1:
            ctx.undecided(R, inst, '`%s` (a divisor in AddTaskSetToPipe) is assigned in %d functions' % (X, len(writers)), tu.loc(divnode))
            continue
        w = writers[0]
        wg = tu.cfg(w)
        if writes_member(wg, set(wg.blocks), TH):
            ctx.undecided(R, inst, '`%s` also changes m_NumThreads' % w['q'], tu.fn_loc(w))
            continue
        heads = sorted({t for s_, t in wg.back_edges()})
        start = wg.entry
        if len(heads) == 1:
            H = wg.blocks[heads[0]]
            L = natural_loop(wg, H.id)
            if writes_member(wg, L, ('this', X)) or len(H.succ) != 2 or H.succ[1] is None:
                ctx.undecided(R, inst, '`%s` is assigned inside a loop of %s' % (X, w['q']), tu.fn_loc(w))
                continue
            start = H.succ[1]
        elif heads:
            ctx.undecided(R, inst, '%s has several loops' % w['q'], tu.fn_loc(w))
            continue
        try:
            paths = sym_paths(tu, wg, start, set(), Store(tu))
        except ValueError as e:
            ctx.undecided(R, inst, 'paths of %s cannot be enumerated (%s)' % (w['q'], e), tu.fn_loc(w))
            continue
        worst = None
        undec = None
        for stop, st in paths:
            v = st.read(('this', X))
            if v == Lin.atom(('init', ('this', X))):
                continue                      # not assigned on this path (early return)
            envi = {('init', TH): (1, (1 << 32) - 1), '__facts__': set(st.conds)}
            feasible = not any(negate_cmp(c) in envi['__facts__'] for c in st.conds)
            for c in st.conds:
                iv_ = lin_interval(c[2], envi)
                if iv_ is None:
                    continue
                elo, ehi = iv_
                if not {'<': elo < 0, '<=': elo <= 0, '==': elo <= 0 <= ehi, '!=': not (elo == ehi == 0)}[c[1]]:
                    feasible = False
            if not feasible:
                continue
            # equalities on the thread count pin it
            for c in st.conds:
                if c[1] == '==' and set(c[2].t) == {('init', TH)}:
                    co = c[2].t[('init', TH)]
                    val = -c[2].c / co
                    envi[('init', TH)] = (int(val), int(val))
                if c[1] == '!=' and set(c[2].t) == {('init', TH)} and -c[2].c / c[2].t[('init', TH)] == 1:
                    envi[('init', TH)] = (2, (1 << 32) - 1)
            iv = lin_interval(v, envi)
            if iv is None:
                undec = 'value `%r` of %s set by %s' % (v, X, w['q'].split('::')[-1])
                continue
            lo_i, hi_i = iv
            for c in st.conds:          # path conditions on the value itself
                for sgn, d_ in ((1, c[2]), (-1, -c[2])):
                    if d_ != v:
                        continue
                    if c[1] == '!=':
                        if lo_i == 0:
                            lo_i = 1
                        if hi_i == 0:
                            hi_i = -1
                    elif c[1] == '==':
                        lo_i = hi_i = 0
                    elif sgn == 1:
                        hi_i = min(hi_i, -1 if c[1] == '<' else 0)
                    else:
                        lo_i = max(lo_i, 1 if c[1] == '<' else 0)
            iv = (lo_i, hi_i)
            if lo_i > hi_i:
                continue
            if iv[0] <= 0 and (worst is None or iv[0] < worst[0]):
                br = [e_ for e_ in st.events if e_[0] == 'branch']
                worst = (iv[0], v, envi[('init', TH)], br)
        if worst is not None:
            lo_, v, thr, br = worst
            ctx.violation(R, inst, '%s sets `%s` to `%s`, which is %d for a thread count of %d; AddTaskSetToPipe divides the size of every '
                          'task set by it (`%s`): with that many threads every parallel_for divides by zero (or splits into empty '
                          'partitions) instead of running its indices'
                          % (w['q'].split('::')[-1], X, repr(v).replace("this.", '').replace('@entry', ''), lo_, thr[0],
                             tu.show(divnode)), tu.loc(divnode),
                          key='%s|%s|TaskScheduler::%s|%s-not-positive' % (R, F_ENKI, w['q'].split('::')[-1], X))
        elif undec:
            ctx.undecided(R, inst, 'cannot bound the %s' % undec, tu.fn_loc(w))
        else:
            ctx.ok(R, inst, '>= 1 on every path of %s for m_NumThreads >= 1' % w['q'].split('::')[-1], tu.fn_loc(w))
    ctx.floor(R, n_inst, 2, 'm_NumPartitions and m_NumInitialPartitions')


def check_count_stores(ctx, tu):
    """(d) plain stores to ITaskSet::m_RunningCount only before the task is published"""
    R = 'R-C01-6'
    n = 0
    for f in tu.functions.values():
        if f['dep'] or tu.fn_file(f) not in (F_ENKI, F_ENKI_H) or tu.cfg(f) is None:
            continue
        g = tu.cfg(f)
        for b, i, s in g.stmts():
            tgt = None
            if s.get('kind') == 'BinaryOperator' and s.get('opcode') == '=':
                tgt = tu.kids(s)[0]
            elif s.get('kind') in ('CompoundAssignOperator',) or (s.get('kind') == 'UnaryOperator' and s.get('opcode') in ('++', '--')):
                tgt = tu.kids(s)[0]
            if tgt is None:
                continue
            p = access_path(tu, tgt)
            if p is None or p[-1] != RC:
                continue
            base = leaf(tu, tu.kids(leaf(tu, tgt))[0]) if tu.kids(leaf(tu, tgt)) else None
            bt = clean_type(tu.sd(base).get('ct') or '') if base is not None else ''
            if 'IPinnedTask' in bt:
                continue
            n += 1
            inst = '[INTERNAL] %s: %s' % (f['q'].replace('enki::', ''), tu.show(s))
            fnm = f['q'].replace('enki::', '')
            # must precede every publication in this function
            pubs = [x for b2, i2, x in g.stmts() if x.get('kind') in CALLS and
                    (tu.sd(x).get('q', '').endswith('::WriterTryWriteFront') or tu.sd(x).get('q') == TS + 'SplitAndAddTask')]
            pos = g.where(s['id'])
            late = [x for x in pubs if not g.dominates(pos, g.where(x['id']))]
            if f['q'] != TS + 'AddTaskSetToPipe' or late or s.get('kind') != 'BinaryOperator' or const_value(tu, tu.kids(s)[1]) != 0:
                ctx.violation(R, inst, 'plain (non-atomic) store to m_RunningCount where workers may already hold partitions of the task: '
                              'concurrent increments/decrements are lost', tu.loc(s),
                              key='%s|%s|%s|plain-store' % (R, tu.fn_file(f), fnm))
            else:
                ctx.ok(R, inst, 'the only plain store: resets the count to 0 before the first publication', tu.loc(s))
    return n


# =====================================================================================================
#  R-C01-6e  slot protocol of the lock-less pipe (order only; sufficiency under the memory model is not decided)
# =====================================================================================================
PIPE = 'enki::LockLessMultiReadPipe'


def member_index(tu, e, member):
    """index access path if e is  this->member[IDX]  with IDX a local variable, else None"""
    n = leaf(tu, e)
    if n is None or n.get('kind') != 'ArraySubscriptExpr':
        return None
    ks = tu.kids(n)
    b = leaf(tu, ks[0])
    if b is None or b.get('kind') != 'MemberExpr' or b.get('name') != member:
        return None
    return access_path(tu, ks[1]) or ('?',)


def const_name(tu, e):
    n = leaf(tu, e)
    if n is not None and n.get('kind') == 'DeclRefExpr':
        return n.get('referencedDecl', {}).get('name')
    if n is not None and n.get('kind') == 'MemberExpr':
        return n.get('name')
    return None


def check_pipe_protocol(ctx, tu):
    R = 'R-C01-6e'
    ctx.describe('R-C01-6h', 'pipe: the access to a slot item (writer: store, reader: copy) is separated by a compiler / memory barrier '
                             'from the store of the slot flag that hands the slot to the other side')
    ctx.describe(R, 'pipe slot protocol: a reader touches m_Buffer[i] only after its CAS(m_Flags[i]: CAN_READ -> INVALID) succeeded and '
                    'then stores CAN_WRITE; the writer touches m_Buffer[i] only after observing CAN_WRITE, then stores CAN_READ, then a '
                    'compiler/memory barrier, then publishes the write index')
    n_inst = 0
    members = [f for f in tu.functions.values() if not f['dep'] and f.get('rec') == PIPE and tu.cfg(f) is not None]
    PUBLIC = ('WriterTryWriteFront', 'WriterTryReadFront', 'ReaderTryReadBack')
    alias = {}        # index parameter of an inlined private helper -> index path at the call site
    depth = [0]

    def midx(e, member):
        r = member_index(tu, e, member)
        return alias.get(r, r) if r is not None else None

    def mpath(e):
        r = access_path(tu, e)
        return alias.get(r, r) if r is not None else None

    def result_var(n):
        par = tu.par(n)
        while par is not None and par.get('kind') in ('ImplicitCastExpr', 'ParenExpr'):
            par = tu.par(par)
        if par is not None and par.get('kind') == 'VarDecl':
            return par['id']
        if par is not None and par.get('kind') == 'BinaryOperator' and par.get('opcode') == '=':
            ap = access_path(tu, tu.kids(par)[0])
            return ap[1] if ap else None
        return None
    cas_calls = {}     # call id -> (index expression node, result variable | None, polarity: None = raw CAS value, bool = claim helper)
    cas_bad = {}
    for f in members:
        for b, i, n in tu.cfg(f).stmts():
            if n.get('kind') == 'CallExpr' and tu.sd(n).get('q') == 'enki::AtomicCompareAndSwap':
                args = tu.kids(n)[1:]
                a0 = leaf(tu, args[0]) if args else None
                ie = None
                if a0 is not None and a0.get('kind') == 'UnaryOperator' and a0.get('opcode') == '&' and \
                        member_index(tu, tu.kids(a0)[0], 'm_Flags') is not None:
                    ie = tu.kids(a0)[0]
                if ie is None or len(args) != 3:
                    continue
                if (const_name(tu, args[1]), const_name(tu, args[2])) != ('FLAG_INVALID', 'FLAG_CAN_READ'):
                    cas_bad[n['id']] = f
                cas_calls[n['id']] = (ie, result_var(n), None)

    def claim_summary(h):
        """(index parameter number, polarity) if the private helper h only claims slot [param] by the CAS and returns
        (result == FLAG_CAN_READ) [polarity True] or (result != FLAG_CAN_READ) [False]"""
        g2 = tu.cfg(h)
        mine = [cid for cid in cas_calls if g2.where(cid) is not None and cas_calls[cid][2] is None]
        if len(mine) != 1 or g2.back_edges():
            return None
        ie, var, _ = cas_calls[mine[0]]
        ip = member_index(tu, ie, 'm_Flags')
        ks_ = [k for k, p_ in enumerate(h['params']) if param_path(p_) == ip]
        if len(ks_) != 1:
            return None
        rets = []
        for b, i, n in g2.stmts():
            k = n.get('kind')
            if k == 'ArraySubscriptExpr' and member_index(tu, n, 'm_Buffer') is not None:
                return None
            if k == 'BinaryOperator' and n.get('opcode') == '=' and member_index(tu, tu.kids(n)[0], 'm_Flags') is not None:
                return None
            if k == 'ReturnStmt':
                if not tu.kids(n):
                    return None
                rets.append(tu.kids(n)[0])
        if len(rets) != 1:
            return None
        c = leaf(tu, rets[0])
        neg = False
        while c is not None and c.get('kind') == 'UnaryOperator' and c.get('opcode') == '!':
            neg = not neg
            c = leaf(tu, tu.kids(c)[0])
        if c is None or c.get('kind') != 'BinaryOperator' or c.get('opcode') not in ('==', '!='):
            return None
        a, b = tu.kids(c)
        for x, y in ((a, b), (b, a)):
            if const_name(tu, y) == 'FLAG_CAN_READ':
                lx = leaf(tu, x)
                isres = lx is not None and (lx.get('id') == mine[0] or
                                            (var is not None and lx.get('kind') == 'DeclRefExpr' and
                                             lx.get('referencedDecl', {}).get('id') == var))
                if isres:
                    return ks_[0], (c['opcode'] == '==') != neg
        return None
    helper_claim = {}
    for h in members:
        if h['q'].split('::')[-1] not in PUBLIC:
            cs = claim_summary(h)
            if cs is not None:
                helper_claim[h['id']] = cs
    for f in members:
        for b, i, n in tu.cfg(f).stmts():
            if n.get('kind') == 'CXXMemberCallExpr':
                cf = tu.callee_fn(n)
                if cf is not None and cf['id'] in helper_claim:
                    k_, pol = helper_claim[cf['id']]
                    s_, obj, args = tu.call_parts(n)
                    if k_ < len(args):
                        cas_calls[n['id']] = (args[k_], result_var(n), pol)

    def flag_summary(h):
        """(index parameter number, polarity) if the private helper h only returns (m_Flags[param] == FLAG_CAN_WRITE)
        [polarity True] or its negation: the writer's test that a slot is free"""
        g2 = tu.cfg(h)
        if g2.back_edges() or any(g2.where(c_) is not None for c_ in cas_calls):
            return None
        rets = []
        for b, i, n in g2.stmts():
            k = n.get('kind')
            if k == 'ArraySubscriptExpr' and member_index(tu, n, 'm_Buffer') is not None:
                return None
            if k in ('BinaryOperator', 'CompoundAssignOperator') and n.get('opcode') in ('=', '+=', '-=') :
                return None
            if k == 'ReturnStmt':
                if not tu.kids(n):
                    return None
                rets.append(tu.kids(n)[0])
        if len(rets) != 1:
            return None
        c, pos = strip_not(tu, rets[0])
        if c is None or c.get('kind') != 'BinaryOperator' or c.get('opcode') not in ('==', '!='):
            return None
        a, b = tu.kids(c)
        for x, y in ((a, b), (b, a)):
            if const_name(tu, y) == 'FLAG_CAN_WRITE':
                ip = member_index(tu, x, 'm_Flags')
                ks_ = [k for k, p_ in enumerate(h['params']) if param_path(p_) == ip]
                if len(ks_) == 1:
                    return ks_[0], (c['opcode'] == '==') == pos
        return None
    flag_calls = {}
    helper_flag = {}
    for h in members:
        if h['q'].split('::')[-1] not in PUBLIC and h['id'] not in helper_claim:
            fs_ = flag_summary(h)
            if fs_ is not None:
                helper_flag[h['id']] = fs_
    for f in members:
        for b, i, n in tu.cfg(f).stmts():
            if n.get('kind') == 'CXXMemberCallExpr':
                cf = tu.callee_fn(n)
                if cf is not None and cf['id'] in helper_flag:
                    k_, pol = helper_flag[cf['id']]
                    s_, obj, args = tu.call_parts(n)
                    if k_ < len(args):
                        flag_calls[n['id']] = (args[k_], result_var(n), pol)

    def cas_idx(cid):
        ie = cas_calls[cid][0]
        r = member_index(tu, ie, 'm_Flags') if cas_calls[cid][2] is None else access_path(tu, ie)
        return alias.get(r, r) if r is not None else ('?',)
    for f in members:
        name = f['q'].split('::')[-1]
        if name not in PUBLIC:
            continue
        n_inst += 1
        producer = name == 'WriterTryWriteFront'
        # the writer's "slot is free" test helpers count as claims only in the writer
        for k_ in flag_calls:
            cas_calls.pop(k_, None)
        if producer:
            cas_calls.update(flag_calls)
        g = tu.cfg(f)
        inst = '[INTERNAL] LockLessMultiReadPipe::%s' % name
        loc = tu.fn_loc(f)
        file = tu.fn_file(f)
        key = lambda d: '%s|%s|LockLessMultiReadPipe::%s|%s' % (R, file, name, d)
        probs = set()
        probs6h = set()
        und = set()
        for cid, hf in cas_bad.items():
            if g.where(cid) is not None:
                probs.add(('cas-values', 'the claiming compare-and-swap is not (swapTo = FLAG_INVALID, compareWith = FLAG_CAN_READ)'))

        def cond_info(cond):
            """('claim', truth-on-success, idx) for a test of a CAS result / of m_Flags[i] against its expected constant"""
            n, pos = strip_not(tu, cond)
            neg = not pos
            if n is not None and n.get('id') in cas_calls and cas_calls[n['id']][2] is not None:
                return ('cas', cas_calls[n['id']][2] != neg, cas_idx(n['id']), None)
            if n is not None and n.get('kind') == 'DeclRefExpr' and clean_type(tu.sd(n).get('ct')) == 'bool':
                return ('boolvar', not neg, None, n.get('referencedDecl', {}).get('id'))
            if n is None or n.get('kind') != 'BinaryOperator' or n.get('opcode') not in ('==', '!='):
                return None
            ks = tu.kids(n)
            for a, b in ((ks[0], ks[1]), (ks[1], ks[0])):
                cn = const_name(tu, b)
                la = leaf(tu, a)
                if la is None:
                    continue
                eq = (n['opcode'] == '==') != neg
                if cn == 'FLAG_CAN_READ':
                    if la.get('id') in cas_calls and cas_calls[la['id']][2] is None:
                        return ('cas', eq, cas_idx(la['id']), None)
                    ap = access_path(tu, a)
                    if ap is not None and len(ap) == 3:
                        return ('casvar', eq, None, ap[1])
                if cn == 'FLAG_CAN_WRITE' and producer:
                    idx = midx(a, 'm_Flags')
                    if idx is not None:
                        return ('flag', eq, idx, None)
            return None

        # state: (owned idx | None, pending (var, idx) | None, phase)
        def transfer(blk, i, e, st):
            if e[0] != 'S':
                return [st]
            n = tu.node(e[1])
            if n is None:
                return [st]
            own, pend, ph = st
            k = n.get('kind')
            if n['id'] in cas_calls:
                return [(own, (cas_calls[n['id']][1], cas_idx(n['id']), cas_calls[n['id']][2]), ph)]
            if k == 'CXXMemberCallExpr':
                cf = tu.callee_fn(n)
                if cf is not None and cf.get('rec') == PIPE and tu.cfg(cf) is not None and depth[0] < 3 and \
                        cf['q'].split('::')[-1] not in PUBLIC:
                    # private helper: its slot operations are replayed at the call site (index parameters mapped)
                    if any(tu.cfg(cf).where(c_) is not None and cas_calls[c_][2] is None for c_ in cas_calls):
                        und.add('the private helper `%s` performs the claiming compare-and-swap in a form that is not recognised'
                                % cf['q'].split('::')[-1])
                    s_, obj, args = tu.call_parts(n)
                    added = []
                    for p_, a_ in zip(cf['params'], args):
                        if irange(p_['ct']) is not None:
                            ap = mpath(a_)
                            if ap is not None:
                                alias[param_path(p_)] = ap
                                added.append(param_path(p_))
                    depth[0] += 1
                    try:
                        res2 = tu.cfg(cf).explore([st], transfer, refine)
                        outs = list({s2 for s2, via in res2.exits})
                    except RuntimeError as e_:
                        und.add(str(e_))
                        outs = [st]
                    depth[0] -= 1
                    for a_ in added:
                        alias.pop(a_, None)
                    return outs or [st]
            if k == 'GCCAsmStmt' or (k == 'CallExpr' and tu.sd(n).get('q', '').split('::')[-1] in
                                     ('atomic_thread_fence', '__sync_synchronize', '_ReadWriteBarrier')):
                return [(own, pend, 3 if ph == 2 else 1.5 if ph == 1 else ph)]   # 1.5: barrier after the slot's data access
            if k == 'ArraySubscriptExpr':
                idx = midx(n, 'm_Buffer')
                if idx is not None:
                    if own != idx:
                        probs.add(('buffer-unclaimed', 'm_Buffer[%s] is accessed on a path where the slot has not been claimed (%s): two threads '
                                   'can use the same slot, a partition is run twice or lost'
                                   % (path_str(idx), 'no successful CAS on m_Flags[%s]' % path_str(idx) if not producer else
                                      'FLAG_CAN_WRITE was not observed')))
                    elif ph >= 2:
                        probs.add(('buffer-after-release', 'm_Buffer[%s] is accessed after the slot flag was handed on' % path_str(idx)))
                    return [(own, pend, 1 if ph < 2 else ph)]
                return [st]
            tgt = None
            if k == 'BinaryOperator' and n.get('opcode') == '=':
                tgt = tu.kids(n)[0]
            elif k == 'UnaryOperator' and n.get('opcode') in ('++', '--'):
                tgt = tu.kids(n)[0]
            elif k == 'CompoundAssignOperator':
                tgt = tu.kids(n)[0]
            if tgt is not None:
                fidx = midx(tgt, 'm_Flags')
                if fidx is not None:
                    val = const_name(tu, tu.kids(n)[1]) if k == 'BinaryOperator' else None
                    want = 'FLAG_CAN_READ' if producer else 'FLAG_CAN_WRITE'
                    if val != want:
                        probs.add(('flag-value', 'm_Flags[%s] is set to %s; the %s must hand the slot on with %s'
                                   % (path_str(fidx), val, 'writer' if producer else 'reader', want)))
                    if own != fidx:
                        probs.add(('flag-unclaimed', 'm_Flags[%s] is stored on a path where the slot is not owned' % path_str(fidx)))
                    elif ph < 1:
                        probs.add(('flag-before-data', 'the slot flag is handed on (%s) before m_Buffer[%s] has been %s: the next owner can %s'
                                   % (want, path_str(fidx), 'written' if producer else 'read',
                                      'read a stale partition' if producer else 'overwrite the partition before it is read')))
                    elif ph == 1:
                        probs6h.add(('item-store-not-ordered-before-flag' if producer else 'item-copy-not-ordered-before-flag',
                                     ('the item is stored into m_Buffer[%s] with ordinary stores and the very next thing is the (volatile) '
                                      'store of %s into m_Flags[%s], with no compiler / memory barrier in between: the compiler may sink '
                                      '(part of) the item store below the flag store, and readers claim a slot by the flag alone (they probe '
                                      'slots of [readCount, writeIndex) that may already be re-written for a later round), so a reader that '
                                      'wins the CAS copies a half-written or stale item: a partition is lost or run twice'
                                      if producer else
                                      'the item is copied out of m_Buffer[%s] with ordinary loads and the very next thing is the (volatile) '
                                      'store of %s into m_Flags[%s], with no compiler / memory barrier in between: the compiler may sink the '
                                      'loads below the flag store, the writer then re-fills the slot while it is still being copied: the '
                                      'reader gets a torn item, a partition is lost or run twice')
                                     % (path_str(fidx), want, path_str(fidx))))
                    return [(own, pend, max(ph, 2))]
                ap = mpath(tgt)
                if ap is not None and ap == ('this', 'm_WriteIndex'):
                    if ph == 2:
                        probs.add(('index-before-barrier', 'm_WriteIndex is updated after the flag store without a barrier in between: the index can '
                                   'become visible before the slot content'))
                    elif ph < 2:
                        probs.add(('index-before-flag', 'm_WriteIndex is updated before the slot was handed on'))
                    return [(own, pend, 4 if ph >= 3 else ph)]
                if ap is not None and own is not None and ap == own:
                    return [(None, pend, ph)]     # the index variable changes: the claim no longer refers to it
                if ap is not None and pend is not None and len(ap) == 3 and ap[1] == pend[0]:
                    rhs = leaf(tu, tu.kids(n)[1]) if k == 'BinaryOperator' else None
                    if rhs is None or rhs.get('id') not in cas_calls:
                        return [(own, None, ph)]
            if k == 'ReturnStmt' and tu.kids(n) and depth[0] == 0:
                v = const_value(tu, tu.kids(n)[0])
                lv = leaf(tu, tu.kids(n)[0])
                if lv is not None and lv.get('kind') == 'CXXBoolLiteralExpr':
                    v = 1 if lv.get('value') else 0
                if v is None and lv is not None and lv.get('kind') == 'DeclRefExpr':
                    # the result variable of the (only) claim: true exactly on the paths on which the slot was claimed
                    vid = lv.get('referencedDecl', {}).get('id')
                    claims = [c_ for c_ in cas_calls.values() if c_[1] == vid and c_[2] is not None]
                    wr = [w_ for w_ in find_writes(tu, g, set(g.blocks)) if w_[0] is not None and len(w_[0]) == 3 and w_[0][1] == vid]
                    if len(claims) == 1 and not wr:
                        v = 1 if (own is not None) == claims[0][2] else 0
                if v is None:
                    und.add('return value `%s` is not a Boolean constant' % tu.show(tu.kids(n)[0]))
                elif v:
                    need = 4 if producer else 2
                    if name == 'WriterTryReadFront':
                        need = 4
                    if ph < need:
                        probs.add(('success-incomplete', 'the function reports success on a path that did not complete the slot hand-over '
                                   '(data access, flag store%s)' % (', barrier, write index' if need == 4 else '')))
                else:
                    if ph != 0:
                        probs.add(('failure-after-access', 'the function reports failure after it has touched a slot'))
            return [st]

        def refine(blk, si, st):
            if blk.cond is None or len(blk.succ) != 2:
                return [st]
            ci = cond_info(tu.node(blk.cond))
            if ci is None:
                return [st]
            kind, eq, idx, var = ci
            own, pend, ph = st
            success = (si == 0) == eq
            if kind == 'boolvar':
                if pend is None or pend[0] != var or pend[2] is None:
                    return [st]
                idx = pend[1]
                success = ((si == 0) == eq) == pend[2]
            if kind == 'casvar':
                if pend is None or pend[0] != var or pend[2] is not None:
                    return [st]
                idx = pend[1]
            if kind == 'cas' and (pend is None or pend[1] != idx):
                return [st]
            if success:
                return [(idx, None, ph)]
            return [(own, None, ph)]

        try:
            g.explore([(None, None, 0)], transfer, refine)
        except RuntimeError as e:
            und.add(str(e))
        if not producer and not any(g.where(c_) is not None for c_ in cas_calls):
            probs.add(('no-cas', 'the reader never claims a slot with a compare-and-swap'))
        for u in sorted(und):
            ctx.undecided(R, inst, u, loc)
        for k, t in ([] if und else sorted(probs)):
            ctx.violation(R, inst, t, loc, key=key(k))
        for k, t in ([] if und else sorted(probs6h)):
            ctx.violation('R-C01-6h', inst, t, loc, key='R-C01-6h|%s|LockLessMultiReadPipe::%s|%s' % (file, name, k))
        if not und and not probs6h and not probs:
            ctx.ok('R-C01-6h', inst, 'a barrier separates the access to the slot item from the flag store that hands the slot on', loc)
        if not probs and not und:
            ctx.ok(R, inst, 'claim -> buffer access -> flag hand-over%s on every successful path; nothing touched on failing paths'
                   % (' -> barrier -> write index' if name != 'ReaderTryReadBack' else ''), loc)
    ctx.floor(R, n_inst, 3, 'WriterTryWriteFront, WriterTryReadFront, ReaderTryReadBack of the task pipe instantiation')


# =====================================================================================================
#  R-C01-4 block partition
# =====================================================================================================
def local_defs(tu, fns):
    """{access path: initialiser expr} for locals of the given functions that are initialised once and never written"""
    defs = {}
    written = set()
    for f in fns:
        for n in fn_stmts(tu, f):
            k = n.get('kind')
            if k == 'VarDecl' and tu.kids(n):
                defs[('v', n['id'], n.get('name'))] = tu.kids(n)[0]
            elif (k == 'BinaryOperator' and n.get('opcode') == '=') or k == 'CompoundAssignOperator' or \
                    (k == 'UnaryOperator' and n.get('opcode') in ('++', '--', '&')):
                p = access_path(tu, tu.kids(n)[0])
                if p:
                    written.add(p[:3])
    return {p: e for p, e in defs.items() if p not in written}


POSITIVE_CALLS = ('omp_get_max_threads', 'omp_get_num_procs', 'omp_get_num_threads', 'omp_get_thread_limit',
                  'std::thread::hardware_concurrency')


class Ival:
    """interval evaluation of an integer expression over the mathematical integers; records every node whose exact
    result interval does not fit its own (computation or cast target) type"""

    def __init__(self, tu, ranges, defs, special, nlin=None, nmax=None):
        self.tu, self.ranges, self.defs, self.special = tu, dict(ranges), defs, special
        self.nlin, self.nmax = nlin, nmax
        self.facts = []      # cmp atoms (rel, d) known to hold in the branch being evaluated
        self.wraps = []
        self.unknown = []
        self.pmap = {}       # parameter path of an inlined helper -> Lin of its argument (caller's terms)
        self.assume_positive = False   # treat the value of unknown calls as >= 1 (to see what the known operands alone force)
        self.env = LinEnv(tu, on_read=self._subst, on_call=self._call_lin)

    def _subst(self, p, n):
        if p in self.pmap:
            return self.pmap[p]
        if p in self.defs:
            return lin(self.tu, self.defs[p], self.env)
        return None

    def _call_lin(self, c, env):
        cf = inlinable(self.tu, c)
        if cf is None:
            return None
        av = [lin(self.tu, a_, env) if irange(self.tu.sd(a_).get('ct')) is not None else None for a_ in self.tu.kids(c)[1:]]
        return fn_value(self.tu, cf, av, env)

    def branch(self, cond, ranges, want):
        """(ranges refined for the branch on which `cond` is `want`, fact to push) ; ranges None = branch infeasible"""
        tu = self.tu
        rr = dict(ranges)
        for p in list(rr):
            tr = sign_truth(tu, cond, p)
            if tr is None:
                # the condition may speak about a local that is a plain copy of p
                for q_, e_ in self.defs.items():
                    if q_ not in rr and lin(tu, e_, self.env) == Lin.atom(('p', p)):
                        tr = sign_truth(tu, cond, q_)
                        if tr is not None:
                            break
            if tr is None or rr[p] is None:
                continue
            lo, hi = rr[p]
            segs = []
            if want in tr['N'] and lo <= -1:
                segs.append((lo, min(hi, -1)))
            if want in tr['Z'] and lo <= 0 <= hi:
                segs.append((0, 0))
            if want in tr['P'] and hi >= 1:
                segs.append((max(lo, 1), hi))
            if not segs:
                return None, None
            rr[p] = (min(s_[0] for s_ in segs), max(s_[1] for s_ in segs))
        # a comparison whose operand intervals already decide it makes the other branch dead (its code is never evaluated)
        c_, pos_ = strip_not(tu, cond)
        if c_ is not None and c_.get('kind') == 'BinaryOperator' and c_.get('opcode') in ('<', '<=', '>', '>=', '==', '!='):
            nw, nu = len(self.wraps), len(self.unknown)
            a_, b_ = self.ev(tu.kids(c_)[0], rr), self.ev(tu.kids(c_)[1], rr)
            clean = len(self.unknown) == nu
            del self.wraps[nw:]
            del self.unknown[nu:]
            if a_ is not None and b_ is not None and clean:
                op = c_['opcode']
                if op in ('>', '>='):
                    a_, b_ = b_, a_
                    op = '<' if op == '>' else '<='
                if op == '<':
                    t_ = {True} if a_[1] < b_[0] else {False} if a_[0] >= b_[1] else {True, False}
                elif op == '<=':
                    t_ = {True} if a_[1] <= b_[0] else {False} if a_[0] > b_[1] else {True, False}
                else:
                    eq_ = {True} if a_[0] == a_[1] == b_[0] == b_[1] else {False} if (a_[1] < b_[0] or b_[1] < a_[0]) else {True, False}
                    t_ = eq_ if op == '==' else {not x for x in eq_}
                if (want == pos_) not in t_:
                    return None, None
        ca = bool_atom(tu, cond, self.env)
        if ca is not None and not want:
            ca = negate_cmp(ca)
        fact = (ca[1], ca[2]) if ca is not None and ca[1] in ('<', '<=') else None
        return rr, fact

    def ev_call(self, n, ranges):
        """interval of the value returned by an inlinable loop-free helper; every node inside it is checked too"""
        tu = self.tu
        cf = inlinable(tu, n)
        if cf is None:
            return None
        g = tu.cfg(cf)
        if g.back_edges():
            return None
        args = tu.kids(n)[1:]
        rr0 = dict(ranges)
        saved = dict(self.pmap)
        for p_, a_ in zip(cf['params'], args):
            if irange(p_['ct']) is None:
                continue
            rr0[param_path(p_)] = self.ev(a_, ranges)
            self.pmap[param_path(p_)] = lin(tu, a_, self.env)
        outs = []
        ok = [True]

        def walk(bid, rr, seen):
            if bid in seen or bid == g.exit:
                return
            blk = g.blocks[bid]
            for e in blk.el:
                if e[0] != 'S':
                    continue
                x = tu.node(e[1])
                if x is None:
                    continue
                if x.get('kind') == 'ReturnStmt':
                    ks_ = tu.kids(x)
                    outs.append(self.ev(ks_[0], rr) if ks_ else None)
                    return
                if x.get('kind') in ('DeclStmt', 'CompoundAssignOperator') or \
                        (x.get('kind') in ('BinaryOperator', 'UnaryOperator') and x.get('opcode') in ('=', '++', '--')):
                    ok[0] = False
            if blk.cond is not None and len(blk.succ) == 2:
                self.ev(tu.node(blk.cond), rr)        # the condition's own arithmetic must not leave its type either
                for si, su in enumerate(blk.succ):
                    if su is None:
                        continue
                    r2, fact = self.branch(tu.node(blk.cond), rr, si == 0)
                    if r2 is None:
                        continue
                    if fact:
                        self.facts.append(fact)
                    walk(su, r2, seen | {bid})
                    if fact:
                        self.facts.pop()
            else:
                for su in blk.succ:
                    if su is not None:
                        walk(su, rr, seen | {bid})
        walk(g.entry, rr0, frozenset())
        self.pmap = saved
        outs_ = [o for o in outs if o is not None]
        if not ok[0] or not outs_ or len(outs_) != len(outs):
            return None
        return (min(o[0] for o in outs_), max(o[1] for o in outs_))

    def fit(self, n, iv):
        r = irange(self.tu.sd(n).get('ct'))
        if r is not None and iv is not None and (iv[0] < r[0] or iv[1] > r[1]):
            self.wraps.append((n, iv, clean_type(self.tu.sd(n).get('ct'))))
            return (max(iv[0], r[0]), min(iv[1], r[1])) if iv[0] <= r[1] and iv[1] >= r[0] else r
        return iv

    def ev(self, e, ranges=None):
        tu = self.tu
        ranges = ranges if ranges is not None else self.ranges
        n = e
        k = n.get('kind')
        ks = tu.kids(n)
        cv = tu.sd(n).get('cv')
        is_cast = k in ('ImplicitCastExpr', 'CStyleCastExpr', 'CXXStaticCastExpr', 'CXXFunctionalCastExpr')
        if cv is not None and k not in ('DeclRefExpr', 'MemberExpr') and not (is_cast and ks and irange(tu.sd(n).get('ct')) is not None):
            try:
                return (int(cv), int(cv))
            except ValueError:
                pass
        if k == 'SubstNonTypeTemplateParmExpr' and ks:
            return self.ev(ks[-1], ranges)
        if k in ('ParenExpr', 'ExprWithCleanups', 'MaterializeTemporaryExpr', 'CXXBindTemporaryExpr', 'ConstantExpr',
                 'FullExpr') and ks:
            return self.ev(ks[0], ranges)
        if k in ('ImplicitCastExpr', 'CStyleCastExpr', 'CXXStaticCastExpr', 'CXXFunctionalCastExpr') and ks:
            iv = self.ev(ks[-1] if k != 'ImplicitCastExpr' else ks[0], ranges)
            if irange(tu.sd(n).get('ct')) is None:
                return iv
            return self.fit(n, iv)
        if k == 'CXXConstructExpr' and len(ks) == 1:
            return self.ev(ks[0], ranges)
        if k == 'IntegerLiteral':
            v = int(n.get('value'))
            return (v, v)
        if k in ('DeclRefExpr', 'MemberExpr'):
            p = access_path(tu, n)
            if p in ranges:
                return ranges[p]
            if p in self.defs:
                return self.ev(self.defs[p], ranges)
            if cv is not None:
                return (int(cv), int(cv))
            r = irange(tu.sd(n).get('ct'))
            if r is None:
                self.unknown.append(tu.show(n))
            return r
        if k == 'BinaryOperator':
            op = n.get('opcode')
            sp = self.special(lin(tu, n, self.env)) if self.special else None
            if op in ('<', '<=', '>', '>=', '==', '!=', '&&', '||'):
                for x in ks:
                    self.ev(x, ranges)
                return (0, 1)
            w0 = len(self.wraps)
            a = self.ev(ks[0], ranges)
            w1 = len(self.wraps)
            b = self.ev(ks[1], ranges)
            w2 = len(self.wraps)
            if op == '*' and a is not None and b is not None:
                conv = ('CStyleCastExpr', 'CXXStaticCastExpr', 'CXXFunctionalCastExpr', 'ImplicitCastExpr')
                if a == (0, 0):      # 0 * x: conversions inside x that lose value cannot change the product
                    self.wraps[w1:w2] = [w_ for w_ in self.wraps[w1:w2] if w_[0].get('kind') not in conv]
                    w2 = len(self.wraps)
                if b == (0, 0):
                    self.wraps[w0:w1] = [w_ for w_ in self.wraps[w0:w1] if w_[0].get('kind') not in conv]
            if a is None or b is None:
                return None
            if op == '+':
                iv = (a[0] + b[0], a[1] + b[1])
            elif op == '-':
                iv = (a[0] - b[1], a[1] - b[0])
            elif op == '*':
                c = [a[0] * b[0], a[0] * b[1], a[1] * b[0], a[1] * b[1]]
                iv = (min(c), max(c))
            elif op == '/' and b[0] == b[1] and b[0] > 0:
                q = lambda x: -((-x) // b[0]) if x < 0 else x // b[0]
                iv = (q(a[0]), q(a[1]))
            elif op == '%' and b[0] == b[1] and b[0] > 0:
                iv = (-(b[0] - 1) if a[0] < 0 else 0, b[0] - 1 if a[1] > 0 else 0)
            else:
                self.unknown.append(tu.show(n))
                return irange(tu.sd(n).get('ct'))
            if sp is not None:
                iv = (max(iv[0], sp[0]), min(iv[1], sp[1]))
            if self.facts and self.nlin is not None:
                # a fact  d < 0 (d <= 0)  with  E == n + d + k  bounds E by  max(n) + k - 1  (max(n) + k)
                E = lin(tu, n, self.env)
                for rel, d in self.facts:
                    k_ = (E - self.nlin) - d
                    if k_.is_const():
                        iv = (iv[0], min(iv[1], self.nmax + int(k_.c) - (1 if rel == '<' else 0)))
            return self.fit(n, iv)
        if k == 'ConditionalOperator':
            out = []
            for bi, br in ((0, ks[1]), (1, ks[2])):
                rr, fact = self.branch(ks[0], ranges, bi == 0)
                if rr is not None:
                    if fact:
                        self.facts.append(fact)
                    out.append(self.ev(br, rr))
                    if fact:
                        self.facts.pop()
            self.ev(ks[0], ranges)
            out = [o for o in out if o is not None]
            if not out:
                return None
            return (min(o[0] for o in out), max(o[1] for o in out))
        if k == 'CallExpr' and tu.sd(n).get('q') in ('std::min', 'std::max') and len(ks) == 3:
            a, b = self.ev(ks[1], ranges), self.ev(ks[2], ranges)
            if a is None or b is None:
                return None
            f_ = min if tu.sd(n)['q'] == 'std::min' else max
            return (f_(a[0], b[0]), f_(a[1], b[1]))
        if k == 'UnaryOperator' and n.get('opcode') == '-' and ks:
            a = self.ev(ks[0], ranges)
            return None if a is None else self.fit(n, (-a[1], -a[0]))
        if k == 'UnaryOperator' and n.get('opcode') == '!' and ks:
            self.ev(ks[0], ranges)
            return (0, 1)
        if k == 'CXXBoolLiteralExpr':
            return (1, 1) if n.get('value') else (0, 0)
        if k == 'CallExpr':
            iv = self.ev_call(n, ranges)
            if iv is not None:
                sp = self.special(lin(tu, n, self.env)) if self.special else None
                if sp is not None:
                    iv = (max(iv[0], sp[0]), min(iv[1], sp[1]))
                return iv
            q_ = tu.sd(n).get('q', '')
            r_ = irange(tu.sd(n).get('ct'))
            if r_ is not None and (q_ in POSITIVE_CALLS or self.assume_positive):
                if q_ not in POSITIVE_CALLS:
                    self.unknown.append(tu.show(n))
                return (1, r_[1])
        self.unknown.append(tu.show(n))
        return irange(tu.sd(n).get('ct'))


def deinit(v):
    """entry-value atoms of a symbolic store ('init', path) rewritten as plain variable atoms ('p', path)"""
    def at(a):
        if not isinstance(a, tuple):
            return a
        if a[0] == 'init':
            return ('p', a[1])
        if a[0] in ('div', 'mod', 'mul'):
            return (a[0], deinit(a[1]), deinit(a[2]))
        if a[0] in ('min', 'max'):
            return (a[0], frozenset(deinit(x) for x in a[1]))
        if a[0] == 'cmp':
            return ('cmp', a[1], deinit(a[2]))
        if a[0] == 'ite':
            return ('ite', at(a[1]), deinit(a[2]), deinit(a[3]))
        return a
    return Lin({at(a): c for a, c in v.t.items()}, v.c)


def lin_interval(v, envi, depth=0):
    """interval of a Lin over the integers, given intervals for some atoms (None = unbounded / unknown)"""
    if depth > 8:
        return None
    lo = hi = v.c
    for a, c in v.t.items():
        iv = atom_interval(a, envi, depth + 1)
        if iv is None:
            return None
        x, y = c * iv[0], c * iv[1]
        lo += min(x, y)
        hi += max(x, y)
    return (lo, hi)


def refine_env(c, envi, truth):
    """envi with the interval of the one variable a comparison `co*var + k rel 0` speaks about narrowed to the side on
    which the comparison is `truth`; None if that side is empty; envi itself if the comparison has another shape"""
    if not isinstance(c, tuple) or c[0] != 'cmp' or len(c[2].t) != 1:
        return envi
    (var, co), = c[2].t.items()
    if var not in envi or envi[var] is None or co not in (1, -1):
        return envi
    lo, hi = envi[var]
    k = c[2].c
    rel = c[1]
    if not truth:
        rel = {'<': '>=', '<=': '>', '==': '!=', '!=': '=='}[rel]
    # co*var + k rel 0
    if co == -1:
        # -var + k rel 0  <=>  var rel' k  with the inequality mirrored
        rel = {'<': '>', '<=': '>=', '>': '<', '>=': '<=', '==': '==', '!=': '!='}[rel]
        b = k
    else:
        b = -k
    b = int(b)
    if rel == '<':
        hi = min(hi, b - 1)
    elif rel == '<=':
        hi = min(hi, b)
    elif rel == '>':
        lo = max(lo, b + 1)
    elif rel == '>=':
        lo = max(lo, b)
    elif rel == '==':
        lo, hi = max(lo, b), min(hi, b)
    else:
        if lo == b:
            lo += 1
        if hi == b:
            hi -= 1
    if lo > hi:
        return None
    e2 = dict(envi)
    e2[var] = (lo, hi)
    return e2


def atom_interval(a, envi, depth):
    if a in envi:
        return envi[a]
    if not isinstance(a, tuple):
        return None
    k = a[0]
    if k in ('div', 'mod'):
        x, d = lin_interval(a[1], envi, depth), a[2]
        if x is None or not d.is_const() or d.c <= 0:
            return None
        d = int(d.c)
        if k == 'div':
            q = lambda z: -((-z) // d) if z < 0 else z // d
            return (q(int(x[0])), q(int(x[1])))
        if x[0] >= 0:
            return (0, min(d - 1, int(x[1])))
        return (-(d - 1), d - 1 if x[1] > 0 else 0)
    if k == 'cmp':
        facts = envi.get('__facts__', ())
        if a in facts:
            return (1, 1)
        if negate_cmp(a) in facts:
            return (0, 0)
        x = lin_interval(a[2], envi, depth)
        if x is None:
            return (0, 1)
        elo, ehi = x
        t = {'<': (ehi < 0, elo >= 0), '<=': (ehi <= 0, elo > 0), '==': (elo == ehi == 0, elo > 0 or ehi < 0),
             '!=': (elo > 0 or ehi < 0, elo == ehi == 0)}[a[1]]
        return (1, 1) if t[0] else (0, 0) if t[1] else (0, 1)
    if k == 'ite':
        c = atom_interval(a[1], envi, depth)
        if c == (1, 1):
            return lin_interval(a[2], envi, depth)
        if c == (0, 0):
            return lin_interval(a[3], envi, depth)
        # undetermined: each branch is evaluated under what its side of the condition says about a single variable
        et, ef = refine_env(a[1], envi, True), refine_env(a[1], envi, False)
        x = lin_interval(a[2], et, depth) if et is not None else None
        y = lin_interval(a[3], ef, depth) if ef is not None else None
        if et is None and ef is None:
            return None
        if et is None:
            return y
        if ef is None:
            return x
        if x is None or y is None:
            return None
        return (min(x[0], y[0]), max(x[1], y[1]))
    if k == 'mul':
        x, y = lin_interval(a[1], envi, depth), lin_interval(a[2], envi, depth)
        if x is None or y is None:
            return None
        c = [x[0] * y[0], x[0] * y[1], x[1] * y[0], x[1] * y[1]]
        return (min(c), max(c))
    if k in ('min', 'max'):
        ivs = [lin_interval(m, envi, depth) for m in a[1]]
        if any(i is None for i in ivs):
            return None
        f_ = min if k == 'min' else max
        return (f_(i[0] for i in ivs), f_(i[1] for i in ivs))
    return None


def block_count_paths(tu, f, g, call, nbp, ppath, N, B, signs, signed):
    """value of the block count variable on every path from the function entry to the parallel_for call.
    Returns ([verdict per path], representative ok-verdict) or None if the paths cannot be followed."""
    pos = g.where(call['id'])
    if pos is None or g.back_edges():
        return None
    try:
        paths = sym_paths(tu, g, g.entry, {pos[0]}, Store(tu))
    except ValueError:
        return None
    paths = [st for stop, st in paths if stop == pos[0]]
    if not paths:
        return None
    Bc = Lin.const(B)
    m = Lin.atom(('mod', N, Bc))
    dv = Lin.atom(('div', N, Bc))
    verdicts = []
    okv = None
    once = local_defs(tu, [f])
    for st in paths:
        # a Boolean local that is set once cannot be true at one branch of the path and false at another
        seen_b, contradictory = {}, False
        for e_ in st.events:
            if e_[0] == 'branch':
                c_, pos_ = strip_not(tu, tu.node(e_[1]))
                p_ = access_path(tu, c_) if c_ is not None and c_.get('kind') == 'DeclRefExpr' else None
                if p_ in once:
                    t_ = e_[2] == pos_
                    if seen_b.setdefault(p_, t_) != t_:
                        contradictory = True
        if contradictory:
            continue
        v = deinit(st.read(nbp))
        conds = [('cmp', c[1], deinit(c[2])) for c in st.conds]
        # the path must not be refuted by what is known about the sign of n (guards like `if (n <= 0) return;`,
        # conditions on values computed from n): interval evaluation of every path condition per sign of n
        sg = ''
        rng_ = irange(clean_type(tu.sd(leaf(tu, tu.kids(call)[1])).get('ct'))) or (-(1 << 63), (1 << 64) - 1)
        for s_ in signs:
            lo_, hi_ = {'N': (-(1 << 63), -1), 'Z': (0, 0), 'P': (1, (1 << 64) - 1)}[s_]
            envi = {('p', ppath): (lo_, hi_), '__facts__': set(conds)}
            okp = not any(negate_cmp(c) in envi['__facts__'] for c in conds)
            for c in conds:
                iv_ = lin_interval(c[2], envi)
                if iv_ is None:
                    continue
                elo, ehi = iv_
                poss = {'<': elo < 0, '<=': elo <= 0, '==': elo <= 0 <= ehi, '!=': not (elo == ehi == 0)}[c[1]]
                if not poss:
                    okp = False
                    break
            if okp:
                sg += s_
        if not sg:
            continue
        # conditional forms:  n/B + 1 where n % B != 0 ;  n/B where n % B == 0
        has_ne = any(c[1] == '!=' and c[2] in (m, -m) for c in conds) or any(c[1] == '<' and c[2] == -m for c in conds)
        has_eq = any(c[1] == '==' and c[2] in (m, -m) for c in conds)
        r = None
        if v == dv + Lin.const(1) and has_ne and (not signed or 'N' not in sg):
            r = ('ok', 'n/B (+1 if n%B != 0)')
        elif v == dv and has_eq:
            r = ('ok', 'n/B (+1 if n%B != 0)')
        if r is None:
            r = ceil_form(v, N, B, sg, signed)
        if r is None:
            if True:
                # ceil(n/B) - k / + k on this path
                for k in (1, 2, -1, -2):
                    r2 = ceil_form(v + Lin.const(k), N, B, sg, signed)
                    if r2 is not None and r2[0] == 'ok' and 'P' in sg:
                        br = [e_ for e_ in st.events if e_[0] == 'branch']
                        named = [e_ for e_ in br if (strip_not(tu, tu.node(e_[1]))[0] or {}).get('kind') == 'DeclRefExpr']
                        why = ' and '.join('`%s` is %s' % (show(tu, tu.node(e_[1])), 'true' if e_[2] else 'false')
                                           for e_ in (named or br)[-1:])
                        if k > 0:
                            r = ('bad', 'blocks-too-few',
                                 'on the path where %s the block count is ceil(n/B) - %d: fewer blocks of at most BLOCK_SIZE items '
                                 'cannot cover [0, n) - either the last items are lost or a block is made larger than BLOCK_SIZE'
                                 % (why or 'the count is adjusted', k))
                        else:
                            r = ('bad', 'blocks-too-many',
                                 'on the path where %s the block count is ceil(n/B) + %d: the extra block starts at or beyond n'
                                 % (why or 'the count is adjusted', -k))
                        break
        if r is None:
            return None
        verdicts.append(r)
        if r[0] == 'ok' and r[1] not in ('zero', 'nonpositive'):
            okv = r
    if not verdicts:
        return None
    return verdicts, (okv or verdicts[0])


def ceil_form(NB, N, B, signs, signed):
    """classify a block-count normal form.  returns ('ok', name) | ('bad', key, text) | None"""
    # `c ? 1 : 0` is the value of the comparison c itself, `c ? 0 : 1` that of its negation
    for a_ in list(NB.t):
        if a_[0] == 'ite' and a_[1][0] == 'cmp' and a_[2].is_const() and a_[3].is_const() and {a_[2].c, a_[3].c} == {0, 1}:
            c_ = a_[1] if a_[2].c == 1 else negate_cmp(a_[1])
            if c_ is not None and c_[0] == 'cmp':
                NB = NB - Lin.atom(a_).scale(NB.t[a_]) + Lin.atom(c_).scale(NB.t[a_])
    at = NB.single_atom()
    Bc = Lin.const(B)
    if at is not None and at[0] == 'ite':
        _, c, x, y = at
        # condition must speak about n only
        d = c[2]
        if set(d.t) == set(N.t):
            co = list(d.t.values())[0]
            res = {}
            for s, (lo, hi) in SIGN_IV.items():
                vals = [float(co) * lo + float(d.c), float(co) * hi + float(d.c)]
                elo, ehi = min(vals), max(vals)
                rel = c[1]
                if rel == '<':
                    t = {True} if ehi < 0 else {False} if elo >= 0 else {True, False}
                elif rel == '<=':
                    t = {True} if ehi <= 0 else {False} if elo > 0 else {True, False}
                elif rel == '==':
                    t = {True} if elo == ehi == 0 else {False} if (elo > 0 or ehi < 0) else {True, False}
                else:
                    t = {False} if elo == ehi == 0 else {True} if (elo > 0 or ehi < 0) else {True, False}
                res[s] = t
            st = ''.join(s for s in signs if True in res[s])
            sf = ''.join(s for s in signs if False in res[s])
            outs = []
            for br, sg in ((x, st), (y, sf)):
                if not sg:
                    continue
                if br.is_const():
                    if br.c == 0 and 'P' not in sg:
                        outs.append(('ok', 'zero'))
                    elif br.c == 0:
                        outs.append(('bad', 'blocks-zero-for-positive', 'the block count is 0 for some positive n'))
                    elif 'P' in sg or br.c > 0:
                        outs.append(('bad', 'blocks-constant', 'the block count is the constant %d on a branch' % br.c))
                    else:
                        outs.append(('ok', 'nonpositive'))
                else:
                    outs.append(ceil_form(br, N, B, sg, signed))
            if any(o is None for o in outs):
                return None
            b_ = [o for o in outs if o[0] == 'bad']
            if b_:
                return b_[0]
            names = [o[1] for o in outs if o[1] not in ('zero', 'nonpositive')]
            return ('ok', names[0] if names else 'zero')
        return None
    if at is not None and at[0] == 'div' and at[2] == Bc:
        num = at[1]
        d = num - N
        if d.is_const():
            if d.c == B - 1:
                return ('ok', '(n+B-1)/B')
            if d.c == 0:
                return ('bad', 'blocks-floor', 'the block count is n / B (rounded down): the last n % B indices belong to no block')
            return ('bad', 'blocks-rounding', 'the block count is (n %+d) / B; ceil(n/B) needs (n + B - 1) / B' % d.c)
        return None
    # n/B + [n%B != 0]   and   (n-1)/B + 1
    if len(NB.t) == 2 and NB.c == 0:
        divs = [a for a in NB.t if a[0] == 'div' and a[1] == N and a[2] == Bc and NB.t[a] == 1]
        cmps = [a for a in NB.t if a[0] == 'cmp' and NB.t[a] == 1]
        if divs and cmps:
            c = cmps[0]
            m = Lin.atom(('mod', N, Bc))
            if c[1] == '!=' and c[2] in (m, -m):
                if signed and 'N' in signs:
                    return ('bad', 'blocks-negative-count', 'the block count n / B + (n % B != 0) is used without excluding n < 0: division '
                            'truncates toward zero and % keeps the sign of n, so for -B < n < 0 it is 0 + 1 = 1 block - block 0 is '
                            'invoked (with [0, B)) for a negative count, which must invoke nothing; the form is ceil(n/B) only for n >= 0')
                return ('ok', 'n/B+(n%B!=0)')
            if c[1] == '<' and c[2] == -m:
                return ('ok', 'n/B+(n%B>0)')
            return None
    if len(NB.t) == 1 and NB.c == 1:
        a = list(NB.t)[0]
        if a[0] == 'div' and NB.t[a] == 1 and a[2] == Bc and a[1] == N - Lin.const(1):
            if set(signs) - {'P'}:
                return ('bad', 'blocks-zero-count', '(n - 1) / B + 1 is used without excluding n <= 0: for n == 0 it yields %s'
                        % ('1 block' if signed else 'about max/B blocks (n - 1 wraps)'))
            return ('ok', '(n-1)/B+1')
    if len(NB.t) == 1 and NB.c != 0:
        a = list(NB.t)[0]
        if a[0] == 'div' and a[2] == Bc and (a[1] - N).is_const():
            return ('bad', 'blocks-rounding', 'the block count is `%r`, which is not ceil(n/B)' % NB)
    if NB == N:
        return ('bad', 'blocks-floor', 'the block count is n itself: blocks beyond ceil(n/B) start past the end')
    return None


def callable_of(tu, e):
    """(operator() function, captures) for the callable handed to parallel_for: a lambda, or a temporary of a class with
    exactly one operator() built by aggregate initialisation / a member-wise constructor.  captures maps ('this', field) to
    the access path of the expression the field was initialised from (lambda captures need no mapping)."""
    n = leaf(tu, e)
    if n is not None and n.get('kind') == 'DeclRefExpr':
        # a local variable that holds the function object: its initialiser is the construction
        vd = tu.node(n.get('referencedDecl', {}).get('id'))
        if vd is not None and vd.get('kind') == 'VarDecl' and tu.enclosing_fn(vd) is not None and tu.kids(vd) and \
                not (vd.get('type') or {}).get('qualType', '').rstrip().endswith('&'):
            n = leaf(tu, tu.kids(vd)[0])
    hops = 0
    while n is not None and n.get('kind') in ('CXXFunctionalCastExpr', 'CXXBindTemporaryExpr', 'CXXTemporaryObjectExpr') \
            and tu.kids(n) and hops < 4 and n.get('kind') != 'CXXTemporaryObjectExpr':
        n = leaf(tu, tu.kids(n)[-1])
        hops += 1
    if n is None:
        return None, None
    if n.get('kind') == 'LambdaExpr':
        return tu.functions.get(tu.sd(n).get('op')), {}
    ct = (tu.sd(n).get('ct') or '').strip()
    if ct.startswith('const '):
        ct = ct[6:]
    ct = ct.rstrip('&').strip()
    rec = tu.records_by_type.get(ct) if ct else None
    if rec is None:
        return None, None
    ops = [f_ for f_ in tu.functions.values() if f_.get('recid') == rec['id'] and f_['q'].endswith('::operator()') and not f_['dep']]
    if len(ops) != 1:
        return None, None
    caps = {}
    if n.get('kind') == 'InitListExpr':
        inits = tu.kids(n)
        if len(inits) != len(rec['fields']):
            return None, None
        for fl, ie in zip(rec['fields'], inits):
            caps[('this', fl['name'])] = obj_path(tu, ie)
    elif n.get('kind') in ('CXXConstructExpr', 'CXXTemporaryObjectExpr'):
        ctor = tu.callee_fn(n)
        cg = tu.cfg(ctor) if ctor is not None else None
        if cg is None:
            return None, None
        args = tu.kids(n)
        pmap = {param_path(p_): obj_path(tu, a_) for p_, a_ in zip(ctor['params'], args)}
        for blk, i, el in cg.elements():
            if el[0] == 'I' and el[3] != '<base>':
                src = obj_path(tu, tu.node(el[1])) if tu.node(el[1]) is not None else None
                caps[('this', el[3])] = pmap.get(src)
    else:
        return None, None
    if any(v is None for v in caps.values()):
        return None, None
    return ops[0], caps


def is_reference_param(p):
    return (p.get('ct') or '').rstrip().endswith('&')


def refs_inside(tu, fn, declid):
    """references to a declaration inside the body of fn (a lambda's operator() / a function object's operator())"""
    b = tu.body(fn)
    return [n for n in (tu.walk(b) if b is not None else []) if n.get('kind') == 'DeclRefExpr' and
            n.get('referencedDecl', {}).get('id') == declid]


def smallest_n(pred, M):
    """smallest x in [1, M] with pred(x), for a predicate that is monotone in x (M if none is found)"""
    lo_, hi_ = 1, M
    if not pred(hi_):
        return M
    while lo_ < hi_:
        mid = (lo_ + hi_) // 2
        if pred(mid):
            hi_ = mid
        else:
            lo_ = mid + 1
    return lo_


def check_blocks(ctx, tu, cfgname):
    R = 'R-C01-4'
    n_inst = 0
    for f in tu.fns(q=BLOCKS, dep=False):
        g = tu.cfg(f)
        ta = f.get('targs') or []
        if g is None or len(ta) < 2 or len(f['params']) != 2:
            continue
        n_inst += 1
        try:
            B = int(ta[0])
        except ValueError:
            ctx.undecided(R, 'parallel_in_blocks_of', 'block size template argument `%s`' % ta[0], tu.fn_loc(f))
            continue
        inst = '[%s] parallel_in_blocks_of<%s, %s>' % (cfgname, ta[0], ta[1])
        loc = tu.fn_loc(f)
        key = lambda d: '%s|%s|parallel_in_blocks_of|%s' % (R, tu.fn_file(f), d)
        pn, pf = f['params']
        ppath, fpath = param_path(pn), param_path(pf)
        nct = clean_type(pn['ct'])
        rng = irange(nct)
        if rng is None or B <= 0:
            ctx.undecided(R, inst, 'index type %s / block size %d' % (nct, B), loc)
            continue
        M = rng[1]
        signed = is_signed(nct)
        ro = readonly_param(tu, f, pn)
        if ro:
            ctx.undecided(R, inst, ro, loc)
            continue
        # the parallel_for call and its lambda
        calls = [n for b, i, n in g.stmts() if n.get('kind') in CALLS and tu.sd(n).get('q') == PFOR]
        if len(calls) != 1:
            ctx.undecided(R, inst, '%d calls of parallel_for (expected one)' % len(calls), loc)
            continue
        call = calls[0]
        s, obj, args = call_args(tu, call)
        lam = leaf(tu, args[1]) if len(args) == 2 else None
        lamf = tu.functions.get(tu.sd(lam).get('op')) if lam is not None and lam.get('kind') == 'LambdaExpr' else None
        if lamf is None or tu.cfg(lamf) is None or len(lamf['params']) != 1:
            ctx.undecided(R, inst, 'second argument of parallel_for is not a lambda taking the block index', loc)
            continue
        defs = local_defs(tu, [f, lamf])
        env = make_env(tu, defs)
        und = []
        # the blocks must be cut against the count the function was called with: the per-block body runs while the user's
        # code runs, so it may only read a private copy of the count (by-value parameter or a local), never the caller's object
        shared_reads = refs_inside(tu, lamf, pn['id']) if is_reference_param(pn) else []
        if shared_reads:
            ctx.violation(R, inst, 'the count is a reference parameter (`%s %s`) and the per-block body re-reads it at %s while the '
                          'loop is running: it is the caller\'s object, so when the user function (or anything it triggers) changes '
                          'that variable, later blocks are cut against the new value - blocks run past the original n or indices are '
                          'never run. Take the count by value or copy it before the loop'
                          % (pn['ct'], pn['name'], tu.loc(shared_reads[0])), loc, key=key('count-by-reference'))

        def truth_fn(cond):
            """truth of a comparison per sign of n, by interval evaluation (locals and helpers followed)"""
            c = leaf(tu, cond)
            neg = False
            while c is not None and c.get('kind') == 'UnaryOperator' and c.get('opcode') == '!':
                neg = not neg
                c = leaf(tu, tu.kids(c)[0])
            if c is None or c.get('kind') != 'BinaryOperator' or c.get('opcode') not in ('<', '<=', '>', '>=', '==', '!='):
                return None
            out = {}
            for sg in 'NZP':
                lo_, hi_ = {'N': (rng[0], -1), 'Z': (0, 0), 'P': (1, M)}[sg]
                if lo_ > hi_:
                    out[sg] = {True, False}
                    continue
                iv_ = Ival(tu, {ppath: (lo_, hi_)}, defs, None)
                a_, b_ = iv_.ev(tu.kids(c)[0]), iv_.ev(tu.kids(c)[1])
                if a_ is None or b_ is None or iv_.unknown:
                    return None
                op = c['opcode']
                if op in ('>', '>='):
                    a_, b_ = b_, a_
                    op = '<' if op == '>' else '<='
                if op == '<':
                    t = {True} if a_[1] < b_[0] else {False} if a_[0] >= b_[1] else {True, False}
                elif op == '<=':
                    t = {True} if a_[1] <= b_[0] else {False} if a_[0] > b_[1] else {True, False}
                else:
                    eq = {True} if a_[0] == a_[1] == b_[0] == b_[1] else {False} if (a_[1] < b_[0] or b_[1] < a_[0]) else {True, False}
                    t = eq if op == '==' else {not x for x in eq}
                out[sg] = {(not x) for x in t} if neg else t
            return out
        exits, seen = count_paths(tu, g, {call['id']: 'pfor'}, ppath, signs_of_type(nct), truth_fn)
        bad = [(k, t.replace('hands the range to the backend', 'calls parallel_for')) for k, t in once_verdict(exits, und)]
        signs = ''.join(s_ for s_ in 'NZP' if s_ in seen.get(call['id'], ()))
        N = Lin.atom(('p', ppath))
        bp = param_path(lamf['params'][0])
        Bl = Lin.atom(('p', bp))
        NB = lin(tu, args[0], env)
        cf = ceil_form(NB, N, B, signs, signed)
        nbp = access_path(tu, args[0])
        if cf is None and nbp is not None and len(nbp) == 3 and nbp not in defs:
            # the block count lives in a local that is assigned more than once (`if (...) ++numBlocks;`): follow the paths
            # to the call and decide the value on each of them under its path conditions
            pr_ = block_count_paths(tu, f, g, call, nbp, ppath, N, B, signs, signed)
            if pr_ is not None:
                verdicts, cf = pr_
                vb = [v for v in verdicts if v[0] == 'bad']
                if vb:
                    for v in vb:
                        ctx.violation(R, inst, v[2], loc, key=key(v[1]))
                    continue
        if cf is None:
            und.append('block count `%r` is not a recognised form of ceil(n/B)' % NB)
        elif cf[0] == 'bad':
            bad.append((cf[1], cf[2]))
        # ---- wrap-around of the block count computation
        lo = rng[0] if 'N' in signs else (0 if 'Z' in signs else 1)
        iv = Ival(tu, {ppath: (lo, M)}, defs, None)
        iv.ev(args[0])

        def count_wraps(nhi):
            iv_ = Ival(tu, {ppath: (min(lo, nhi), nhi)}, defs, None)
            iv_.ev(args[0])
            return {w_[0]['id'] for w_ in iv_.wraps}
        for wn, wiv, wt in iv.wraps:
            thr = smallest_n(lambda x: wn['id'] in count_wraps(x), M)
            bad.append(('blocks-wrap', 'computing the block count, `%s` can reach %d, beyond the range of its type %s '
                        '(for counts n >= %d): the block count wraps (unsigned) or overflows (signed) and indices near the end are never run'
                        % (show(tu, wn), wiv[1], wt, thr)))
        # ---- the lambda: begin / end / fcn(begin, end)
        lg = tu.cfg(lamf)
        fcalls = []
        for b, i, n in lg.stmts():
            if n.get('kind') in CALLS:
                s2, obj2, args2 = call_args(tu, n)
                if obj2 is not None and obj_path(tu, obj2) == fpath and s2.get('q', '').endswith('operator()'):
                    fcalls.append((n, args2))
        if len(fcalls) != 1 or len(fcalls[0][1]) != 2:
            und.append('the block lambda does not contain exactly one call fcn(begin, end)')
        else:
            fc, fa = fcalls[0]
            ex2, _ = count_paths(tu, lg, {fc['id']: 'fcn'}, None, 'P')
            for k, t in once_verdict(ex2):
                bad.append(('block-' + k, t.replace('hands the range to the backend', 'calls the block functor')
                            .replace(' although the count can be positive', '')))
            BEG = lin(tu, fa[0], env)
            END = lin(tu, fa[1], env)
            want_b = Bl.scale(B)
            if BEG != want_b:
                if (BEG - want_b).is_const() or set(BEG.t) == {('p', bp)}:
                    bad.append(('begin', 'block begin is `%r` instead of blockID * %d' % (BEG, B)))
                else:
                    und.append('block begin `%r` is not recognised' % BEG)
            e1 = Lin.atom(('min', frozenset((want_b + Lin.const(B), N))))
            e2 = want_b + Lin.atom(('min', frozenset((Lin.const(B), N - want_b))))
            if END not in (e1, e2):
                at = END.single_atom()
                rest_min = [a for a in END.t if a[0] in ('min', 'max')]
                if at is not None and at[0] == 'max':
                    bad.append(('end', 'block end is `%r`: max instead of min, every block runs to at least n' % END))
                elif at is not None and at[0] == 'min' and N in at[1]:
                    other = [x for x in at[1] if x != N]
                    if other and (other[0] - want_b).is_const():
                        bad.append(('end', 'block end is `%r`: blocks have length %d instead of %d (indices are run twice or never)'
                                    % (END, (other[0] - want_b).c, B)))
                    else:
                        und.append('block end `%r` is not recognised' % END)
                elif at is not None and at[0] == 'ite' and N in (at[2], at[3]) and \
                        ((at[3] if at[2] == N else at[2]) - want_b).is_const():
                    other = at[3] if at[2] == N else at[2]
                    if (other - want_b).c != B:
                        bad.append(('end', 'block end is `%r`: blocks have length %d instead of %d (indices are run twice or never)'
                                    % (END, (other - want_b).c, B)))
                    else:
                        bad.append(('end', 'block end `%r` selects between begin + B and n with the wrong condition' % END))
                elif not rest_min and (END - want_b).is_const():
                    bad.append(('end', 'block end is `%r`: not clamped to n, the last block runs indices beyond the count' % END))
                else:
                    und.append('block end `%r` is not recognised as min(begin + B, n)' % END)
            # wrap-around inside the lambda
            if cf is not None and cf[0] == 'ok' and not und:
                def lambda_wraps(nhi):
                    """(wrapped nodes, how many of them belong to the computation of the block begin) for counts 1..nhi"""
                    maxb = (nhi - 1) // B
                    maxbegin = maxb * B

                    def special(L):
                        if L == N - want_b:
                            return (1, nhi)
                        if L == want_b:
                            return (0, maxbegin)
                        if L in (e1, e2):
                            return (1, nhi)      # min(begin + B, n) == begin + min(B, n - begin) <= n
                        return None
                    beg_paths = {p: (0, maxbegin) for p, e in defs.items() if lin(tu, e, env) == want_b and p[0] == 'v'}
                    rr = {ppath: (1, nhi), bp: (0, maxb)}
                    rr.update(beg_paths)
                    iv_ = Ival(tu, rr, defs, special, N, nhi)
                    for p_, e_ in defs.items():
                        if p_ in beg_paths:
                            iv_.ev(e_)
                    iv_.ev(fa[0])
                    nb = len(iv_.wraps)
                    iv_.ev(fa[1])
                    return iv_.wraps, nb
                wraps2, nbeg = lambda_wraps(M)
                begin_ids = {w_[0]['id'] for w_ in wraps2[:nbeg]}
                seenw = set()
                for wn, wiv, wt in wraps2:
                    if wn['id'] in seenw:
                        continue
                    seenw.add(wn['id'])
                    if wiv[0] == wiv[1] and wn.get('kind') in ('CStyleCastExpr', 'CXXStaticCastExpr', 'CXXFunctionalCastExpr',
                                                                 'ImplicitCastExpr') and const_value(tu, tu.kids(wn)[-1]) is not None:
                        bad.append(('block-size-truncated',
                                    'the block size %d is converted to the index type by `%s`, but %s only holds values up to %d: the '
                                    'conversion yields %s, so block begin / end are computed with a wrong block size (for BLOCK_SIZE == '
                                    'max+1 it is 0: every block is [0, 0) and no index is ever run)'
                                    % (wiv[0], '(%s)%s' % (wt, show(tu, tu.kids(wn)[-1])), wt, irange(wt)[1], tu.sd(wn).get('cv', '?'))))
                        continue
                    thr = smallest_n(lambda x: wn['id'] in {w_[0]['id'] for w_ in lambda_wraps(x)[0]}, M)
                    if wn['id'] in begin_ids:
                        bad.append(('begin-wrap', 'computing the block begin, `%s` can reach %d, beyond the range of its type %s (for '
                                    'counts n >= %d): the begin of the later blocks wraps (unsigned) or overflows (signed), so they run '
                                    'indices other than their own' % (show(tu, wn), wiv[1], wt, thr)))
                    else:
                        bad.append(('end-wrap', 'in the last block `%s` can reach %d, beyond the range of its type %s (for counts '
                                    'n >= %d): the block end wraps below its begin (unsigned) or overflows (signed) and the last indices '
                                    'are never run' % (show(tu, wn), wiv[1], wt, thr)))
        if obj_path(tu, args[1]) is not None:
            pass
        for u in sorted(set(und)):
            ctx.undecided(R, inst, u, loc)
        for k, t in ([] if und else sorted(set(bad))):
            ctx.violation(R, inst, t, loc, key=key(k))
        if not und and not bad:
            ctx.ok(R, inst, 'numBlocks = %s, begin = b*%d, end = min(begin+%d, n); no intermediate leaves its type' % (cf[1], B, B), loc)
    return n_inst


# =====================================================================================================
#  R-C01-5 parallel_foreach
# =====================================================================================================
def contiguous_iterator(ct):
    t = clean_type(ct) or ''
    if t.endswith('*'):
        return True
    if re.match(r'^__gnu_cxx::__normal_iterator<[^,]*\*\s*,', t):
        return True
    if re.match(r'^std::__wrap_iter<[^,>]*\*\s*>', t):
        return True
    return False


def deref_of(tu, e):
    """access path X if e is `*X` (built-in or iterator operator*) or `X[0]`"""
    n = leaf(tu, e)
    if n is None:
        return None
    k = n.get('kind')
    ks = tu.kids(n)
    if k == 'UnaryOperator' and n.get('opcode') == '*':
        return access_path(tu, ks[0])
    if k == 'CXXOperatorCallExpr':
        s, obj, args = call_args(tu, n)
        nm = s.get('q', '').split('::')[-1]
        if nm == 'operator*' and obj is not None and not args:
            return access_path(tu, obj)
        if nm == 'operator[]' and obj is not None and len(args) == 1 and const_value(tu, args[0]) == 0:
            return access_path(tu, obj)
    if k == 'ArraySubscriptExpr' and const_value(tu, ks[1]) == 0:
        return access_path(tu, ks[0])
    return None


def pointer_form(tu, e, defs, depth=0):
    """('iter', path) | ('addr', path-of-iterator) | None"""
    n = leaf(tu, e)
    if n is None or depth > 4:
        return None
    k = n.get('kind')
    if k == 'CXXConstructExpr' and len(tu.kids(n)) == 1:
        return pointer_form(tu, tu.kids(n)[0], defs, depth + 1)
    if k == 'UnaryOperator' and n.get('opcode') == '&':
        d = deref_of(tu, tu.kids(n)[0])
        return ('addr', d) if d else None
    if k == 'CallExpr' and tu.sd(n).get('q') in ('std::addressof', 'std::__addressof') and len(tu.kids(n)) == 2:
        d = deref_of(tu, tu.kids(n)[1])
        return ('addr', d) if d else None
    if k in ('DeclRefExpr', 'MemberExpr'):
        p = access_path(tu, n)
        if p in defs:
            return pointer_form(tu, defs[p], defs, depth + 1)
        return ('iter', p)
    return None


def element_form(tu, e, defs):
    """(pointer_form of the base, Lin of the index) for v[i], *(v + i), it[i], *(it + i)"""
    n = leaf(tu, e)
    if n is None:
        return None
    k = n.get('kind')
    ks = tu.kids(n)
    if k == 'ArraySubscriptExpr':
        return pointer_form(tu, ks[0], defs), lin(tu, ks[1])
    if k == 'CXXOperatorCallExpr':
        s, obj, args = call_args(tu, n)
        nm = s.get('q', '').split('::')[-1]
        if nm == 'operator[]' and obj is not None and len(args) == 1:
            return pointer_form(tu, obj, defs), lin(tu, args[0])
        if nm == 'operator*' and obj is not None and not args:
            return _plus_form(tu, obj, defs)
    if k == 'UnaryOperator' and n.get('opcode') == '*':
        return _plus_form(tu, ks[0], defs)
    return None


def _plus_form(tu, e, defs):
    n = leaf(tu, e)
    hops = 0
    while n is not None and n.get('kind') in ('CXXConstructExpr', 'MaterializeTemporaryExpr', 'CXXBindTemporaryExpr') and \
            len(tu.kids(n)) == 1 and hops < 4:
        n = leaf(tu, tu.kids(n)[0])          # a class-type iterator passed by value: copy of the temporary
        hops += 1
    if n is None:
        return None
    ks = tu.kids(n)
    if n.get('kind') == 'BinaryOperator' and n.get('opcode') == '+':
        for a, b in ((ks[0], ks[1]), (ks[1], ks[0])):
            if irange(tu.sd(leaf(tu, b)).get('ct')) is not None or irange(tu.sd(b).get('ct')) is not None:
                pf = pointer_form(tu, a, defs)
                if pf:
                    return pf, lin(tu, b)
    if n.get('kind') == 'CXXOperatorCallExpr' and tu.sd(n).get('q', '').split('::')[-1] == 'operator+':
        s, obj, args = call_args(tu, n)
        if obj is not None and len(args) == 1:
            return pointer_form(tu, obj, defs), lin(tu, args[0])
        if obj is None and len(args) == 2:
            return pointer_form(tu, args[0], defs), lin(tu, args[1])
    pf = pointer_form(tu, e, defs)
    return (pf, Lin.const(0)) if pf else None


def via_local(tu, e, defs):
    """' (through the local `v` = <initialiser>)' when the element base is a local pointer, for the diagnostic"""
    n = leaf(tu, e)
    if n is not None and n.get('kind') in ('ArraySubscriptExpr',) and tu.kids(n):
        p = access_path(tu, tu.kids(n)[0])
        if p in defs:
            return ' (through the local `%s` = %s at %s)' % (p[2], tu.show(defs[p]), tu.loc(defs[p]))
    if n is not None and n.get('kind') == 'UnaryOperator' and tu.kids(n):
        for x in tu.walk(n):
            if x.get('kind') == 'DeclRefExpr':
                p = access_path(tu, x)
                if p in defs and p[0] == 'v' and not irange(tu.sd(x).get('ct')):
                    return ' (through the local `%s` = %s at %s)' % (p[2], tu.show(defs[p]), tu.loc(defs[p]))
    return ''


def arg_path(tu, e):
    """access path of an argument expression, also through the copy construction of a class-type argument"""
    return access_path(tu, e) or struct_source(tu, e)


def foreach_block_form(ctx, tu, f, g, call, bpath, epath, fpath, itype, inst, loc, file, key):
    """parallel_foreach through parallel_in_blocks_of(count, [&](first, last) {...}): the block body must apply the caller's
    function object - by reference - to every element of [begin + first, begin + last) exactly once."""
    R = 'R-C01-5'
    s, obj, args = call_args(tu, call)
    lamf, caps = callable_of(tu, args[1]) if len(args) == 2 else (None, None)
    if lamf is None or caps or tu.cfg(lamf) is None or len(lamf['params']) != 2:
        ctx.undecided(R, inst, 'second argument of parallel_in_blocks_of is not a lambda taking (first, last)', loc)
        return
    und, bad = [], []
    defs = local_defs(tu, [f, lamf])
    env = make_env(tu, defs)
    ex, _ = count_paths(tu, g, {call['id']: 1}, None, 'P')
    if once_verdict(ex):
        und.append('parallel_in_blocks_of is not called exactly once on every path')
    CNT = lin(tu, args[0], env)
    Bp, Ep = Lin.atom(('p', bpath)), Lin.atom(('p', epath))
    want = Lin.atom(('call', 'std::distance', (Bp, Ep)))
    if CNT not in (want, Ep - Bp):
        if (CNT - want).is_const() or CNT == Lin.atom(('call', 'std::distance', (Ep, Bp))):
            bad.append(('count', 'the count is `%r` instead of distance(begin, end)' % CNT))
        else:
            und.append('count `%r` is not recognised as distance(begin, end)' % CNT)
    lg = tu.cfg(lamf)
    fp_, lp_ = param_path(lamf['params'][0]), param_path(lamf['params'][1])
    F_, L_ = Lin.atom(('p', fp_)), Lin.atom(('p', lp_))
    fe = [n for b, i, n in lg.stmts() if n.get('kind') in CALLS and tu.sd(n).get('q') == 'std::for_each']
    direct = []
    for b, i, n in lg.stmts():
        if n.get('kind') in CALLS:
            s2, obj2, args2 = call_args(tu, n)
            if obj2 is not None and obj_path(tu, obj2) == fpath and s2.get('q', '').endswith('operator()'):
                direct.append((n, args2))
    if len(fe) == 1 and not direct:
        c = fe[0]
        a = tu.kids(c)[1:]
        ex2, _ = count_paths(tu, lg, {c['id']: 1}, None, 'P')
        if once_verdict(ex2):
            bad.append(('element-once', 'std::for_each is not called exactly once per block'))
        if len(a) != 3:
            und.append('std::for_each is called with %d arguments' % len(a))
        else:
            for which, expr, wantidx in (('first', a[0], F_), ('last', a[1], L_)):
                pf_ = _plus_form(tu, expr, defs)
                if pf_ is None or pf_[0] is None:
                    und.append('%s iterator `%s` of std::for_each is not recognised' % (which, tu.show(expr)))
                    continue
                (kind, base), idx = pf_
                if base != bpath or kind != 'iter':
                    und.append('%s iterator of std::for_each is not based on `begin`' % which)
                elif idx != wantidx:
                    if (idx - wantidx).is_const():
                        bad.append(('element-index', 'std::for_each walks from/to `begin + %r` instead of `begin + %r`: elements are '
                                    'skipped or visited twice' % (idx, wantidx)))
                    else:
                        und.append('%s iterator offset `%r` is not the block bound' % (which, idx))
            # the function object argument: std::for_each takes it BY VALUE
            fa = leaf(tu, a[2])
            x = fa
            hops = 0
            while x is not None and x.get('kind') in ('CXXConstructExpr', 'MaterializeTemporaryExpr', 'CXXBindTemporaryExpr') and \
                    len(tu.kids(x)) == 1 and hops < 4:
                x = leaf(tu, tu.kids(x)[0])
                hops += 1
            q_ = tu.sd(x).get('q', '') if x is not None and x.get('kind') in CALLS else ''
            if q_ in ('std::ref', 'std::cref') and len(tu.kids(x)) == 2 and ref_target(tu, tu.kids(x)[1]) == fpath:
                pass          # reference_wrapper: copies of the wrapper all call the caller's object
            elif obj_path(tu, a[2]) == fpath or (x is not None and obj_path(tu, x) == fpath):
                how = 'std::forward / std::move' if q_ in ('std::forward', 'std::move') or \
                    tu.sd(leaf(tu, tu.kids(x)[0]) if x is not None and tu.kids(x) else None).get('q', '') in ('std::forward', 'std::move') \
                    else 'a copy'
                bad.append(('functor-copied-per-block',
                            'every block hands the function object `%s` to std::for_each, which takes it by value (%s): each block '
                            'works on its own copy - what the invocations store in the function object never reaches the caller, and an '
                            'rvalue function object is moved from by the first block, so all other blocks call a moved-from husk; pass '
                            'std::ref(f) or call f in a loop' % (fpath[2], how)))
            else:
                und.append('function argument `%s` of std::for_each is not recognised' % tu.show(a[2]))
    elif direct and not fe:
        li = analyse_counting_loop(tu, lamf, lg, {fpath}, F_, L_, allow_ne=True)
        if li is None:
            und.append('the block body neither loops over [first, last) nor calls std::for_each')
        else:
            und += li.undecided
            for k_, t_, n_ in ([] if li.undecided else li.problems):
                bad.append(('element-' + k_, t_))
            und.append('element access in a counting block loop is not analysed') if False else None
            # element expression: f(begin[i]) with i the loop index
            ipath_ = li.ivar
            fc = [d_ for d_ in direct]
            if len(fc) == 1 and len(fc[0][1]) == 1 and not li.undecided:
                # the loop calls f(<element>) - the loop analysis looked for f(i); accept f(begin[i]) here
                pass
            und.append('block body with an explicit element loop is not a recognised form yet')
    else:
        und.append('the block body is not a single std::for_each over the block / a loop calling the function object')
    for u in sorted(set(x_ for x_ in und if x_)):
        ctx.undecided(R, inst, u, loc)
    for k_, t_ in ([] if [x_ for x_ in und if x_] else sorted(set(bad))):
        ctx.violation(R, inst, t_, loc, key=key(k_))
    if not bad and not [x_ for x_ in und if x_]:
        ctx.ok(R, inst, 'blocks of [0, distance(begin, end)): std::for_each(begin + first, begin + last, std::ref(f))', loc)


def check_foreach(ctx, tu, cfgname):
    R = 'R-C01-5'
    n_it = n_ct = 0
    for f in tu.fns(q=FOREACH, dep=False):
        g = tu.cfg(f)
        if g is None:
            continue
        loc = tu.fn_loc(f)
        file = tu.fn_file(f)
        key = lambda d: '%s|%s|parallel_foreach|%s' % (R, file, d)
        if len(f['params']) == 2:
            n_ct += 1
            inst = '[%s] parallel_foreach<%s> (container)' % (cfgname, short_type(f))
            pc, pf = f['params']
            cpath, fpath = param_path(pc), param_path(pf)
            calls = [n for b, i, n in g.stmts() if n.get('kind') in CALLS and tu.sd(n).get('q') == FOREACH]
            if len(calls) != 1:
                ctx.violation(R, inst, 'the container overload calls the iterator overload %d times (expected once)' % len(calls), loc,
                              key=key('container-once'))
                continue
            s, obj, args = call_args(tu, calls[0])
            ok = len(args) == 3
            names = []
            for a_ in args[:2]:
                c = leaf(tu, a_)
                while c is not None and c.get('kind') == 'CXXConstructExpr' and len(tu.kids(c)) == 1:
                    c = leaf(tu, tu.kids(c)[0])
                if c is not None and c.get('kind') in CALLS:
                    s2, obj2, args2 = call_args(tu, c)
                    tgt = obj2 if obj2 is not None else (args2[0] if args2 else None)
                    names.append((s2.get('q', '').split('::')[-1], access_path(tu, tgt) if tgt is not None else None))
                else:
                    names.append((None, None))
            exits, _ = count_paths(tu, g, {calls[0]['id']: 1}, None, 'P')
            pr = once_verdict(exits)
            if not ok or any(p != cpath for _, p in names) or obj_path(tu, args[2]) != fpath:
                ctx.undecided(R, inst, 'arguments of the forwarded call are not (begin(c), end(c), f)', loc)
            elif [x for x, _ in names] not in (['begin', 'end'], ['cbegin', 'cend']):
                ctx.violation(R, inst, 'the container overload forwards (%s(c), %s(c)) instead of (begin(c), end(c))'
                              % (names[0][0], names[1][0]), tu.loc(calls[0]), key=key('container-range'))
            elif pr:
                ctx.violation(R, inst, 'the iterator overload is not called exactly once on every path', loc, key=key('container-once'))
            else:
                ctx.ok(R, inst, 'forwards (begin(c), end(c), f) once', loc)
            continue
        if len(f['params']) != 3:
            continue
        n_it += 1
        pb, pe, pf = f['params']
        bpath, epath, fpath = param_path(pb), param_path(pe), param_path(pf)
        itype = clean_type(pb['ct'])
        inst = '[%s] parallel_foreach<%s>' % (cfgname, itype)
        calls = [n for b, i, n in g.stmts() if n.get('kind') in CALLS and tu.sd(n).get('q') == PFOR]
        amap = {}           # parameter of a dispatch helper -> the caller's argument expression
        holder, outer_call = f, None
        if not calls:
            # the loop may live in a helper of the analysed tree that is handed the iterator and the functor
            hs = []
            for b, i, n in g.stmts():
                if n.get('kind') not in CALLS:
                    continue
                cf_ = inlinable(tu, n)
                s_, o_, a_ = call_args(tu, n)
                if cf_ is not None and not cf_['dep'] and len(cf_.get('params', [])) == len(a_) and \
                        any(arg_path(tu, x) == bpath for x in a_) and any(obj_path(tu, x) == fpath for x in a_):
                    hs.append((n, cf_, a_))
            if len(hs) == 1:
                outer_call, holder, a_ = hs[0]
                amap = {param_path(p_): x for p_, x in zip(holder['params'], a_)}
                calls = [n for b, i, n in tu.cfg(holder).stmts() if n.get('kind') in CALLS and tu.sd(n).get('q') == PFOR]
        if not calls:
            bcalls = [n for b, i, n in tu.cfg(holder).stmts() if n.get('kind') in CALLS and tu.sd(n).get('q') == BLOCKS]
            if len(bcalls) == 1:
                foreach_block_form(ctx, tu, f, g, bcalls[0], bpath, epath, fpath, itype, inst, loc, file, key)
                continue
        if len(calls) != 1:
            ctx.undecided(R, inst, '%d calls of parallel_for (expected one)' % len(calls), loc)
            continue
        call = calls[0]
        s, obj, args = call_args(tu, call)
        lamf, caps = callable_of(tu, args[1]) if len(args) == 2 else (None, None)
        if lamf is None or tu.cfg(lamf) is None or len(lamf['params']) != 1:
            ctx.undecided(R, inst, 'second argument of parallel_for is not a lambda / function object taking the index', loc)
            continue

        def rp(p_):
            """a path inside the callable / the helper, expressed in terms of parallel_foreach's own parameters"""
            if p_ is None:
                return None
            p_ = caps.get(p_, p_)
            hops_ = 0
            while p_ in amap and hops_ < 4:
                q_ = obj_path(tu, amap[p_]) or arg_path(tu, amap[p_])
                if q_ is None:
                    break
                p_ = q_
                hops_ += 1
            return p_

        def through(e_):
            """follow helper parameters to the caller's argument expression"""
            hops_ = 0
            while hops_ < 4:
                q_ = access_path(tu, e_)
                if q_ in amap:
                    e_ = amap[q_]
                    hops_ += 1
                else:
                    break
            return e_
        defs = local_defs(tu, [f, lamf] + ([holder] if holder is not f else []))
        und, bad = [], []
        if holder is not f:
            ex_h, _ = count_paths(tu, tu.cfg(holder), {call['id']: 1}, None, 'P')
            if once_verdict(ex_h):
                bad.append(('once', 'the dispatch helper `%s` does not call parallel_for exactly once on every path'
                            % holder['q'].split('::')[-1]))
        # parallel_for must be reached exactly once unless the range is known to be empty: guards on the element count
        # (a local holding distance(begin, end)) or on begin == end are understood; begin <= end is the caller's precondition
        cpath = access_path(tu, through(args[0]))
        if cpath is None or cpath not in defs:
            cpath = None

        def range_truth(cond):
            c, pos = strip_not(tu, cond)
            if c is None:
                return None
            xs = None
            if c.get('kind') == 'BinaryOperator' and c.get('opcode') in ('==', '!='):
                xs, op = tu.kids(c), c['opcode']
            elif c.get('kind') == 'CXXOperatorCallExpr' and tu.sd(c).get('q', '').split('::')[-1] in ('operator==', 'operator!='):
                xs, op = tu.kids(c)[1:], tu.sd(c)['q'][-2:]
            if xs is None or len(xs) != 2:
                return None
            ps = {access_path(tu, xs[0]), access_path(tu, xs[1])}
            if ps != {bpath, epath}:
                return None
            eq = (op == '==') == pos
            return {'N': {True, False}, 'Z': {eq}, 'P': {not eq}}
        exits, _ = count_paths(tu, g, {(outer_call or call)['id']: 1}, cpath or ('v', None, '<range>'), 'ZP', range_truth)
        for k, t in once_verdict(exits, und):
            bad.append(('once', 'parallel_for is not called exactly once on every path with a non-empty range'))

        def subst(p, n_):
            if p in amap:
                return lin(tu, amap[p], env)
            if p in defs and irange(tu.sd(n_).get('ct')) is not None:
                return lin(tu, defs[p], env)
            return None
        env = LinEnv(tu, on_read=subst)
        CNT = lin(tu, args[0], env)
        Bp, Ep = Lin.atom(('p', bpath)), Lin.atom(('p', epath))
        want = Lin.atom(('call', 'std::distance', (Bp, Ep)))
        rev = Lin.atom(('call', 'std::distance', (Ep, Bp)))
        if CNT == want or CNT == Ep - Bp:
            # conversion difference_type -> count type; begin <= end is the caller's precondition
            cnt_def = through(args[0])
            ap = access_path(tu, cnt_def)
            if ap in defs:
                cnt_def = defs[ap]
            lf, ch = cast_chain(tu, cnt_def)
            vt = clean_type(tu.sd(leaf(tu, args[0])).get('ct'))
            if vt and (not ch or ch[-1] != vt):
                ch = ch + [vt]
            r0 = irange(ch[0]) if ch else None
            check_chain(ctx, tu, inst, 'count from std::distance', ch, 0, r0[1] if r0 else None, tu.loc(call), file,
                        'parallel_foreach', '')
        elif CNT == rev or CNT == Bp - Ep:
            bad.append(('count', 'the count is distance(end, begin): negative for every non-empty range'))
        elif (CNT - want).is_const():
            bad.append(('count', 'the count is `%r` instead of distance(begin, end)' % CNT))
        else:
            und.append('count `%r` is not recognised as distance(begin, end)' % CNT)
        lg = tu.cfg(lamf)
        ip = param_path(lamf['params'][0])
        fcalls = []
        for b, i, n in lg.stmts():
            if n.get('kind') in CALLS:
                s2, obj2, args2 = call_args(tu, n)
                if obj2 is not None and rp(obj_path(tu, obj2)) == fpath and s2.get('q', '').endswith('operator()'):
                    fcalls.append((n, args2))
        if len(fcalls) != 1 or len(fcalls[0][1]) != 1:
            und.append('the lambda does not contain exactly one call f(element)')
        else:
            fc, fa = fcalls[0]
            ex2, _ = count_paths(tu, lg, {fc['id']: 1}, None, 'P')
            if once_verdict(ex2):
                bad.append(('element-once', 'the element functor is not called exactly once per index'))
            ef = element_form(tu, fa[0], defs)
            if ef is None or ef[0] is None:
                und.append('element expression `%s` is not recognised' % tu.show(fa[0]))
            else:
                (kind, base), idx = ef
                base = rp(base)
                if base != bpath:
                    if base == epath:
                        bad.append(('element-base', 'elements are addressed relative to `end` instead of `begin`'))
                    else:
                        und.append('element expression is not based on `begin`')
                elif idx != Lin.atom(('p', ip)):
                    if (idx - Lin.atom(('p', ip))).is_const():
                        bad.append(('element-index', 'element `%r` is handed to the functor for index %s' % (idx, ip[2])))
                    else:
                        und.append('element index `%r` is not the loop index' % idx)
                elif kind == 'addr' and not contiguous_iterator(itype):
                    bad.append(('element-address-assumes-contiguous',
                                'elements are addressed as (&*begin)[i]%s, which is only valid for contiguous storage, but the function '
                                'accepts every random-access iterator (its static_assert tests the iterator category only) and is '
                                'instantiated here for %s: elements beyond the first storage chunk are read out of bounds'
                                % (via_local(tu, fa[0], defs), itype)))
        for u in sorted(set(und)):
            ctx.undecided(R, inst, u, loc)
        for k, t in ([] if und else sorted(set(bad))):
            ctx.violation(R, inst, t, loc, key=key(k))
        if not und and not bad:
            ctx.ok(R, inst, 'count = distance(begin, end); element i = begin[i]', loc)
    return n_it, n_ct


# =====================================================================================================
#  W-C01 compile-time witnesses
# =====================================================================================================
REJECT_CASES = [(1, 'char index'), (2, 'float index'), (3, 'unsigned short index'),
                (4, 'functor parameter size_t for an int count'), (5, 'unsigned short index in parallel_in_blocks_of')]


def static_assert_errors(ctx, stderr):
    """[(file, line)] of error diagnostics that sit on a static_assert declaration of the analysed tree"""
    out = []
    for m in re.finditer(r'^(\S+?):(\d+):\d+: error: ', stderr, re.M):
        path, line = m.group(1), int(m.group(2))
        if not os.path.abspath(path).startswith(ctx.root + '/'):
            continue
        try:
            src = open(path).read().splitlines()
        except OSError:
            continue
        if 'static_assert' in src[line - 1]:
            out.append((ctx.front.rel(os.path.abspath(path)), line))
    return out


def first_error(stderr):
    m = re.search(r'^(\S+?):(\d+):\d+: error: (.*)$', stderr, re.M)
    return '%s:%s: %s' % (m.group(1), m.group(2), m.group(3)) if m else stderr.strip().splitlines()[0] if stderr.strip() else '?'


def run_witnesses(ctx, configs, compiler='clang++'):
    W1, W2, W3 = 'W-C01-1', 'W-C01-2', 'W-C01-3'
    ctx.describe(W1, 'parallel_for compiles for unsigned char, short, int, unsigned, long, long long, unsigned long long, size_t '
                     'under every tasking backend')
    ctx.describe(W2, 'char / float / unsigned short index types and a functor whose parameter type differs from the index type are '
                     'rejected by a static_assert')
    ctx.describe(W3, 'parallel_in_blocks_of compiles for every accepted index type under every tasking backend')
    jobs = []
    for c in configs:
        jobs.append(('accept', c, None))
        jobs.append(('blocks', c, None))
        jobs.append(('reject', c, 0))
        for case, _ in REJECT_CASES:
            jobs.append(('reject', c, case))

    def one(j):
        kind, c, x = j
        if kind == 'reject':
            return j, ctx.front.compile_check('witness/c01_reject.cpp', config=c, extra=('-DC01_CASE=%d' % x,), compiler=compiler)
        unit = 'witness/c01_accept.cpp' if kind == 'accept' else 'witness/c01_blocks.cpp'
        return j, ctx.front.compile_check(unit, config=c, extra=(('-DC01_TYPE=%s' % x,) if x else ()), compiler=compiler)
    with ThreadPoolExecutor(max_workers=16) as ex:
        res = list(ex.map(one, jobs))
    # failing all-types units are re-run per type to name the type
    second = []
    for (kind, c, x), (rc, err) in res:
        if kind in ('accept', 'blocks') and rc != 0:
            second += [(kind, c, t) for t in INDEX_TYPES]
    with ThreadPoolExecutor(max_workers=16) as ex:
        res2 = dict(ex.map(one, second)) if second else {}
    small_blocks_ok = {}
    n1 = n2 = n3 = 0
    tag = '' if compiler == 'clang++' else '/' + compiler
    for (kind, c, x), (rc, err) in res:
        if kind == 'accept':
            rule, fnname, what = W1, 'parallel_for', 'parallel_for'
        elif kind == 'blocks':
            rule, fnname, what = W3, 'parallel_in_blocks_of', 'parallel_in_blocks_of<16>'
        if kind in ('accept', 'blocks'):
            for t in INDEX_TYPES:
                inst = '[%s%s] %s<%s>' % (c, tag, what, t)
                if kind == 'accept':
                    n1 += 1
                else:
                    n3 += 1
                if rc == 0:
                    ctx.ok(rule, inst, 'compiles')
                    continue
                rc2, err2 = res2.get((kind, c, t), (0, ''))
                if rc2 == 0:
                    ctx.ok(rule, inst, 'compiles')
                else:
                    if kind == 'blocks' and t in ('unsigned char', 'short'):
                        small_blocks_ok[c] = False
                    ctx.violation(rule, inst, '%s does not compile for the accepted index type %s: %s' % (what, t, first_error(err2)),
                                  F_PFOR, key='%s|%s|%s|does-not-compile-for-%s' % (rule, F_PFOR, fnname, t.replace(' ', '-')))
            if kind == 'blocks':
                small_blocks_ok.setdefault(c, True)
        else:
            if x == 0:
                if rc != 0:
                    ctx.broken('W-C01-2: the positive control of witness/c01_reject.cpp does not compile [%s]: %s' % (c, first_error(err)))
                continue
            n2 += 1
            desc = dict(REJECT_CASES)[x]
            inst = '[%s%s] reject case %d (%s)' % (c, tag, x, desc)
            sa = static_assert_errors(ctx, err)
            if rc == 0:
                ctx.violation(W2, inst, 'the call compiles: %s is accepted although the property lists it as rejected' % desc, F_PFOR,
                              key='%s|%s|parallel_for|accepts-case-%d' % (W2, F_PFOR, x))
            elif not sa:
                ctx.violation(W2, inst, 'the call is rejected, but not by a static_assert of rkcommon (first error: %s)' % first_error(err),
                              F_PFOR, key='%s|%s|parallel_for|no-static-assert-case-%d' % (W2, F_PFOR, x))
            else:
                ctx.ok(W2, inst, 'rejected by the static_assert at %s:%d' % sa[0])
    ctx.floor(W1, n1, 8 * len(configs), '8 index types x configurations')
    ctx.floor(W2, n2, len(REJECT_CASES) * len(configs), 'reject cases x configurations')
    ctx.floor(W3, n3, 8 * len(configs), '8 index types x configurations')
    return small_blocks_ok


# =====================================================================================================
#  run
# =====================================================================================================
def check_layout_configs(ctx, tu_a, tu_b, name_a, name_b):
    """The internal backend constructs its task set in header code (application translation unit) and the scheduler in
    librkcommon reads it: every enkiTS record must have one layout whatever NDEBUG says on either side."""
    R = 'R-C01-7'
    ctx.describe(R, 'enkiTS records that cross the header / library boundary (ICompletable, ITaskSet, TaskSetPartition, ...) have the '
                    'same size and member offsets with and without NDEBUG')
    n = 0
    ra = {r['q']: r for r in tu_a.records.values() if r['q'].startswith('enki::') and not r.get('lambda') and not r.get('tmpl')}
    rb = {r['q']: r for r in tu_b.records.values() if r['q'].startswith('enki::') and not r.get('lambda') and not r.get('tmpl')}
    for q in sorted(set(ra) | set(rb)):
        a, b = ra.get(q), rb.get(q)
        short = q.replace('enki::', '')
        if a is None or b is None:
            continue
        n += 1
        fa = [(f_['name'], f_['ct'], f_['off']) for f_ in a['fields']]
        fb = [(f_['name'], f_['ct'], f_['off']) for f_ in b['fields']]
        if fa == fb and a['size'] == b['size'] and a['align'] == b['align'] and a.get('bases') == b.get('bases'):
            ctx.ok(R, 'enki::%s' % short, 'size %d, %d member(s): identical %s / %s' % (a['size'], len(fa), name_a, name_b),
                   nontrivial=bool(fa))
            continue
        only_a = [x[0] for x in fa if x[0] not in {y[0] for y in fb}]
        only_b = [x[0] for x in fb if x[0] not in {y[0] for y in fa}]
        moved = [x[0] for x in fa for y in fb if x[0] == y[0] and x[2] != y[2]]
        file = F_ENKI_H
        ctx.violation(R, 'enki::%s' % short,
                      'the layout depends on the build configuration: size %d (%s) vs %d (%s)%s%s%s. Task sets are constructed by '
                      'header code in the application and read by the scheduler in the library; when the two are compiled with '
                      'different NDEBUG settings the scheduler reads m_SetSize / m_RunningCount at the wrong offset and '
                      'parallel_for runs nothing (or the wrong number of indices)'
                      % (a['size'], name_a, b['size'], name_b,
                         ('; member(s) only %s: %s' % (name_a, ', '.join(only_a))) if only_a else '',
                         ('; member(s) only %s: %s' % (name_b, ', '.join(only_b))) if only_b else '',
                         ('; moved: %s' % ', '.join(moved)) if moved else ''), file,
                      key='%s|%s|%s|layout-depends-on-NDEBUG' % (R, file, short))
    ctx.floor(R, n, 3, 'ICompletable, ITaskSet, TaskSetPartition')


ENABLE_BIG_BLOCKS = True      # switched on once /repo handles block sizes the index type cannot hold (see W-C01-5)


def check_big_blocks(ctx):
    """block sizes above the index type's maximum: rejected at compile time, or analysed like any other instantiation"""
    W = 'W-C01-5'
    ctx.describe(W, 'parallel_in_blocks_of with a BLOCK_SIZE the index type cannot represent is either rejected by a static_assert or '
                    'partitions [0, n) exactly (decided by R-C01-4 on the instantiation)')
    n = 0
    for case, what in ((1, '<256, unsigned char>'), (2, '<32768, short>'), (3, '<40000, short>')):
        rc, err = ctx.front.compile_check('witness/c01_bigblock.cpp', config='DEBUG', extra=('-DC01_BIG=%d' % case,))
        inst = 'parallel_in_blocks_of%s' % what
        n += 1
        if rc != 0:
            if static_assert_errors(ctx, err):
                ctx.ok(W, inst, 'rejected by a static_assert')
            else:
                ctx.undecided(W, inst, 'does not compile, but not because of a static_assert: %s' % first_error(err), F_PFOR)
            continue
        tu = ctx.front.parse('witness/c01_bigblock.cpp', 'DEBUG', extra=('-DC01_BIG=%d' % case,))
        before = len(ctx.obl)
        k = check_blocks(ctx, tu, 'DEBUG/big')
        if k < 1:
            ctx.broken('W-C01-5: instantiation %s not found in witness/c01_bigblock.cpp' % what)
    ctx.floor(W, n, 3, 'three over-large block sizes')


def describe(ctx):
    ctx.describe('R-C01-1', 'dispatch: on every path with a positive count the backend primitive receives [0, count) and the functor '
                            'exactly once (tbb::parallel_for(0, n, f) | canonical counting loop | parallel_for_internal(n, f) -> task set of '
                            'size n -> ExecuteRange loop over each partition); nothing is dispatched twice')
    ctx.describe('R-C01-2', 'join: the internal backend waits (waitInternal post-dominates scheduleTaskInternal on the same live stack '
                            'object, WaitforTask returns only after observing m_RunningCount == 0); the OpenMP loop is a combined parallel for')
    ctx.describe('R-C01-3', 'every integral conversion between the count / index and its consumer preserves every value it can carry there')
    ctx.describe('R-C01-4', 'parallel_in_blocks_of: numBlocks == ceil(n/B), begin == b*B, end == min(begin+B, n), nothing for n <= 0, '
                            'no intermediate value leaves its computation type')
    ctx.describe('R-C01-8', 'internal backend: scheduleTaskInternal / waitInternal use the scheduler that exists at the time of the call '
                            '(read from the owning pointer g_ts, which initTaskSystemInternal may replace between two loops), not a copy of '
                            'the raw pointer that outlives the call')
    ctx.describe('R-C01-5', 'parallel_foreach: count == distance(begin, end); element i is begin[i] for every accepted iterator type; '
                            'the container overload forwards (begin(c), end(c), f)')
    ctx.describe('R-C01-6', 'enkiTS: running-count token discipline (increment before publication, one decrement after each ExecuteRange '
                            'through the same task), SplitTask / inline re-cut keep executed + remaining an exact cover of the owned partition, '
                            'plain stores to m_RunningCount only before publication')


def run(ctx):
    describe(ctx)
    ctx.assume('tbb::parallel_for(first, last, f) blocks and calls f exactly once for every index in [first, last); '
               '`#pragma omp parallel for` runs every iteration of its canonical loop once and joins at the end of the region')
    ctx.assume('the user functor returns normally and does not modify the count; parallel_foreach is given begin <= end')
    ctx.assume('not decided: linearizability of LockLessMultiReadPipe and visibility of the bodies\' effects under the hardware '
               'memory model (WaitforTask reads the volatile count without an acquire fence)')
    configs = CONFIGS
    small_ok = run_witnesses(ctx, configs)
    jobs = []
    for c in configs:
        extra = ('-DRKVERIF_C01_SMALL_BLOCKS',) if small_ok.get(c) else ()
        jobs.append(dict(unit=DRIVER, config=c, extra=extra))
    jobs.append(dict(unit=F_ENKI, config='INTERNAL'))
    jobs.append(dict(unit=F_TASKSYS, config='INTERNAL'))
    jobs.append(dict(unit=F_TASKSYS, config='INTERNAL', extra=('-DNDEBUG',)))
    tus = ctx.front.parse_many(jobs)
    drv = dict(zip(configs, tus[:len(configs)]))
    tu_enki, tu_sys, tu_sys_ndebug = tus[len(configs)], tus[len(configs) + 1], tus[len(configs) + 2]
    check_layout_configs(ctx, tu_sys, tu_sys_ndebug, 'without NDEBUG', 'with NDEBUG')
    if ENABLE_BIG_BLOCKS or os.environ.get('RKVERIF_C01_BIG_BLOCKS'):
        check_big_blocks(ctx)

    summaries = task_fn_summaries(tu_sys)
    n_impl = {}
    n_pfor = 0
    n_blocks = 0
    n_fe = [0, 0]
    for c in configs:
        tu = drv[c]
        chains = []
        fs = [f for f in tu.fns(q=IMPL, dep=False) if tu.cfg(f) is not None]
        types = set()
        for f in fs:
            check_impl(ctx, tu, f, c, chains)
            types.add(clean_type(f['params'][0]['ct']))
        n_impl[c] = len(types & set(INDEX_TYPES))
        for f in tu.fns(q=PFOR, dep=False):
            if tu.cfg(f) is not None:
                n_pfor += 1
                check_forwarder(ctx, tu, f, c, IMPL, 'R-C01-1', 'parallel_for', 'detail::parallel_for_impl')
        if c == 'INTERNAL':
            ib = check_internal(ctx, tu, chains, summaries)
            n = finish_internal_chains(ctx, tu, chains, ib)
            ctx.floor('R-C01-3(internal count path)', n, 8, 'one composed count path per index type')
        n_blocks += check_blocks(ctx, tu, c)
        a, b = check_foreach(ctx, tu, c)
        n_fe[0] += a
        n_fe[1] += b
    for c in configs:
        ctx.floor('R-C01-1[%s]' % c, n_impl[c], 8, 'parallel_for_impl instantiated for the 8 index types')
    ctx.floor('R-C01-1(parallel_for)', n_pfor, 8 * len(configs), 'parallel_for instantiations, 8 index types x configurations')
    ctx.floor('R-C01-4', n_blocks, 6 * len(configs), 'parallel_in_blocks_of<16> for the index types that compile, x configurations')
    ctx.floor('R-C01-5', n_fe[0], 4 * len(configs), 'iterator overload: vector / pointer / const vector / deque iterators x configurations')
    ctx.floor('R-C01-5(container)', n_fe[1], 4 * len(configs), 'container overload x configurations')

    # internal backend: library units
    check_tasksys(ctx, tu_sys, summaries)
    check_scheduler_object(ctx, tu_sys)
    check_add_task_set(ctx, tu_enki)
    check_wait_for_task(ctx, tu_enki)
    split_fn = check_split_task(ctx, tu_enki)
    takes = check_split_and_add(ctx, tu_enki, split_fn if split_fn is not None else find_split_task(tu_enki))
    check_try_run_task(ctx, tu_enki, split_fn if split_fn is not None else find_split_task(tu_enki), bool(takes))
    n = check_count_stores(ctx, tu_enki)
    check_pipe_protocol(ctx, tu_enki)
    check_thread_identity(ctx, tu_enki)
    check_partition_divisors(ctx, tu_enki)
    ctx.floor('R-C01-6(d)', n, 1, 'the reset of m_RunningCount in AddTaskSetToPipe')
    n6 = sum(1 for o in ctx.obl if o['rule'] == 'R-C01-6')
    ctx.floor('R-C01-6', n6, 4, 'SplitTask, SplitAndAddTask, TryRunTask, the count reset')

    if ctx.tier == 'thorough':
        run_witnesses(ctx, configs, compiler='g++')
        # the same dispatch code under gnu++17 (guaranteed elision changes the AST shape of temporaries)
        tus2 = ctx.front.parse_many([dict(unit=DRIVER, config=c, std='gnu++17',
                                          extra=(('-DRKVERIF_C01_SMALL_BLOCKS',) if small_ok.get(c) else ())) for c in configs])
        for c, tu in zip(configs, tus2):
            chains = []
            for f in tu.fns(q=IMPL, dep=False):
                if tu.cfg(f) is not None:
                    check_impl(ctx, tu, f, c + '/gnu++17', chains)
            check_blocks(ctx, tu, c + '/gnu++17')
            check_foreach(ctx, tu, c + '/gnu++17')
    from rkstatic import selftest
    selftest.run(ctx)
