"""C02 - scheduled and async tasks run exactly once and deliver their result safely.

Decided statically, under the four tasking configurations (TBB, OMP, INTERNAL, DEBUG):
  R-C02-1  every closure handed to schedule()/schedule_impl()/schedule_internal()/AsyncTaskImpl() is handed to the
           backend exactly once on every path (a std::thread started with it is detached/joined before it dies;
           a heap task wrapping it has set size 1, invokes it once, and is passed once to the task system).
  R-C02-2  construct before start: no data member the started closure touches through the captured `this` is
           initialised after the initialiser/statement that starts the closure.
  R-C02-3  in the closure the result is stored before the completion flag; the flag is std::atomic with no
           weaker-than-release/acquire order; get() reads the result only after flag==true or after a wait.
  R-C02-4  the destructor waits before any touched member (or the object) is released; the wait reaches the
           backend join that matches how the task was started.
  R-C02-5  async(): one packaged_task, no use of it after scheduling, closure captures the pointer by value and
           invokes it once before deleting it; the returned future is the task's future.
  R-C02-6  nobody frees what the scheduler still touches: the scheduler accesses the task after ExecuteRange, so no
           ExecuteRange override may destroy *this (directly or via callees); any other delete of a task object
           needs a completion test / join first.
"""
import re

from rkstatic import x_tasks as X
from rkstatic.x_tasks import core, decl_ref, member_of_this, short_name, fn_label

LEVEL = 'other'
EXPLANATION = (
    "CFG path analyses over every instantiation of schedule/async/AsyncTask under all four tasking backends: "
    "exactly-once hand-off counting of the closure on every path, initialisation-order reachability between the "
    "statement that starts a task and the initialisers of the members its closure touches, dominance/ordering of "
    "result store, atomic completion flag and result read, join-before-release in destructors paired with the "
    "backend start primitive, ownership of the heap packaged_task, and a who-may-delete analysis over all "
    "enki::ITaskSet::ExecuteRange overrides derived from the scheduler's own post-call accesses. Not decided: that "
    "an enqueued task eventually runs (backend liveness), std::packaged_task/std::future internals, that TBB / "
    "std::thread / the enkiTS pipe invoke a submitted callable exactly once (their contract; the pipe is C01/C12).")

DRIVER = 'drivers/c02_tasks.cpp'
WITNESS = 'witness/c02_tasksets.cpp'
WITNESS_TBB = 'witness/c02_tbb.cpp'
TASKSYS = 'rkcommon/tasking/detail/TaskSys.cpp'
SCHEDULER = 'rkcommon/tasking/detail/enkiTS/TaskScheduler.cpp'
CONFIGS = ['TBB', 'OMP', 'INTERNAL', 'DEBUG']

R1, R2, R3, R4, R5, R6 = ('R-C02-%d' % i for i in range(1, 7))


class World:
    def __init__(self, ctx, std='c++11'):
        jobs = [dict(unit=DRIVER, config=c, std=std) for c in CONFIGS]
        jobs += [dict(unit=TASKSYS, config='INTERNAL', std=std), dict(unit=SCHEDULER, config='INTERNAL', std=std),
                 dict(unit=WITNESS, config='INTERNAL', std=std), dict(unit=WITNESS_TBB, config='TBB', std=std)]
        tus = ctx.front.parse_many(jobs)
        self.std = std
        self.drivers = dict(zip(CONFIGS, tus[:4]))
        self.tasksys, self.scheduler, self.witness, self.witness_tbb = tus[4:8]
        self.tag = '' if std == 'c++11' else ' ' + std
        self.registry_roots = set()
        self.byref_wrappers = {}   # (tu, record id) -> (field name, type): task wrappers that hold the closure by reference
        self.submit = {}     # q -> exit counts
        self.joinfn = {}     # q -> bool (joins on every path)
        self.ha = None

    def lib_fn(self, q):
        for tu in (self.tasksys, self.scheduler):
            for f in tu.fns(q=q, dep=False):
                if tu.cfg(f) is not None:
                    return tu, f
        return None


def label(W, tu, f):
    return fn_label(tu, f) + W.tag


# ================================================================================================
#  task-system entry points (TaskSys.cpp): which functions pass a task to the scheduler / wait for it
# ================================================================================================
def analyse_tasksys(ctx, W):
    tu = W.tasksys
    cands = []
    for f in tu.functions.values():
        if f['dep'] or tu.cfg(f) is None or f.get('rec'):
            continue
        if not tu.fn_file(f).endswith('TaskSys.cpp'):
            continue
        for pi, p in enumerate(f['params']):
            if any(X.derived_from(tu, r, X.ENKI_COMPLETABLE) for r in X.record_of_type(tu, p['ct'])) and '*' in p['ct']:
                cands.append((f, pi))
    submit, join = {}, {}
    for _ in range(3):
        for f, pi in cands:
            g = tu.cfg(f)
            pid = f['params'][pi]['id']

            def transfer(blk, idx, e, st, pid=pid):
                if e[0] != 'S':
                    return [st]
                n = tu.node(e[1])
                if n is None or n.get('kind') not in ('CXXMemberCallExpr', 'CallExpr'):
                    return [st]
                sd, obj, args = tu.call_parts(n)
                if not any(decl_ref(tu, a) == pid for a in args):
                    return [st]
                q = sd.get('q', '')
                s, j = st
                if q == X.ENKI_SUBMIT or (q in submit and 0 not in submit[q] and q != f['q']):
                    s = min(2, s + 1)
                if q in X.ENKI_WAIT or (join.get(q) and q != f['q']):
                    j = 1
                return [(s, j)]
            exits, _r = X.exit_states(g, [(0, 0)], transfer)
            if any(s for s, j in exits):
                submit[f['q']] = {s for s, j in exits}
            if exits and all(j for s, j in exits):
                join[f['q']] = True
    W.submit, W.joinfn = submit, join
    n = 0
    for q, counts in sorted(submit.items()):
        f = tu.fns(q=q, dep=False)[0]
        n += 1
        inst = label(W, tu, f)
        if counts == {1}:
            ctx.ok(R1, inst, 'passes its task to the scheduler (AddTaskSetToPipe) exactly once on every path', tu.fn_loc(f))
        else:
            kind = 'dropped' if 0 in counts else 'twice'
            ctx.violation(R1, inst, 'task is passed to the scheduler %s on some path (counts per path: %s): the task %s'
                          % ('zero times' if 0 in counts else 'more than once', sorted(counts),
                             'never runs' if 0 in counts else 'runs more than once'), tu.fn_loc(f),
                          key='%s|%s|%s|%s' % (R1, tu.fn_file(f), short_name(q), kind))
    for q in sorted(join):
        f = tu.fns(q=q, dep=False)[0]
        ctx.ok(R4, label(W, tu, f), 'waits for its task (TaskScheduler::WaitforTask) on every path', tu.fn_loc(f))
    return n


# ================================================================================================
#  R-C02-1 hand-off exactly once
# ================================================================================================
def check_wrapper(ctx, W, tu, rec, ctor, pidx, seen):
    """a task object (derived from enki::ITaskSet) wrapping a closure: stores it, set size 1, runs it once"""
    key0 = (id(tu), rec['id'])
    if key0 in seen:
        return 0
    seen.add(key0)
    encl = ctor['q'].rsplit('::', 1)[0] if ctor is not None else rec['q']
    name = short_name(encl)
    inst = '[%s] task wrapper %s%s' % (tu.config, encl.replace('rkcommon::tasking::', ''), W.tag)
    loc = tu.fn_loc(ctor) if ctor is not None else '?'
    file = tu.fn_file(ctor) if ctor is not None else '?'
    if ctor is None or tu.cfg(ctor) is None:
        ctx.undecided(R1, inst, 'constructor of the task wrapper has no body in the facts', loc)
        return 1
    g = tu.cfg(ctor)
    pid = ctor['params'][pidx]['id']
    cfield = None
    setsize = None
    for b, i, e in g.elements():
        if e[0] != 'I':
            continue
        init = tu.node(e[1])
        if e[2] and init is not None and decl_ref(tu, init) == pid:
            cfield = (e[2], e[3])
        if not e[2] and init is not None:
            c = core(tu, init)
            if c is not None and c.get('kind') in X.CONSTRUCTS and tu.sd(c).get('rec') == X.ENKI_TASKSET:
                setsize = taskset_size(tu, c)
    if cfield is None:
        ctx.undecided(R1, inst, 'cannot see which member of the task wrapper stores the closure', loc)
        return 1
    fct = [x['ct'] for x in rec.get('fields', []) if x['id'] == cfield[0]]
    if fct and fct[0].rstrip().endswith('&'):
        W.byref_wrappers[key0] = (cfield[1], fct[0])
    bad = False
    if setsize is None:
        ctx.undecided(R1, inst, 'cannot evaluate the set size passed to enki::ITaskSet', loc)
        bad = True
    elif setsize != 1:
        bad = True
        ctx.violation(R1, inst, 'the task wrapping the closure has set size %s: the scheduler calls ExecuteRange once per '
                      'partition of [0,%s), so the closure runs %s' % (setsize, setsize, 'never' if setsize == 0 else 'more than once'),
                      loc, key='%s|%s|%s|set-size' % (R1, file, name))
    ex = [f for f in tu.functions.values() if f.get('recid') == rec['id'] and X.ENKI_EXECUTE in (f.get('overrides') or [])
          and tu.cfg(f) is not None]
    if len(ex) != 1:
        ctx.undecided(R1, inst, 'task wrapper has %d ExecuteRange overrides with a body' % len(ex), loc)
        return 1
    xf = ex[0]

    unknown = []

    def count_in(fn, st0, depth=0):
        """possible numbers of invocations of the stored closure after running fn entered with st0 (own helpers inlined)"""
        if depth > 5:
            unknown.append(fn['q'])
            return {st0}

        def transfer(blk, idx, e, st):
            if e[0] != 'S':
                return [st]
            n = tu.node(e[1])
            if n is None:
                return [st]
            k = n.get('kind')
            if k == 'CXXOperatorCallExpr':
                sd, obj, args = X.call_parts(tu, n)
                if sd.get('q', '').endswith('::operator()') and obj is not None and member_of_this(tu, obj) == cfield[0]:
                    return [min(2, st + 1)]
            if k == 'CallExpr' and tu.kids(n) and member_of_this(tu, tu.kids(n)[0]) == cfield[0]:
                return [min(2, st + 1)]
            if k == 'CXXMemberCallExpr':
                sd, obj, args = tu.call_parts(n)
                callee = tu.callee_fn(n)
                if obj is not None and X.is_this_expr(tu, obj) and callee is not None and callee.get('recid') == rec['id'] \
                        and tu.cfg(callee) is not None:
                    return sorted(count_in(callee, st, depth + 1))
            if k in ('CallExpr', 'CXXMemberCallExpr') + X.CONSTRUCTS:
                sd, obj, args = X.call_parts(tu, n)
                if sd.get('q') not in X.FORWARDERS and not (k in X.CONSTRUCTS and X.is_copy_construct(tu, n)) and \
                        any(member_of_this(tu, a) == cfield[0] or X.is_this_expr(tu, a) or
                            (X.addr_of(tu, a) is not None and member_of_this(tu, X.addr_of(tu, a)) == cfield[0]) for a in args):
                    unknown.append('%s (%s)' % (sd.get('q'), tu.loc(n)))
            return [st]
        ex2, _r = X.exit_states(tu.cfg(fn), [st0], transfer)
        return ex2 or {st0}
    counts = count_in(xf, 0)
    if counts != {1} and unknown and 2 not in counts:
        ctx.undecided(R1, inst, 'ExecuteRange hands the stored closure (or the task itself) to %s, which is not followed: cannot count the '
                      'invocations' % ', '.join(sorted(set(unknown))), tu.fn_loc(xf))
        return 1
    if counts != {1}:
        bad = True
        kind = 'dropped' if 0 in counts else 'twice'
        ctx.violation(R1, inst, 'ExecuteRange invokes the stored closure `%s` %s on some path (counts per path: %s)'
                      % (cfield[1], 'zero times' if 0 in counts else 'more than once', sorted(counts)), tu.fn_loc(xf),
                      key='%s|%s|%s::ExecuteRange|%s' % (R1, tu.fn_file(xf), name, kind))
    if not bad:
        ctx.ok(R1, inst, 'stores the closure in `%s`, set size 1, ExecuteRange invokes it exactly once on every path'
               % cfield[1], loc)
    return 1


def taskset_size(tu, c):
    """value of m_SetSize established by an enki::ITaskSet constructor call"""
    callee = tu.callee_fn(c)
    args = tu.kids(c)
    if callee is None or tu.cfg(callee) is None:
        return None
    for b, i, e in tu.cfg(callee).elements():
        if e[0] == 'I' and e[3] == 'm_SetSize':
            init = tu.node(e[1])
            d = decl_ref(tu, init)
            if d is not None:
                for pi, p in enumerate(callee['params']):
                    if p['id'] == d and pi < len(args):
                        cv = const_value(tu, args[pi])
                        return cv
                return None
            return const_value(tu, init)
    return None


def const_value(tu, e):
    x = e
    for y in X._thin(tu, e):
        cv = tu.sd(y).get('cv')
        if cv is not None:
            try:
                return int(cv)
            except ValueError:
                return None
        x = y
    return None


def group_is_waited(tu, f, e):
    """tbb::task_group::run is a start primitive: it needs a wait() on the same group -- either a member of the enclosing
    object that one of its methods waits on (the owner's join is R-C02-4), or a wait on every path in the same function"""
    m = e.get('member')
    if m is not None and f.get('recid'):
        for f2 in tu.functions.values():
            if f2.get('recid') != f['recid'] or f2['dep'] or tu.cfg(f2) is None:
                continue
            for x in tu.walk(X.fn_decl(tu, f2) or {}):       # including closures written inside the method
                if x.get('kind') == 'CXXMemberCallExpr' and X.RX_TBB_WAIT.match(tu.sd(x).get('q', '')):
                    sd, obj, args = tu.call_parts(x)
                    if obj is not None and member_of_this(tu, obj) == m:
                        return True
        return False
    ap = X.access_path(tu, e['obj']) if e.get('obj') is not None else None
    if ap is None:
        return False
    g = tu.cfg(f)

    def transfer(blk, idx, el, st):
        if el[0] != 'S':
            return [st]
        if el[1] == e['node']['id']:
            return ['ran']
        x = tu.node(el[1])
        if st == 'ran' and x is not None and x.get('kind') == 'CXXMemberCallExpr' and X.RX_TBB_WAIT.match(tu.sd(x).get('q', '')):
            sd, obj, args = tu.call_parts(x)
            if obj is not None and X.access_path(tu, obj) == ap:
                return ['waited']
        return [st]
    exits, _r = X.exit_states(g, ['init'], transfer)
    return bool(exits) and 'ran' not in exits


def check_handoff(ctx, W, roots):
    """roots: list of (tu, fn, param index); follows forwarding callees"""
    ha = W.ha
    seen = set()
    wseen = set()
    work = list(roots)
    n = 0
    names = {}
    records = []
    while work:
        tu, f, pidx = work.pop()
        k = (id(tu), f['id'], pidx)
        if k in seen:
            continue
        seen.add(k)
        h = ha.analyse(tu, f, pidx)
        inst = label(W, tu, f)
        name = short_name(f['q'])
        names.setdefault(tu.config, set()).add(name)
        file = tu.fn_file(f)
        n += 1
        if h is None:
            ctx.undecided(R1, inst, 'recursive hand-off', tu.fn_loc(f))
            continue
        for e in h.events:
            if e['kind'] == 'fwd':
                work.append((tu, e['callee'], e['pidx']))
        for rec, ctor, pi, node in h.wrappers:
            n += check_wrapper(ctx, W, tu, rec, ctor, pi, wseen)
        records.append((tu, f, pidx, h, inst, name, file))
        for prm, mv, cons in moved_lvalue_params(tu, f):
            if prm['id'] == f['params'][pidx]['id']:
                ctx.violation(R1, inst, 'std::move is applied to the closure parameter `%s` at %s although in this instantiation it is an '
                              'lvalue reference (`%s`): the caller\'s own object is moved from' % (prm['name'], tu.loc(mv), prm['ct']),
                              tu.loc(mv), key='%s|%s|%s|moves-from-callers-lvalue' % (R1, file, name))
        for u in h.undecided:
            ctx.undecided(R1, inst, u, tu.fn_loc(f))
        bad = False
        for kind, text, loc in h.problems:
            bad = True
            ctx.violation(R1, inst, text, loc, key='%s|%s|%s|%s' % (R1, file, name, kind))
        for e in h.events:
            if e['kind'] == 'tbb-run' and not group_is_waited(tu, f, e):
                bad = True
                # waits on the same group object elsewhere (they do not give this hand-off a progress guarantee)
                elsewhere = []
                gp = X.access_path(tu, e['obj']) if e.get('obj') is not None else None
                gc = core(tu, e['obj']) if e.get('obj') is not None else None
                gfield = tu.sd(gc).get('d') if gc is not None and gc.get('kind') == 'MemberExpr' else None
                for f2 in tu.functions.values():
                    if f2['dep'] or f2['id'] == f['id'] or X.fn_decl(tu, f2) is None:
                        continue
                    for y in tu.walk(X.fn_decl(tu, f2)):
                        if y.get('kind') == 'CXXMemberCallExpr' and X.RX_TBB_WAIT.match(tu.sd(y).get('q', '')):
                            o2 = core(tu, tu.call_parts(y)[1]) if tu.call_parts(y)[1] is not None else None
                            if o2 is not None and gfield is not None and o2.get('kind') == 'MemberExpr' and tu.sd(o2).get('d') == gfield:
                                elsewhere.append('%s (%s)' % (short_name(f2['q']), tu.loc(y)))
                where = ('the only wait on that group is in %s, which no caller of this function runs before it needs the result '
                         '(a destructor / shutdown path)' % ', '.join(sorted(set(elsewhere)))) if elsewhere else 'nothing ever waits on that group'
                ctx.violation(R1, inst, 'the closure is handed to tbb::task_group::run on `%s` (%s); %s. run() only spawns the task into the '
                              'calling thread\'s pool: it is executed when a worker happens to steal it or when somebody waits on the group '
                              '-- with a single thread (initTaskingSystem(1), one CPU, an arena of one) or busy workers the task does not '
                              'run and a caller polling / blocking on a future waits forever. A fire-and-forget hand-off has to use '
                              'task_arena::enqueue, the TBB primitive that guarantees execution without a waiter'
                              % (tu.show(e['obj']) if e.get('obj') is not None else '?', tu.loc(e['node']), where), tu.loc(e['node']),
                              key='%s|%s|%s|run-without-wait' % (R1, file, name))
        if not h.counts and not h.undecided:
            ctx.undecided(R1, inst, 'no path reaches the end of the function', tu.fn_loc(f))
            continue
        if 0 in h.counts and not h.undecided:
            bad = True
            ctx.violation(R1, inst, 'on some path the closure `%s` is not handed to the backend at all (hand-offs seen: %s): '
                          'the task never runs' % (f['params'][pidx]['name'], h.kinds() or 'none'), tu.fn_loc(f),
                          key='%s|%s|%s|dropped' % (R1, file, name))
        if 2 in h.counts:
            bad = True
            ctx.violation(R1, inst, 'on some path the closure `%s` is handed to the backend more than once (%s): the task runs twice'
                          % (f['params'][pidx]['name'], ', '.join('%s at %s' % (e['kind'], tu.loc(e['node'])) for e in h.events)),
                          tu.fn_loc(f), key='%s|%s|%s|twice' % (R1, file, name))
        if not bad and not h.undecided:
            ctx.ok(R1, inst, 'closure handed off exactly once on every path: %s' % ', '.join(
                '%s at %s' % (e['kind'], tu.loc(e['node'])) for e in h.events), tu.fn_loc(f))
    # ---- a heap task that outlives the hand-off must not refer to an object that dies when the hand-off function returns
    retains = {}       # (tu, fn id, pidx) -> text: the function keeps a reference to its closure argument beyond its return
    for tu, f, pidx, h, inst, name, file in records:
        for rec, ctor, pi, node in h.wrappers:
            br = W.byref_wrappers.get((id(tu), rec['id']))
            heap = False
            p = tu.par(node)
            hops = 0
            while p is not None and hops < 4:
                if p.get('kind') == 'CXXNewExpr':
                    heap = True
                p = tu.par(p)
                hops += 1
            if br and heap:
                retains[(id(tu), f['id'], pidx)] = 'its heap task stores the closure as `%s %s` (%s)' % (br[1], br[0], tu.loc(node))
    for _ in range(4):
        for tu, f, pidx, h, inst, name, file in records:
            ptype = f['params'][pidx]['ct']
            if not ptype.rstrip().endswith('&'):
                continue
            for e in h.events:
                if e['kind'] == 'fwd' and (id(tu), e['callee']['id'], e['pidx']) in retains and (id(tu), f['id'], pidx) not in retains:
                    retains[(id(tu), f['id'], pidx)] = 'it forwards the closure to %s, and %s' % (
                        short_name(e['callee']['q']), retains[(id(tu), e['callee']['id'], e['pidx'])])
    for tu, f, pidx, h, inst, name, file in records:
        ptype = f['params'][pidx]['ct']
        if ptype.rstrip().endswith('&'):
            continue            # the referent belongs to the caller: judged there
        why = None
        if (id(tu), f['id'], pidx) in retains:
            why = retains[(id(tu), f['id'], pidx)]
            at = tu.fn_loc(f)
        for e in h.events:
            if e['kind'] == 'fwd' and (id(tu), e['callee']['id'], e['pidx']) in retains:
                why = 'it passes `%s` as an lvalue / reference to %s (%s), and %s' % (
                    f['params'][pidx]['name'], short_name(e['callee']['q']), tu.loc(e['node']), retains[(id(tu), e['callee']['id'], e['pidx'])])
                at = tu.loc(e['node'])
        if why:
            ctx.violation(R1, inst, 'the closure `%s` is a by-value parameter of %s and dies when it returns, but the task that runs later '
                          'only holds a reference to it: %s. The worker then calls a destroyed closure in a dead stack frame (closures '
                          'owning heap state: use after free)' % (f['params'][pidx]['name'], name, why), at,
                          key='%s|%s|%s|closure-referenced-after-return' % (R1, file, name))
    return n, names


def schedule_roots(W):
    roots = []
    for cfg, tu in W.drivers.items():
        for f in tu.fns(q='rkcommon::tasking::schedule', dep=False):
            if tu.cfg(f) is not None and f['params']:
                roots.append((tu, f, 0))
    return roots



# ================================================================================================
#  classes that start a task in their constructor (AsyncTask): discovery shared by R-C02-2/3/4
# ================================================================================================
class Owner:
    """record R whose constructor `ctor` starts the closure `clo` (capturing this) at CFG position `pos`"""
    pass


def touched_members(tu, rec, fn, depth=0, seen=None):
    """field ids of `rec` accessed through `this` in fn's body and in member functions it calls on this"""
    seen = seen if seen is not None else set()
    out = {}
    if fn is None or fn['id'] in seen or depth > 6:
        return out
    seen.add(fn['id'])
    decl = X.fn_decl(tu, fn)
    if decl is None:
        return out
    fids = {f['id']: f['name'] for f in rec.get('fields', [])}
    for x in tu.walk(decl):
        k = x.get('kind')
        if k == 'MemberExpr' and tu.sd(x).get('k') == 'member':
            d = tu.sd(x).get('d')
            ks = tu.kids(x)
            if d in fids and ks and X.is_this_expr(tu, ks[0]):
                out.setdefault(d, (fids[d], tu.loc(x)))
        if k == 'CXXMemberCallExpr':
            sd, obj, args = tu.call_parts(x)
            if obj is not None and X.is_this_expr(tu, obj):
                callee = tu.callee_fn(x)
                if callee is not None and callee.get('recid') == rec['id']:
                    for d, v in touched_members(tu, rec, callee, depth + 1, seen).items():
                        out.setdefault(d, v)
    return out


def find_owners(W, tu):
    """every (constructor, start event) where a this-capturing closure is started or invoked"""
    owners = []
    for f in tu.functions.values():
        if f['dep'] or not f.get('ctor') or tu.cfg(f) is None:
            continue
        rec = tu.records.get(f.get('recid'))
        if rec is None or rec.get('lambda'):
            continue
        g = tu.cfg(f)
        for b, i, n in g.stmts():
            k = n.get('kind')
            if k not in X.CONSTRUCTS + X.CALLS:
                continue
            if k in X.CONSTRUCTS and X.is_copy_construct(tu, n):
                continue
            sd, obj, args = X.call_parts(tu, n)
            for ai, a in enumerate(args):
                clo = X.find_closure(tu, a)
                if clo is None or not clo.captures_this() or clo.op is None:
                    continue
                q = sd.get('q', '')
                starts = None
                callee = tu.callee_fn(n)
                if q == X.THREAD_CTOR and ai == 0:
                    starts = [dict(kind='thread-direct', member=None)]
                elif X.RX_TBB_RUN.match(q) or X.RX_TBB_ENQUEUE.match(q):
                    starts = [dict(kind='tbb-direct', member=None)]
                elif callee is not None and tu.cfg(callee) is not None:
                    h = W.ha.analyse(tu, callee, ai)
                    if h is not None and (h.events or h.wrappers):
                        starts = h.events
                if starts is None:
                    continue
                o = Owner()
                o.tu, o.rec, o.ctor, o.node, o.pos, o.clo = tu, rec, f, n, (b.id, i), clo
                o.callee, o.pidx, o.starts = callee, ai, starts
                own = X.construct_owner(tu, g, n) if k in X.CONSTRUCTS else ('stmt', None)
                o.starter_field = own[1] if own[0] == 'member' else None
                o.touched = touched_members(tu, rec, clo.op)
                o.fields = {x['id']: x for x in rec.get('fields', [])}
                owners.append(o)
    return owners


def rec_name(rec):
    return short_name(rec['q'])


# ================================================================================================
#  R-C02-2 construct before start
# ================================================================================================
def check_construct_before_start(ctx, W, o, verdicts=None):
    tu, g = o.tu, o.tu.cfg(o.ctor)
    inst0 = '[%s] %s' % (tu.config, o.ctor['q'].replace('rkcommon::tasking::', '')) + W.tag
    starter = o.fields.get(o.starter_field, {}).get('name') if o.starter_field else None
    later = {}
    stored = {}
    for blk, idx, e in X.reachable_after(g, o.pos):
        if e[0] == 'I' and e[2]:
            later.setdefault(e[2], e)
        elif e[0] == 'S':
            # a plain store of the constructor (body) into a member of this object, executed after the start
            x = tu.node(e[1])
            tgt = None
            if x is not None and x.get('kind') == 'BinaryOperator' and x.get('opcode', '').endswith('=') and \
                    x.get('opcode') not in ('==', '!=', '<=', '>='):
                tgt = tu.kids(x)[0]
            elif x is not None and x.get('kind') in ('CXXOperatorCallExpr', 'CXXMemberCallExpr'):
                aop = atomic_op(tu, x)
                if aop is not None and aop[0] == 'store':
                    tgt = aop[1]
                elif x.get('kind') == 'CXXOperatorCallExpr' and tu.sd(x).get('q', '').split('::')[-1] == 'operator=':
                    tgt = X.call_parts(tu, x)[1]
            pth = mpath(tu, tgt) if tgt is not None else None
            if pth and len(pth) == 1:
                stored.setdefault(pth[0], x)
    n = 0
    file = tu.fn_file(o.ctor)
    for fid, (fname, floc) in sorted(o.touched.items(), key=lambda kv: kv[1][0]):
        n += 1
        inst = '%s: member `%s` touched by the closure started %s' % (inst0, fname, 'by member `%s`' % starter if starter
                                                                      else 'at %s' % tu.loc(o.node))
        if fid == o.starter_field:
            why = ('the closure touches `%s`, the member whose own initialisation starts it: the member is still under '
                   'construction when the closure may run' % fname)
            key = '%s|%s|%s|%s-is-the-starter' % (R2, file, rec_name(o.rec), fname)
        elif fid in later:
            why = ('member `%s` is initialised (%s) after %s has started the closure that accesses it at %s: the task can '
                   'assign it before it is constructed and the later construction discards the value (members are '
                   'constructed in declaration order; declare `%s` before %s)'
                   % (fname, tu.loc(later[fid][1]), 'the initialisation of `%s`' % starter if starter else 'the statement at ' + tu.loc(o.node),
                      floc, fname, '`%s`' % starter if starter else 'the start'))
            key = '%s|%s|%s|%s-constructed-after-start' % (R2, file, rec_name(o.rec), fname)
        elif fid in stored:
            why = ('the constructor stores to member `%s` (%s at %s) after %s has started the closure that accesses it at %s: a task '
                   'that has already run by then has its value overwritten (a completion flag set by the finished task is wiped: '
                   'finished()/valid() stay false for ever) and until the store the closure and early readers see an '
                   'indeterminate value; give the member its value in an initialiser that runs before the start'
                   % (fname, tu.show(stored[fid]), tu.loc(stored[fid]), 'the initialisation of `%s`' % starter if starter else
                      'the statement at ' + tu.loc(o.node), floc))
            key = '%s|%s|%s|%s-stored-after-start' % (R2, file, rec_name(o.rec), fname)
        else:
            why = None
        if verdicts is not None:
            verdicts.append((rec_name(o.rec), fname, why is not None))
            continue
        if why:
            ctx.violation(R2, inst, why, tu.loc(later[fid][1]) if fid in later else (tu.loc(stored[fid]) if fid in stored and fid != o.starter_field else tu.fn_loc(o.ctor)), key=key,
                          path=['%s: closure started here' % tu.loc(o.node), '%s: closure accesses `%s`' % (floc, fname)] +
                               (['%s: `%s` initialised here, after the start' % (tu.loc(later[fid][1]), fname)] if fid in later else []))
        else:
            has_init = any(e[0] == 'I' and e[2] == fid for b2, i2, e in g.elements())
            ctx.ok(R2, inst, 'initialised before the start' if has_init else
                   'no initialisation runs for this member in this instantiation (vacuous for the type)', tu.fn_loc(o.ctor),
                   nontrivial=has_init)
    return n



# ================================================================================================
#  R-C02-3 result before flag, flag before read
# ================================================================================================
ORDER = {0: 'relaxed', 1: 'consume', 2: 'acquire', 3: 'release', 4: 'acq_rel', 5: 'seq_cst'}


def atomic_op(tu, n):
    """(op, object expr, value expr, memory order) for an operation on a std::atomic object, else None"""
    if n is None or n.get('kind') not in ('CXXMemberCallExpr', 'CXXOperatorCallExpr'):
        return None
    sd, obj, args = X.call_parts(tu, n)
    rec = sd.get('rec', '')
    if not (rec.startswith('std::atomic') or rec.startswith('std::__atomic_base')) or obj is None:
        return None
    name = sd.get('q', '').split('::')[-1]

    def order(i, default=5):
        if i < len(args):
            x = core(tu, args[i])
            if x is not None and x.get('kind') == 'CXXDefaultArgExpr':
                return default
            v = const_value(tu, args[i])
            return v if v is not None else -1
        return default
    if name == 'operator=':
        return ('store', obj, args[0] if args else None, 5)
    if name == 'store':
        return ('store', obj, args[0] if args else None, order(1))
    if name == 'load':
        return ('load', obj, None, order(0))
    if name.startswith('operator ') :
        return ('load', obj, None, 5)
    return ('rmw', obj, None, 5)


def method_of(tu, rec, name):
    return [f for f in tu.functions.values() if f.get('recid') == rec['id'] and not f['dep'] and
            f['q'].split('::')[-1] == name and tu.cfg(f) is not None]


def mpath(tu, e, prefix=()):
    """path of data-member accesses rooted at `this`: prefix + (field ids); () + prefix for `this` itself"""
    c = core(tu, e)
    if c is None:
        return None
    if X.is_this_expr(tu, c):           # `this`, or a functor's field that holds the owner's this
        return tuple(prefix)
    if c.get('kind') == 'MemberExpr' and 'fi' in tu.sd(c) and tu.kids(c):
        b = mpath(tu, tu.kids(c)[0], prefix)
        return None if b is None else b + (tu.sd(c).get('d'),)
    return None


def path_field(tu, rec, path):
    """field entry (name, ct, ...) of the last element of a member path starting in record rec"""
    r = rec
    f = None
    for fid in path:
        f = next((x for x in (r or {}).get('fields', []) if x['id'] == fid), None)
        if f is None:
            return None
        rs = X.record_of_type(tu, f['ct'])
        r = rs[0] if rs else None
    return f


def path_name(tu, rec, path):
    names = []
    r = rec
    for fid in path:
        f = next((x for x in (r or {}).get('fields', []) if x['id'] == fid), None)
        if f is None:
            return '?'
        names.append(f['name'])
        rs = X.record_of_type(tu, f['ct'])
        r = rs[0] if rs else None
    return '.'.join(names)


def member_call(tu, x, prefix=()):
    """(callee fn, object path, args) for a call of a member function with a body on `this` or on a (sub)member object of it"""
    if x is None or x.get('kind') != 'CXXMemberCallExpr':
        return None
    sd, obj, args = tu.call_parts(x)
    callee = tu.callee_fn(x)
    if obj is None or callee is None or tu.cfg(callee) is None or callee['dep']:
        return None
    p = mpath(tu, obj, prefix)
    if p is None:
        return None
    return callee, p, args


def value_path(tu, e, prefix=(), depth=0):
    """member path whose value / object e denotes: a member, a local copy or reference of it, or an accessor returning it"""
    p = mpath(tu, e, prefix)
    if p is not None and len(p) > len(prefix):
        return p
    if depth > 4:
        return None
    d = tu.node(decl_ref(tu, e)) if decl_ref(tu, e) else None
    if d is not None and d.get('kind') == 'VarDecl' and tu.kids(d) and tu.enclosing_fn(d) is not None:
        return value_path(tu, tu.kids(d)[-1], prefix, depth + 1)
    mc = member_call(tu, core(tu, e), prefix)
    if mc is not None:
        callee, p2, args = mc
        rets = [n for b, i, n in tu.cfg(callee).stmts() if n.get('kind') == 'ReturnStmt' and tu.kids(n)]
        if len(rets) == 1:
            return value_path(tu, tu.kids(rets[0])[0], p2, depth + 1)
    return None


def flag_read(tu, rec, e, depth=0, prefix=()):
    """(member path, order|'plain', polarity, load node) if e is true exactly when the flag member is true (+1) / false (-1);
    accessors of `this` and of member objects are followed"""
    c = core(tu, e)
    if c is None or depth > 4:
        return None
    k = c.get('kind')
    if k == 'UnaryOperator' and c.get('opcode') == '!':
        r = flag_read(tu, rec, tu.kids(c)[0], depth + 1, prefix)
        return None if r is None else (r[0], r[1], -r[2]) + tuple(r[3:])
    a = atomic_op(tu, c)
    if a is not None and a[0] == 'load':
        m = mpath(tu, a[1], prefix)
        if m is not None and len(m) > len(prefix):
            return (m, a[3], 1, c)
        return None
    m = mpath(tu, c, prefix)
    if m is not None and len(m) > len(prefix) and X.clean_t(tu.sd(c).get('ct', '')) == 'bool':
        return (m, 'plain', 1, c)
    mc = member_call(tu, c, prefix)
    if mc is not None and not mc[2]:
        callee, p2, args = mc
        rets = [n for b, i, n in tu.cfg(callee).stmts() if n.get('kind') == 'ReturnStmt']
        if len(rets) == 1 and tu.kids(rets[0]):
            return flag_read(tu, rec, tu.kids(rets[0])[0], depth + 1, p2)
    return None


def roles(ctx, W, o):
    """(result member path, flag member path) from get() / finished()"""
    tu, rec = o.tu, o.rec
    gets = method_of(tu, rec, 'get')
    fins = method_of(tu, rec, 'finished')
    if len(gets) != 1 or len(fins) != 1:
        return None
    res = None
    for b, i, n in tu.cfg(gets[0]).stmts():
        if n.get('kind') == 'ReturnStmt' and tu.kids(n):
            m = value_path(tu, tu.kids(n)[0])
            if m is None or (res is not None and m != res):
                return None
            res = m
    flag = None
    for b, i, n in tu.cfg(fins[0]).stmts():
        if n.get('kind') == 'ReturnStmt' and tu.kids(n):
            r = flag_read(tu, rec, tu.kids(n)[0])
            if r is None or r[2] != 1 or (flag is not None and r[0] != flag):
                return None
            flag = r[0]
    if res is None or flag is None or res == flag:
        return None
    return res, flag, gets[0], fins[0]


def result_uses(tu, fn, res, prefix=(), depth=0):
    """classify every access to the result member (path res) in fn: ('read'|'result-moved-out'|'result-modified'|'undecided',
    text, node). Methods of member objects on the way to the result are followed; an accessor returning a reference to the
    result denotes the result at its call site."""
    out = []
    decl = X.fn_decl(tu, fn)
    name = fn['q'].split('::')[-1]
    if not isinstance(res, tuple):
        res = (res,)
    for x in tu.walk(decl):
        is_res = x.get('kind') == 'MemberExpr' and mpath(tu, x, prefix) == res
        if not is_res and x.get('kind') == 'CXXMemberCallExpr' and depth < 3:
            mc = member_call(tu, x, prefix)
            if mc is not None and len(mc[1]) > len(prefix) and mc[1] == res[:len(mc[1])]:
                callee, p2, args = mc
                rt = callee.get('fty', '').split('(')[0].rstrip()
                if value_path(tu, x, prefix) == res and rt.endswith('&'):
                    is_res = True           # accessor: the call expression is the result object
                else:
                    for kind, text, y in result_uses(tu, callee, res, p2, depth + 1):
                        if kind != 'read':
                            out.append((kind, text + ' (reached from %s() through %s at %s)' % (name, tu.show(x), tu.loc(x)), y))
        if not is_res:
            continue
        cur, moved = x, False
        verdict = None
        for _ in range(14):
            p = tu.par(cur)
            if p is None:
                break
            k = p.get('kind')
            if k in ('ParenExpr', 'ExprWithCleanups', 'MaterializeTemporaryExpr', 'CXXBindTemporaryExpr'):
                cur = p
                continue
            if k == 'ImplicitCastExpr':
                ck = p.get('castKind')
                if ck == 'LValueToRValue':
                    verdict = ('read', '', x)
                    break
                if ck == 'NoOp' and 'const' in (tu.sd(p).get('ct', '') or p.get('type', {}).get('qualType', '')):
                    verdict = ('read', '', x)
                    break
                cur = p
                continue
            if k == 'CallExpr' and tu.sd(p).get('q') in X.FORWARDERS:
                moved = True
                cur = p
                continue
            if k in X.CASTS_EXPLICIT:
                t = p.get('type', {}).get('qualType', '')
                if t.rstrip().endswith('&&'):
                    moved = True
                elif 'const' not in t and t.rstrip().endswith('&'):
                    pass
                cur = p
                continue
            if k in X.CONSTRUCTS or k in ('CallExpr', 'CXXMemberCallExpr', 'CXXOperatorCallExpr'):
                sd, obj, args = X.call_parts(tu, p)
                q = sd.get('q', '')
                fty = sd.get('fty', '')
                if obj is not None and obj.get('id') == cur.get('id') and k != 'CallExpr':
                    if q.split('::')[-1] == 'operator=' or k == 'CXXOperatorCallExpr' and q.split('::')[-1] in ('operator+=', 'operator-='):
                        verdict = ('result-modified', '%s() assigns to the result member at %s: a later get() no longer returns the value '
                                   'the task function returned' % (name, tu.loc(p)), x)
                    elif fty.rstrip().endswith('const') or ') const' in fty:
                        verdict = ('read', '', x)
                    else:
                        verdict = ('undecided', '%s() calls the non-const member %s on the result member' % (name, q), x)
                    break
                ai = [i for i, a in enumerate(args) if a.get('id') == cur.get('id')]
                ptypes = param_types(fty)
                pt = ptypes[ai[0]] if ai and ai[0] < len(ptypes) else ''
                if pt.rstrip().endswith('&&') and moved:
                    verdict = ('result-moved-out', '%s() moves the stored result out of the object (%s receives `%s` as %s at %s): the '
                               'first call steals it, every later get() -- finished() still being true -- returns a moved-from value'
                               % (name, q.split('::')[-1] or 'a constructor', tu.show(x), pt.strip(), tu.loc(p)), x)
                elif 'const' in pt or (pt and not pt.rstrip().endswith('&')):
                    verdict = ('read', '', x)
                else:
                    verdict = ('undecided', '%s() passes the result member to %s as `%s`' % (name, q or '?', pt.strip() or '?'), x)
                break
            if k in ('BinaryOperator', 'CompoundAssignOperator') and (p.get('opcode', '').endswith('=') and p.get('opcode') not in ('==', '!=', '<=', '>=')):
                if tu.kids(p)[0].get('id') == cur.get('id'):
                    verdict = ('result-modified', '%s() assigns to the result member at %s: a later get() no longer returns the value '
                               'the task function returned' % (name, tu.loc(p)), x)
                else:
                    verdict = ('read', '', x)
                break
            if k == 'UnaryOperator' and p.get('opcode') in ('++', '--'):
                verdict = ('result-modified', '%s() modifies the result member at %s' % (name, tu.loc(p)), x)
                break
            if k == 'ReturnStmt':
                rt = fn.get('fty', '').split('(')[0]
                if depth > 0 and rt.rstrip().endswith('&') and not moved:
                    verdict = ('read', '', x)        # accessor of a member object: the use is classified at its call site
                elif moved and rt.rstrip().endswith('&&'):
                    verdict = ('undecided', '%s() returns an rvalue reference to the result member' % name, x)
                elif rt.rstrip().endswith('&') and 'const' not in rt:
                    verdict = ('undecided', '%s() returns a non-const reference to the result member' % name, x)
                else:
                    verdict = ('read', '', x)
                break
            if k == 'MemberExpr':       # access to a part of the result
                cur = p
                continue
            if k in ('BinaryOperator', 'ConditionalOperator', 'CXXDependentScopeMemberExpr'):
                verdict = ('read', '', x)
                break
            verdict = ('undecided', '%s() uses the result member in a construct that is not recognised as a read (%s)' % (name, k), x)
            break
        out.append(verdict or ('undecided', '%s(): use of the result member not classified' % name, x))
    return out


def param_types(fty):
    """parameter type list of a function type as written by clang: 'void (A, B &&) noexcept' -> ['A', 'B &&']"""
    i = fty.find('(')
    if i < 0:
        return []
    depth, cur, out = 0, '', []
    for ch in fty[i + 1:]:
        if ch in '(<[':
            depth += 1
        elif ch in ')>]':
            if ch == ')' and depth == 0:
                break
            depth -= 1
        if ch == ',' and depth == 0:
            out.append(cur)
            cur = ''
        else:
            cur += ch
    if cur.strip():
        out.append(cur)
    return out


def check_result_protocol(ctx, W, o, joiner):
    tu, rec = o.tu, o.rec
    rn = rec_name(rec)
    inst0 = '[%s] %s' % (tu.config, rec['type'].replace('rkcommon::tasking::', '')) + W.tag
    rl = roles(ctx, W, o)
    if rl is None:
        ctx.undecided(R3, inst0, 'cannot identify the result member (returned by get()) and the completion flag (returned by '
                      'finished()) of %s' % rec['q'], tu.fn_loc(o.ctor))
        return 1
    res, flag, getf, finf = rl
    resn, flagn = path_name(tu, rec, res), path_name(tu, rec, flag)
    family = {rec['id']}       # the class and the classes of the member objects that hold result / flag
    for pth in (res, flag):
        r0 = rec
        for fid in pth[:-1]:
            f0 = next((x for x in (r0 or {}).get('fields', []) if x['id'] == fid), None)
            rs0 = X.record_of_type(tu, f0['ct']) if f0 else []
            r0 = rs0[0] if rs0 else None
            if r0 is not None:
                family.add(r0['id'])
    n = 0
    # ---- the flag is an atomic
    n += 1
    fct = (path_field(tu, rec, flag) or {}).get('ct', '?')
    rct = X.clean_t((path_field(tu, rec, res) or {}).get('ct', ''))
    res_trivial = None
    for ta in rec.get('targs', []) or []:
        if X.clean_t(ta.get('t', '')) == rct and 'trivial_dtor' in ta:
            res_trivial = bool(ta['trivial_dtor'])
    if res_trivial is None:
        rr = X.record_of_type(tu, rct)
        res_trivial = bool(rr[0].get('trivial_dtor')) if rr else bool(re.match(r'^(unsigned |signed )?(bool|char|short|int|long|long long|float|double)$|\*$', rct))
    file = tu.fn_file(o.ctor)
    if re.match(r'^std::atomic<(bool|char|signed char|unsigned char|short|unsigned short|int|unsigned int|long|unsigned long)>$', fct):
        ctx.ok(R3, inst0 + ': completion flag `%s`' % flagn, 'type %s' % fct, tu.fn_loc(o.ctor))
    elif X.clean_t(fct) in ('bool', 'int', 'char', 'unsigned char', 'unsigned int'):
        ctx.violation(R3, inst0 + ': completion flag `%s`' % flagn, 'the completion flag `%s` has the non-atomic type `%s`: the '
                      'task thread writes it while finished()/get() read it (data race; the result store is not ordered before it)'
                      % (flagn, fct), tu.fn_loc(o.ctor), key='%s|%s|%s|flag-not-atomic' % (R3, file, rn))
    else:
        ctx.undecided(R3, inst0 + ': completion flag `%s`' % flagn, 'completion flag of unrecognised type %s' % fct, tu.fn_loc(o.ctor))
    # ---- get(): how is the read of the result synchronised with the task? (U: not at all, F: the flag was seen true, J: joined)
    ginst = inst0 + ': get()'
    gg = tu.cfg(getf)
    gproblems, relies, weak_loads, blocked = [], [], [], []
    gbusy = set()

    def touches_res(fn, prefix, depth=0):
        for y in tu.walk(X.fn_decl(tu, fn) or {}):
            if y.get('kind') == 'MemberExpr' and mpath(tu, y, prefix) == res:
                return True
            mc0 = member_call(tu, y, prefix) if depth < 3 else None
            if mc0 is not None and mc0[0]['id'] != fn['id'] and touches_res(mc0[0], mc0[1], depth + 1):
                return True
        return False

    def denotes_res(x):
        """x evaluates / yields the result object: the member itself or a call of a member object's method that accesses it"""
        if x.get('kind') == 'MemberExpr' and mpath(tu, x) == res:
            return True
        mc0 = member_call(tu, x)
        return mc0 is not None and len(mc0[1]) >= 1 and mc0[1] == res[:len(mc0[1])] and touches_res(mc0[0], mc0[1])

    def gtransfer(blk, idx, e, st):
        if e[0] != 'S':
            return [st]
        x = tu.node(e[1])
        if x is None:
            return [st]
        if joiner.is_join_call(o, x):
            if st in ('U', 'F') and not joiner.trivially_joined(o) and not gbusy:
                blocked.append((st, x))
            return ['J']
        if st != 'J' and x.get('kind') == 'CXXMemberCallExpr':
            sd0, obj0, args0 = tu.call_parts(x)
            c0 = tu.callee_fn(x)
            if obj0 is not None and X.is_this_expr(tu, obj0) and c0 is not None and c0.get('recid') == rec['id'] \
                    and tu.cfg(c0) is not None and c0['id'] not in gbusy and c0['id'] != getf['id']:
                # an own method after which, on every path, the flag was seen true or the task was joined
                gbusy.add(c0['id'])
                sub, _r0 = X.exit_states(tu.cfg(c0), [st], gtransfer, grefine)
                gbusy.discard(c0['id'])
                if sub and all(y == 'J' for y in sub):
                    return ['J']
                if sub and all(y in ('J', 'F') for y in sub):
                    return ['F']
                if sub and len(set(sub)) == 1:
                    return [list(sub)[0]]
        if denotes_res(x) and not gbusy:
            if st in ('U', 'N'):
                gproblems.append(('get-unsynchronised', 'get() reads the result `%s` at %s on a path where neither the completion flag '
                                  'was seen true (with acquire or stronger) nor the task was waited for: it can return a value that is '
                                  'not (completely) written yet' % (resn, tu.loc(x)), tu.loc(x)))
            elif st == 'F':
                relies.append(tu.loc(x))
        return [st]

    def grefine(blk, si, st):
        if blk.cond and len(blk.succ) == 2 and st in ('U', 'N'):
            r = flag_read(tu, rec, tu.node(blk.cond))
            if r is not None and r[0] == flag:
                if (si == 0) == (r[2] == 1):
                    if r[1] in (2, 4, 5):
                        return ['F']
                    weak_loads.append((r[3], r[1]))
                else:
                    return ['N']        # the flag was seen false: the task is not finished, blocking is legitimate
        return [st]
    X.exit_states(gg, ['J' if joiner.trivially_joined(o) else 'U'], gtransfer, grefine)
    relies = sorted(set(relies))
    for st0, x0 in blocked:
        gproblems.append(('get-blocks-although-finished', 'get() calls the blocking wait at %s on a path where the completion flag `%s` %s: '
                          'finished()==true has to imply that get() returns the value without blocking, but the backend wait can still '
                          'block after the task body has set the flag (task_group releases its waiters only after destroying the functor '
                          'and the closure state it owns, thread::join waits for thread exit, the enkiTS wait runs other queued tasks). '
                          'The wait has to be skipped when the flag is already set' % (
                              tu.loc(x0), flagn, 'was just seen true' if st0 == 'F' else 'has not been tested (it may already be true)'),
                          tu.loc(x0)))
    # ---- closure: invoke once -> store result -> store flag(true); no result access afterwards
    #      (member functions of the same class called on `this` are inlined, the task function may be passed on as an argument)
    n += 1
    clo = o.clo
    op = clo.op
    cinst = inst0 + ': closure started by the constructor'
    captured = {w for w, r, t in clo.captures if w not in ('this', None)}
    captured |= {fid for fid, w in getattr(clo, 'fieldmap', {}).items() if w != 'this'}     # functor class: its other fields
    und, problems = [], []

    def fref(e):
        """declaration or functor field an expression designates"""
        d = decl_ref(tu, e)
        if d:
            return d
        c0 = core(tu, e)
        if c0 is not None and c0.get('kind') == 'MemberExpr' and tu.kids(c0):
            b0 = core(tu, tu.kids(c0)[0])
            if b0 is not None and b0.get('kind') == 'CXXThisExpr':
                return tu.sd(c0).get('d')
        return None
    if not joiner.trivially_joined(o):
        for w, byref, qt in clo.captures:
            if w in captured and byref and any(p['id'] == w for p in o.ctor['params']):
                problems.append(('functor-captured-by-reference', 'the closure started by the constructor captures the constructor parameter '
                                 '`%s` by reference (%s): it is gone when the constructor returns, the task then calls through a dangling '
                                 'reference' % ((tu.node(w) or {}).get('name'), qt), tu.loc(clo.node)))
    memo = {}

    def prepare(fn, functors, resparams=frozenset(), prefix=()):
        """event table of one function body; functors = decl ids that denote the task function there, resparams = parameters
        that carry the task function's result, prefix = member path of `this` relative to the owner"""
        key = (fn['id'], tuple(sorted(functors)), tuple(sorted(resparams)), prefix)
        if key in memo:
            return memo[key]
        g = tu.cfg(fn)
        ev, results, store_nodes = {}, set(), {}
        for b, i, x in g.stmts():
            k = x.get('kind')
            if k in ('CXXOperatorCallExpr', 'CallExpr'):
                sd, obj, args = X.call_parts(tu, x)
                tgt = obj if (k == 'CXXOperatorCallExpr' and sd.get('q', '').endswith('::operator()')) else \
                    (tu.kids(x)[0] if k == 'CallExpr' and tu.kids(x) else None)
                if tgt is not None and fref(tgt) in functors:
                    ev[x['id']] = ('invoke', x)
                    results.add(x['id'])
                    continue
            mc0 = member_call(tu, x, prefix) if k == 'CXXMemberCallExpr' and not atomic_op(tu, x) else None
            if mc0 is not None and mc0[0].get('recid') in family:
                callee, p2, args = mc0
                nf = {callee['params'][ai]['id'] for ai, a in enumerate(args)
                      if ai < len(callee['params']) and fref(a) in functors}
                ev[x['id']] = ('call', x, callee, nf, p2, args)
                continue
            if k in ('CallExpr', 'CXXMemberCallExpr') + X.CONSTRUCTS and k not in ('CXXMemberCallExpr',):
                sd, obj, args = X.call_parts(tu, x)
                if sd.get('q') not in X.FORWARDERS and not (k in X.CONSTRUCTS and X.is_copy_construct(tu, x)) and \
                        any(decl_ref(tu, a) in functors or X.is_this_expr(tu, a) for a in args):
                    ev[x['id']] = ('unknown', x, sd.get('q'))
                    continue
            a = atomic_op(tu, x)
            if a is not None and mpath(tu, a[1], prefix) == flag:
                if a[0] == 'store':
                    ev[x['id']] = ('flag-store', x, a)
                continue
            if k in ('BinaryOperator', 'CXXOperatorCallExpr') and (x.get('opcode') == '=' or
                                                                   tu.sd(x).get('q', '').split('::')[-1] == 'operator='):
                ks = tu.kids(x)
                lhs, rhs = (ks[0], ks[1]) if k == 'BinaryOperator' else (ks[1], ks[2]) if len(ks) >= 3 else (None, None)
                if lhs is not None and mpath(tu, lhs, prefix) == res:
                    ev[x['id']] = ('res-store', x, rhs)
                    continue
                if lhs is not None and mpath(tu, lhs, prefix) == flag:
                    ev[x['id']] = ('flag-store', x, ('store', lhs, rhs, 'plain'))
                    continue
            if k == 'CXXNewExpr' and tu.sd(x).get('nplace', 0) >= 1:
                tgt = None
                for pid0 in tu.sd(x).get('pargs', []):
                    pa = tu.node(pid0)
                    y0 = X.addr_of(tu, pa) if pa is not None else None
                    if y0 is None and pa is not None:       # std::addressof(member)
                        c0 = tu.strip(pa, casts=True)
                        if c0 is not None and c0.get('kind') == 'CallExpr' and tu.sd(c0).get('q') == 'std::addressof':
                            y0 = tu.call_parts(c0)[2][0]
                    if y0 is not None and mpath(tu, y0, prefix) == res:
                        tgt = y0
                if tgt is not None:
                    init = tu.node(tu.sd(x).get('init'))
                    src = tu.kids(init)[0] if init is not None and init.get('kind') in X.CONSTRUCTS and len(tu.kids(init)) == 1 else init
                    ev[x['id']] = ('res-placement', x, src)
                    for y1 in tu.walk(tgt):
                        store_nodes[y1.get('id')] = x['id']     # the address-of operand is part of the construction, not an access
                    continue
            if k in ('CXXMemberCallExpr', 'CallExpr') and tu.kids(x):
                cal = tu.strip(tu.kids(x)[0])
                objx = None
                if cal is not None and cal.get('kind') == 'CXXPseudoDestructorExpr' and tu.kids(cal):
                    objx = tu.kids(cal)[0]
                elif k == 'CXXMemberCallExpr' and '::~' in tu.sd(x).get('q', ''):
                    objx = tu.call_parts(x)[1]
                if objx is not None and mpath(tu, objx, prefix) == res:
                    ev[x['id']] = ('res-destroy', x)
                    for y1 in tu.walk(objx):
                        store_nodes[y1.get('id')] = x['id']
                    continue
            if k == 'MemberExpr' and mpath(tu, x, prefix) == res:
                ev[x['id']] = ('res-access', x)
        decl = X.fn_decl(tu, fn)
        for _ in range(2):          # locals carrying the task function's result
            for x in tu.walk(decl):
                if x.get('kind') == 'VarDecl' and tu.kids(x):
                    c = core(tu, tu.kids(x)[-1])
                    if c is not None and (c.get('id') in results or decl_ref(tu, c) in results):
                        results.add(x['id'])
        for nid, e in list(ev.items()):
            if e[0] == 'res-placement':
                c = core(tu, e[2]) if e[2] is not None else None
                if not (c is not None and (c.get('id') in results or decl_ref(tu, c) in results or decl_ref(tu, c) in resparams)):
                    und.append('the value constructed into `%s` at %s is not recognised as the result of the task function' % (resn, tu.loc(e[1])))
            if e[0] == 'res-store':
                c = core(tu, e[2])
                if not (c is not None and (c.get('id') in results or decl_ref(tu, c) in results or decl_ref(tu, c) in resparams)):
                    und.append('the value stored into `%s` at %s is not recognised as the result of the task function' % (resn, tu.loc(e[1])))
                lhs = core(tu, tu.kids(e[1])[0] if e[1].get('kind') == 'BinaryOperator' else tu.kids(e[1])[1])
                if lhs is not None:
                    store_nodes[lhs['id']] = nid      # the MemberExpr on the left belongs to the store
        for nid, e in list(ev.items()):
            if e[0] == 'call':
                callee, args = e[2], e[5]
                nr = set()
                for ai, a in enumerate(args):
                    c = core(tu, a)
                    if ai < len(callee['params']) and c is not None and (c.get('id') in results or decl_ref(tu, c) in results
                                                                          or decl_ref(tu, c) in resparams):
                        nr.add(callee['params'][ai]['id'])
                ev[nid] = e[:5] + (frozenset(nr),)
        memo[key] = (g, ev, store_nodes)
        return memo[key]
    summaries = {}

    def run_fn(fn, functors, st0, depth=0, resparams=frozenset(), prefix=()):
        """exit states of fn entered in state st0 = (invoked, stored, flagged, saw-unknown-call)"""
        skey = (fn['id'], tuple(sorted(functors)), st0, tuple(sorted(resparams)), prefix)
        if skey in summaries:
            return summaries[skey]
        if depth > 6:
            und.append('call chain from the closure too deep at %s' % fn['q'])
            return {st0}
        summaries[skey] = {st0}     # recursion guard
        g, ev, store_nodes = prepare(fn, functors, resparams, prefix)

        def transfer(blk, idx, e, st):
            if e[0] != 'S':
                return [st]
            x = ev.get(e[1])
            if x is None or e[1] in store_nodes:
                return [st]
            inv, sto, flg, unk, dead = st
            if x[0] == 'invoke':
                return [(min(2, inv + 1), sto, flg, unk, dead)]
            if x[0] == 'res-destroy':
                if dead:
                    problems.append(('result-destroyed-twice', 'the result `%s` is destroyed explicitly at %s although it holds no live '
                                     'object on this path' % (resn, tu.loc(x[1])), tu.loc(x[1])))
                return [(inv, sto, flg, unk, True)]
            if x[0] == 'res-placement':
                if not dead and not res_trivial:
                    problems.append(('result-constructed-over-live-object', 'the closure placement-news the result into `%s` at %s, but '
                                     'that member is a live, already (default-)constructed object: its lifetime is ended without running '
                                     'its destructor, so whatever its default constructor acquired (buffer, handle, registration) is '
                                     'never released, once per AsyncTask. Assign (`%s = ...`) or destroy the old object first'
                                     % (resn, tu.loc(x[1]), resn), tu.loc(x[1])))
                if flg:
                    problems.append(('result-after-flag', 'the result `%s` is constructed at %s after the completion flag `%s` has been set'
                                     % (resn, tu.loc(x[1]), flagn), tu.loc(x[1])))
                return [(inv, min(2, sto + 1), flg, unk, False)]
            if x[0] == 'call':
                return sorted(run_fn(x[2], x[3], st, depth + 1, x[5], x[4]))
            if x[0] == 'unknown':
                return [(inv, sto, flg, True, dead)]
            if x[0] == 'res-store':
                if flg:
                    problems.append(('result-after-flag', 'the result `%s` is stored at %s after the completion flag `%s` has been set: '
                                     'finished() can be true and get() can return before the value is there' % (resn, tu.loc(x[1]), flagn), tu.loc(x[1])))
                return [(inv, min(2, sto + 1), flg, unk, dead)]
            if x[0] == 'res-access':
                if flg:
                    problems.append(('result-after-flag', 'the result `%s` is accessed at %s after the completion flag `%s` has been set'
                                     % (resn, tu.loc(x[1]), flagn), tu.loc(x[1])))
                return [st]
            if x[0] == 'flag-store':
                a = x[2]
                val = const_value(tu, a[2]) if a[2] is not None else None
                if val is None and a[2] is not None:
                    c = core(tu, a[2])
                    if c is not None and c.get('kind') == 'CXXBoolLiteralExpr':
                        val = 1 if c.get('value') else 0
                if val != 1:
                    und.append('completion flag receives a value other than the constant true at %s' % tu.loc(x[1]))
                    return [st]
                if a[3] not in (3, 5, 4, 'plain') and (relies or weak_loads):
                    problems.append(('flag-store-order', 'the completion flag `%s` is stored with memory_order_%s at %s, so the store of the '
                                     'result `%s` is not ordered before it -- and get() reads the result at %s on a path where seeing the flag '
                                     'true is the only synchronisation with the task (it skips the wait): the read is unordered with the '
                                     "task's write (data race; an incomplete value on weakly ordered machines)"
                                     % (flagn, ORDER.get(a[3], a[3]), tu.loc(x[1]), resn, ', '.join(relies) or '?'), tu.loc(x[1])))
                if not sto:
                    if unk:
                        und.append('the completion flag is set at %s after a call whose effect on `%s` is not followed' % (tu.loc(x[1]), resn))
                    else:
                        problems.append(('flag-before-result', 'the completion flag `%s` is set at %s on a path where the result `%s` has not '
                                         'been stored yet: finished() becomes true and get() returns a value that is still being written'
                                         % (flagn, tu.loc(x[1]), resn), tu.loc(x[1])))
                return [(inv, sto, 1, unk, dead)]
            return [st]
        exits, _r = X.exit_states(g, [st0], transfer)
        summaries[skey] = exits or {st0}
        return summaries[skey]
    exits = run_fn(op, captured, (0, 0, 0, False, False))
    for inv, sto, flg, unk, dead in sorted(exits):
        if dead:
            problems.append(('result-left-destroyed', 'on some path the closure destroys `%s` explicitly and finishes without constructing '
                             'a new object in it: the member is destroyed a second time with the AsyncTask' % resn, tu.fn_loc(op)))
        if unk and (inv != 1 or sto == 0 or not flg):
            und.append('the closure calls a function that is not followed (it receives `this` or the task function); the '
                       'invoke / store / publish protocol cannot be established')
            continue
        if inv != 1:
            problems.append(('invoke-count', 'the task function is invoked %s on some path through the closure'
                             % ('zero times' if inv == 0 else 'more than once'), tu.fn_loc(op)))
        if sto == 0:
            problems.append(('result-not-stored', 'on some path the closure finishes without storing the result `%s`' % resn, tu.fn_loc(op)))
        if not flg:
            und.append('on some path the closure finishes without setting the completion flag `%s` (protocol not recognised)' % flagn)
    for u in sorted(set(und)):
        ctx.undecided(R3, cinst, u, tu.fn_loc(op))
    for kind, text, loc in sorted(set(problems)):
        ctx.violation(R3, cinst, text, loc, key='%s|%s|%s::<closure>|%s' % (R3, tu.fn_file(op), rn, kind))
    if not und and not problems:
        ctx.ok(R3, cinst, 'task function invoked once; `%s` stored, then `%s` = true (atomic, seq_cst/release); no access to `%s` afterwards'
               % (resn, flagn, resn), tu.fn_loc(op))
    # ---- readers of the flag use at least acquire
    for m in [f for f in tu.functions.values() if f.get('recid') in family and not f['dep'] and tu.cfg(f) is not None]:
        for b, i, x in tu.cfg(m).stmts():
            a = atomic_op(tu, x)
            am = mpath(tu, a[1]) if a is not None else None
            if a is not None and a[0] == 'load' and am and am[-1] == flag[-1]:
                n += 1
                minst = inst0 + ': %s reads `%s`' % (m['q'].split('::')[-1], flagn)
                licensing = any(wn is not None and wn.get('id') == x.get('id') for wn, wo in weak_loads)
                if a[3] in (2, 4, 5) or not licensing:
                    ctx.ok(R3, minst, 'memory_order_%s%s' % (ORDER.get(a[3], a[3]), '' if a[3] in (2, 4, 5) else
                                                             ' (a hint only: no read of the result depends on this load)'), tu.loc(x))
                else:
                    ctx.violation(R3, minst, 'the completion flag `%s` is loaded with memory_order_%s at %s and get() reads the result when '
                                  'this load returned true without waiting for the task: seeing true does not make the stored result '
                                  'visible' % (flagn, ORDER.get(a[3], a[3]), tu.loc(x)), tu.loc(x),
                                  key='%s|%s|%s::%s|flag-load-order' % (R3, tu.fn_file(m), rn, m['q'].split('::')[-1]))
    # ---- outside the closure the result member is only read (get() can be called any number of times)
    for m in sorted([f for f in tu.functions.values() if f.get('recid') == rec['id'] and not f['dep'] and tu.cfg(f) is not None
                     and not f.get('ctor') and not f.get('dtor')], key=lambda f: f['q']):
        if m['id'] in {k[0] for k in memo}:
            continue        # part of the task body (called from the started closure): analysed above
        uses = result_uses(tu, m, res)
        if not uses:
            continue
        n += 1
        mname = m['q'].split('::')[-1]
        minst = inst0 + ': %s() uses `%s`' % (mname, resn)
        worst = None
        for kind, text, x in uses:
            if kind == 'read':
                continue
            if kind == 'undecided':
                ctx.undecided(R3, minst, text, tu.loc(x))
                worst = worst or 'undecided'
            else:
                worst = 'violation'
                ctx.violation(R3, minst, text, tu.loc(x), key='%s|%s|%s::%s|%s' % (R3, tu.fn_file(m), rn, mname, kind))
        if worst is None:
            ctx.ok(R3, minst, 'read-only (%d access(es): copied / bound to const / scalar read)' % len(uses), tu.fn_loc(m))
    # ---- get(): verdict of the analysis made above
    n += 1
    gunf = joiner.unfollowed(o, getf) if gproblems else []
    if gunf:
        ctx.undecided(R3, ginst, 'get() hands the object / its task handle to %s, which is not followed: cannot establish whether the '
                      'result is read only after the task finished' % ', '.join(sorted(set(gunf))), tu.fn_loc(getf))
    elif gproblems:
        for kind, text, loc in sorted(set(gproblems)):
            ctx.violation(R3, ginst, text, loc, key='%s|%s|%s::get|%s' % (R3, tu.fn_file(getf), rn, kind))
    else:
        ctx.ok(R3, ginst, 'every read of `%s` is dominated by (`%s` seen true with acquire or stronger) or by a wait that joins the task%s'
               % (resn, flagn, '; the flag is the synchronisation edge on some path' if relies else '; always joined, the flag is only a hint'),
               tu.fn_loc(getf))
    return n



# ================================================================================================
#  R-C02-4 wait before release; the wait reaches the backend join matching the start
# ================================================================================================
def flatten_starts(events, out=None):
    out = out if out is not None else []
    for e in events:
        if e['kind'] == 'fwd' and e.get('sub') is not None:
            flatten_starts(e['sub'].events, out)
        else:
            out.append(e)
    return out


class Joiner:
    def __init__(self, W):
        self.W = W
        self.memo = {}
        self.reason = {}
        self.kind = {}
        self.isolated = {}
        self.unfollowed_join = {}
        self.busy = set()

    def starts(self, o):
        return flatten_starts(o.starts)

    def trivially_joined(self, o):
        return all(e['kind'] == 'sync' for e in self.starts(o))

    def starter_rec(self, o):
        return o.tu.records.get(o.callee.get('recid')) if o.callee is not None else None

    def impl_join(self, o, fn):
        """does method fn of the starter member's class join everything its constructor started, on every path?"""
        tu = o.tu
        key = ('impl', id(tu), fn['id'])
        if key in self.memo:
            return self.memo[key]
        need = [e for e in self.starts(o) if e['kind'] != 'sync']
        if any(e['kind'] in ('tbb-enqueue', 'thread-local', 'thread-direct', 'tbb-direct') or e.get('member') is None for e in need):
            self.memo[key] = False
            return False
        g = tu.cfg(fn)
        W = self.W

        depth_l = [0]
        isolated, unfollowed = [], []

        def joined_by(x):
            got = set()
            if x.get('kind') == 'CXXMemberCallExpr':
                sd, obj, args = tu.call_parts(x)
                q = sd.get('q', '')
                m = member_of_this(tu, obj) if obj is not None else None
                callee = tu.callee_fn(x)
                if obj is not None and X.is_this_expr(tu, obj) and callee is not None and callee.get('recid') == fn.get('recid') \
                        and tu.cfg(callee) is not None and callee['id'] != fn['id'] and ('impl', id(tu), callee['id']) not in self.busy:
                    self.busy.add(key)
                    sub_ok = self.impl_join(o, callee)          # a helper of the same class that joins everything
                    self.busy.discard(key)
                    if sub_ok:
                        return set(range(len(need)))
                for i, e in enumerate(need):
                    if e['kind'] == 'tbb-run' and X.RX_TBB_WAIT.match(q) and m == e['member']:
                        got.add(i)
                    if e['kind'] == 'thread-member' and q == X.THREAD_JOIN and m == e['member']:
                        got.add(i)
            if x.get('kind') in ('CallExpr', 'CXXOperatorCallExpr') and depth_l[0] < 3:
                sd, obj, args = X.call_parts(tu, x)
                q = sd.get('q', '')
                lams = []
                if x.get('kind') == 'CXXOperatorCallExpr' and q.endswith('::operator()') and obj is not None:
                    l0 = X.find_lambda(tu, obj)
                    if l0 is not None:
                        lams.append((l0, 'called'))
                elif x.get('kind') == 'CallExpr':
                    for a in args:
                        l0 = X.find_lambda(tu, a)
                        if l0 is not None:
                            lams.append((l0, 'isolate' if RX_TBB_ISOLATE.match(q) else 'passed:' + q))
                for l0, how in lams:
                    inner = set()
                    depth_l[0] += 1
                    for y in tu.walk(tu.kids(l0)[-1] if tu.kids(l0) else {}):
                        if y.get('kind') in ('CXXMemberCallExpr', 'CallExpr'):
                            inner |= joined_by(y)
                    depth_l[0] -= 1
                    if inner and how == 'called':
                        got |= inner
                    elif inner and how == 'isolate':
                        got |= inner                 # when it returns the task has finished (ordering); whether it returns: see below
                        isolated.append((x, inner))
                    elif inner:
                        unfollowed.append('%s (%s)' % (how[7:], tu.loc(x)))
            if x.get('kind') == 'CallExpr':
                sd, obj, args = tu.call_parts(x)
                if W.joinfn.get(sd.get('q', '')):
                    for a in args:
                        y = X.addr_of(tu, a)
                        m = member_of_this(tu, y) if y is not None else None
                        for i, e in enumerate(need):
                            if e['kind'] == 'enki' and m is not None and m == e['member']:
                                got.add(i)
            return got

        def transfer(blk, idx, e, st):
            if e[0] != 'S':
                return [st]
            x = tu.node(e[1])
            got = joined_by(x) if x is not None else None
            return [st | frozenset(got)] if got else [st]

        def refine(blk, si, st):
            if blk.cond and len(blk.succ) == 2:
                c = core(tu, tu.node(blk.cond))
                pol = 1
                while c is not None and c.get('kind') == 'UnaryOperator' and c.get('opcode') == '!':
                    pol = -pol
                    c = core(tu, tu.kids(c)[0])
                if c is not None and c.get('kind') == 'CXXMemberCallExpr' and tu.sd(c).get('q') == X.THREAD_JOINABLE:
                    sd, obj, args = tu.call_parts(c)
                    m = member_of_this(tu, obj) if obj is not None else None
                    joinable_here = (si == 0) == (pol == 1)
                    if not joinable_here:
                        return [st | frozenset(i for i, e in enumerate(need) if e['kind'] == 'thread-member' and e['member'] == m)]
            return [st]
        # a member flag that is only ever set (to true) after everything has been joined: seeing it true means "already joined"
        full = frozenset(range(len(need)))
        writes = {}         # field id -> [state at the write, is-plain-store-of-true]
        srec = tu.records.get(fn.get('recid')) or {}
        flagfields = {x['id'] for x in srec.get('fields', []) if x['ct'].startswith('std::atomic<bool>')}

        def flag_write(x):
            a = atomic_op(tu, x)
            if a is not None and a[0] in ('store', 'rmw'):
                m = member_of_this(tu, a[1])
                if m in flagfields:
                    val = const_value(tu, a[2]) if a[2] is not None else None
                    if val is None and a[2] is not None:
                        c = core(tu, a[2])
                        if c is not None and c.get('kind') == 'CXXBoolLiteralExpr':
                            val = 1 if c.get('value') else 0
                    return m, (a[0] == 'store' and val == 1)
            return None
        inner_transfer = transfer

        def transfer1(blk, idx, e, st):
            if e[0] == 'S':
                x = tu.node(e[1])
                fw = flag_write(x) if x is not None else None
                if fw:
                    writes.setdefault(fw[0], []).append((st, fw[1]))
            return inner_transfer(blk, idx, e, st)
        exits, res = X.exit_states(g, [frozenset()], transfer1, refine)
        # writes to the flag in the other methods of the class disqualify it (not analysed here)
        for f2 in tu.functions.values():
            if f2.get('recid') == fn.get('recid') and f2['id'] != fn['id'] and not f2['dep'] and tu.cfg(f2) is not None and not f2.get('ctor'):
                for b2, i2, x2 in tu.cfg(f2).stmts():
                    fw = flag_write(x2)
                    if fw:
                        writes.setdefault(fw[0], []).append((frozenset(), False))
        joined_flags = {m for m, ws in writes.items() if ws and all(st == full and plain for st, plain in ws)}
        if joined_flags and not (bool(exits) and all(st == full for st in exits)):
            def refine2(blk, si, st):
                out = refine(blk, si, st)
                if blk.cond and len(blk.succ) == 2:
                    r = flag_read(tu, srec, tu.node(blk.cond))
                    if r is not None and len(r[0]) == 1 and r[0][0] in joined_flags and r[1] in (2, 4, 5) and ((si == 0) == (r[2] == 1)):
                        return [full]
                return out
            exits, res = X.exit_states(g, [frozenset()], inner_transfer, refine2)
        ok = bool(exits) and all(len(st) == len(need) for st in exits)
        if isolated:
            x0, inner0 = isolated[0]
            self.isolated[key] = ('the wait is performed inside tbb::this_task_arena::isolate (%s) while the task was spawned by run() outside '
                                'of that isolated region: a thread waiting in an isolated region only executes tasks spawned inside it, so '
                                'the waiter can never run its own task and depends on another free thread -- with one thread, or when every '
                                'thread waits like this (nested AsyncTasks), get()/wait()/the destructor never return' % tu.loc(x0))
        elif not ok and unfollowed:
            self.unfollowed_join[key] = sorted(set(unfollowed))
        if not ok and not isolated:
            # witness: a path through the function that reaches its end without the join
            why = 'no join on any path'
            for st, via in sorted(res.exits, key=repr):
                if len(st) != len(need):
                    steps = []
                    for bid, s2 in res.path_to(via, st):
                        blk = g.blocks[bid]
                        if blk.cond:
                            steps.append('%s (%s)' % (tu.show(tu.node(blk.cond)), tu.loc(blk.cond)))
                    rets = [tu.loc(tu.node(e[1])) for e in g.blocks[via].el if e[0] == 'S' and tu.node(e[1]) is not None
                            and tu.node(e[1]).get('kind') == 'ReturnStmt']
                    why = 'there is a path through it that neither joins/waits nor has observed a completed join: %s%s' % (
                        ('after the test(s) ' + ', '.join(steps[-3:])) if steps else 'straight through',
                        (' it returns at ' + rets[0]) if rets else ' it reaches the end of the function')
                    break
            self.reason.setdefault(key, why)
        self.memo[key] = ok
        return ok

    def is_join_call(self, o, x):
        tu = o.tu
        if x is None or x.get('kind') != 'CXXMemberCallExpr':
            return False
        sd, obj, args = tu.call_parts(x)
        callee = tu.callee_fn(x)
        if obj is None or callee is None or tu.cfg(callee) is None:
            return False
        srec = self.starter_rec(o)
        if o.starter_field and member_of_this(tu, obj) == o.starter_field and srec is not None and callee.get('recid') == srec['id']:
            return self.impl_join(o, callee)
        if X.is_this_expr(tu, obj) and callee.get('recid') == o.rec['id']:
            return self.always_joins(o, callee)
        return False

    def always_joins(self, o, fn):
        tu = o.tu
        key = ('own', id(tu), fn['id'])
        if key in self.memo:
            return self.memo[key]
        if key in self.busy:
            return False
        self.busy.add(key)

        def transfer(blk, idx, e, st):
            if e[0] == 'S' and not st and self.is_join_call(o, tu.node(e[1])):
                return [True]
            return [st]
        exits, _r = X.exit_states(tu.cfg(fn), [False], transfer)
        self.busy.discard(key)
        ok = bool(exits) and all(exits)
        self.memo[key] = ok
        return ok

    def unfollowed(self, o, fn, depth=0, seen=None):
        """calls in fn (and own methods it calls) that receive `this` or the starter member and are not analysed"""
        tu = o.tu
        seen = seen if seen is not None else set()
        out = []
        if fn['id'] in seen or depth > 5 or tu.cfg(fn) is None:
            return out
        seen.add(fn['id'])
        srec = self.starter_rec(o)

        def about_task(e):
            if X.is_this_expr(tu, e):
                return True
            for y in (e, X.addr_of(tu, e)):
                if y is not None and o.starter_field and member_of_this(tu, y) == o.starter_field:
                    return True
            return False
        for b, i, x in tu.cfg(fn).stmts():
            if x.get('kind') not in ('CXXMemberCallExpr', 'CallExpr') + X.CONSTRUCTS:
                continue
            sd, obj, args = X.call_parts(tu, x)
            callee = tu.callee_fn(x)
            if x.get('kind') == 'CXXMemberCallExpr' and obj is not None:
                if X.is_this_expr(tu, obj) and callee is not None and callee.get('recid') == o.rec['id']:
                    out += self.unfollowed(o, callee, depth + 1, seen)
                    continue
                if o.starter_field and member_of_this(tu, obj) == o.starter_field:
                    if callee is None or tu.cfg(callee) is None:
                        out.append('%s (%s)' % (sd.get('q'), tu.loc(x)))
                    continue
            if sd.get('q') in X.FORWARDERS or (x.get('kind') in X.CONSTRUCTS and X.is_copy_construct(tu, x)):
                continue
            if any(about_task(a) for a in args):
                out.append('%s (%s)' % (sd.get('q'), tu.loc(x)))
        return out

    def starter_calls(self, o, fn, depth=0, seen=None):
        """calls made on the starter member from fn and the own methods it calls: [(call node, callee)]"""
        tu = o.tu
        seen = seen if seen is not None else set()
        out = []
        if fn['id'] in seen or depth > 5 or tu.cfg(fn) is None:
            return out
        seen.add(fn['id'])
        for b, i, x in tu.cfg(fn).stmts():
            if x.get('kind') != 'CXXMemberCallExpr':
                continue
            sd, obj, args = tu.call_parts(x)
            callee = tu.callee_fn(x)
            if obj is None or callee is None:
                continue
            if o.starter_field and member_of_this(tu, obj) == o.starter_field:
                out.append((x, callee))
            elif X.is_this_expr(tu, obj) and callee.get('recid') == o.rec['id']:
                out += self.starter_calls(o, callee, depth + 1, seen)
        return out


def describe_starts(o, J):
    tu = o.tu
    srec = J.starter_rec(o)
    names = {f['id']: f['name'] for f in (srec or {}).get('fields', [])}
    return ', '.join('%s%s' % (e['kind'], (' on `%s`' % names.get(e.get('member'), '?')) if e.get('member') else '')
                     for e in J.starts(o)) or 'none'


def check_wait_before_release(ctx, W, o, J, verdicts=None):
    tu, rec = o.tu, o.rec
    rn = rec_name(rec)
    inst = '[%s] %s::~%s' % (tu.config, rec['type'].replace('rkcommon::tasking::', ''), rn.split('::')[-1]) + W.tag
    dts = [f for f in tu.functions.values() if f.get('recid') == rec['id'] and f.get('dtor') and not f['dep'] and tu.cfg(f) is not None]
    if len(dts) != 1:
        if verdicts is not None:
            verdicts.append((rn, 'dtor', None))
            return 1
        ctx.undecided(R4, inst, 'destructor of %s has no body in the facts (%d found)' % (rec['q'], len(dts)), tu.fn_loc(o.ctor))
        return 1
    d = dts[0]
    g = tu.cfg(d)
    problems = []
    srec = J.starter_rec(o)
    sdt = [f for f in tu.functions.values() if srec is not None and f.get('recid') == srec['id'] and f.get('dtor')
           and not f['dep'] and tu.cfg(f) is not None]

    def transfer(blk, idx, e, st):
        if st:
            return [st]
        if e[0] == 'S':
            if J.is_join_call(o, tu.node(e[1])):
                return [True]
            return [st]
        if e[0] == 'MD':
            if e[1] == o.starter_field and sdt and J.impl_join(o, sdt[0]):
                return [True]
            if e[1] in o.touched:
                problems.append(('member-destroyed-before-wait', 'member `%s`, which the running task accesses, is destroyed before the '
                                 'task has been waited for' % e[2], tu.fn_loc(d)))
        return [st]
    exits, _r = X.exit_states(g, [J.trivially_joined(o)], transfer)
    unjoined = any(not st for st in exits)
    if verdicts is not None:
        verdicts.append((rn, 'dtor', bool(unjoined or problems)))
        return 1
    how = describe_starts(o, J)
    for x, callee in J.starter_calls(o, d):
        J.impl_join(o, callee)
        iso = J.isolated.get(('impl', id(tu), callee['id']))
        if iso and any(e['kind'] == 'tbb-run' for e in J.starts(o)):
            ctx.violation(R4, '[%s] %s' % (tu.config, callee['q'].replace('rkcommon::tasking::', '')) + W.tag,
                          '%s: %s' % (short_name(callee['q']), iso), tu.fn_loc(callee),
                          key='%s|%s|%s|wait-isolated-from-spawn' % (R4, tu.fn_file(callee), short_name(callee['q'])))
    if not unjoined and not problems:
        ctx.ok(R4, inst, 'the task (started: %s) is joined on every path before any member it touches, or the '
               'object, is released' % how, tu.fn_loc(d), nontrivial=not J.trivially_joined(o))
        # the wait used by the owner reaches the matching backend join
        for x, callee in J.starter_calls(o, d):
            if J.impl_join(o, callee):
                ctx.ok(R4, '[%s] %s' % (tu.config, callee['q'].replace('rkcommon::tasking::', '')) + W.tag,
                       'joins what the constructor started (%s) on every path' % how, tu.fn_loc(callee),
                       nontrivial=not J.trivially_joined(o))
        return 1
    unf = J.unfollowed(o, d)
    if unf:
        ctx.undecided(R4, inst, 'the destructor hands the object / its task handle to %s, which is not followed: cannot establish whether '
                      'the task is waited for' % ', '.join(sorted(set(unf))), tu.fn_loc(d))
        return 1
    calls = J.starter_calls(o, d)
    blamed = False
    for x, callee in calls:
        if not J.impl_join(o, callee) and J.unfollowed_join.get(('impl', id(tu), callee['id'])):
            ctx.undecided(R4, '[%s] %s' % (tu.config, callee['q'].replace('rkcommon::tasking::', '')) + W.tag,
                          'the join is written inside a closure handed to %s, which is not followed'
                          % ', '.join(J.unfollowed_join[('impl', id(tu), callee['id'])]), tu.fn_loc(callee))
            return 1
    for x, callee in calls:
        if not J.impl_join(o, callee):
            blamed = True
            ctx.violation(R4, '[%s] %s' % (tu.config, callee['q'].replace('rkcommon::tasking::', '')) + W.tag,
                          '%s, which %s relies on to wait for its task, can return while the task is still running: it does not join '
                          'what the constructor started (%s) on every path -- %s. The task can then still run (and write into the owner) '
                          'after the owner has been destroyed, and get() can read the result before it is written'
                          % (short_name(callee['q']), short_name(d['q']), how, J.reason.get(('impl', id(tu), callee['id']), '')),
                          tu.fn_loc(callee),
                          key='%s|%s|%s|%s' % (R4, tu.fn_file(callee), short_name(callee['q']),
                                               J.kind.get(('impl', id(tu), callee['id']), 'no-backend-join')),
                          path=['%s: destructor calls %s' % (tu.loc(x), tu.show(x))])
    if not blamed:
        for kind, text, loc in sorted(set(problems)):
            ctx.violation(R4, inst, text, loc, key='%s|%s|%s|%s' % (R4, tu.fn_file(d), short_name(d['q']), kind))
        if unjoined:
            flagtests = []
            seenf = set()

            def scan(fn, depth=0):
                if fn['id'] in seenf or depth > 4 or tu.cfg(fn) is None:
                    return
                seenf.add(fn['id'])
                g2 = tu.cfg(fn)
                for blk in g2.blocks.values():
                    if blk.cond and flag_read(tu, rec, tu.node(blk.cond)) is not None:
                        flagtests.append('%s (%s)' % (short_name(fn['q']), tu.loc(blk.cond)))
                for b2, i2, y in g2.stmts():
                    if y.get('kind') == 'CXXMemberCallExpr':
                        sd2, obj2, a2 = tu.call_parts(y)
                        c2 = tu.callee_fn(y)
                        if obj2 is not None and X.is_this_expr(tu, obj2) and c2 is not None and c2.get('recid') == rec['id']:
                            scan(c2, depth + 1)
            scan(d)
            extra = (' The join is skipped when a completion flag is already set (test in %s): that flag is stored from inside the task, '
                     'which is still running -- returning from the closure, backend bookkeeping -- when it becomes true, so seeing it '
                     'true is not a join.' % ', '.join(sorted(set(flagtests)))) if flagtests else ''
            ctx.violation(R4, inst, 'the destructor returns on some path without waiting for the task its constructor started (%s): '
                          'the task keeps running and writes into the destroyed object (TBB: ~task_group with an unwaited task; '
                          'std::thread: joinable thread destroyed; enkiTS: running count decremented in freed memory).%s' % (how, extra), tu.fn_loc(d),
                          key='%s|%s|%s|no-wait' % (R4, tu.fn_file(d), short_name(d['q'])))
    return 1



# ================================================================================================
#  R-C02-5 async(): one heap packaged_task, invoked once then deleted by the scheduled closure only
# ================================================================================================
RX_PTASK = re.compile(r'^std::packaged_task<')
RX_TBB_ISOLATE = re.compile(r'^tbb::(\w+::)*isolate$')


def moved_lvalue_params(tu, f):
    """[(param, std::move call, consumer)] : a forwarding-reference parameter (`T &&`, T deduced) that in this instantiation is an
    lvalue reference to a non-const object (the caller passed a named object it still owns) is cast to an rvalue with std::move and bound to a `T &&` parameter -- the caller's own object is gutted"""
    out = []
    decl = X.fn_decl(tu, f)
    if decl is None:
        return out
    pat = tu.functions.get(f.get('pat')) if f.get('pat') else None
    fwd = set()
    if pat is not None:
        for i, pp in enumerate(pat.get('params', [])):
            if pp['ct'].rstrip().endswith('&&') and i < len(f['params']):
                fwd.add(f['params'][i]['id'])     # declared `T &&` with T deduced: a forwarding reference
    lv = {p['id']: p for p in f['params'] if p['id'] in fwd and p['ct'].rstrip().endswith('&') and not p['ct'].rstrip().endswith('&&')
          and not p['ct'].lstrip().startswith('const ')}
    if not lv:
        return out
    for x in tu.walk(decl):
        if x.get('kind') == 'CallExpr' and tu.sd(x).get('q') == 'std::move':
            args = tu.call_parts(x)[2]
            c = tu.strip(args[0], casts=True) if args else None
            d = c.get('referencedDecl', {}).get('id') if c is not None and c.get('kind') == 'DeclRefExpr' else None
            if d in lv:
                # what receives the xvalue
                p = tu.par(x)
                hops = 0
                while p is not None and hops < 6 and p.get('kind') in ('ImplicitCastExpr', 'ParenExpr', 'MaterializeTemporaryExpr',
                                                                       'ExprWithCleanups', 'CXXBindTemporaryExpr'):
                    p = tu.par(p)
                    hops += 1
                steals = False
                if p is not None and p.get('kind') in X.CONSTRUCTS + X.CALLS:
                    sd, obj, pargs = X.call_parts(tu, p)
                    pts = param_types(sd.get('fty', ''))
                    idx = [i for i, a in enumerate(pargs) if x['id'] in {y.get('id') for y in tu.walk(a)}]
                    steals = bool(idx) and idx[0] < len(pts) and pts[idx[0]].rstrip().endswith('&&')
                    steals = steals or (bool(idx) and not pts)
                if steals:
                    out.append((lv[d], x, p))
    return out


def check_async(ctx, W, tu, f):
    g = tu.cfg(f)
    inst = label(W, tu, f)
    file, name = tu.fn_file(f), short_name(f['q'])
    loc = tu.fn_loc(f)
    und, problems = [], []
    decl = X.fn_decl(tu, f)
    pid = f['params'][0]['id'] if f['params'] else None
    news = [(b, i, n) for b, i, n in g.stmts() if n.get('kind') == 'CXXNewExpr' and RX_PTASK.match(X.clean_t(tu.sd(n).get('aty', '')))]
    shared = False
    tvar = tname = None
    helper = None
    moved0 = None
    if len(news) == 1:
        nb, ni, new = news[0]
        init = tu.node(tu.sd(new).get('init'))
        carriers = {pid}
        for _ in range(2):
            for y in tu.walk(decl):
                if y.get('kind') == 'VarDecl' and tu.kids(y) and y['id'] not in carriers and decl_ref(tu, tu.kids(y)[-1]) in carriers:
                    carriers.add(y['id'])
        wraps = init is not None and init.get('kind') in X.CONSTRUCTS and any(decl_ref(tu, a) in carriers for a in tu.kids(init))
        if not wraps:
            und.append('the packaged_task is not constructed from the closure parameter')
        p = tu.par(new)
        hops = 0
        while p is not None and p.get('kind') not in ('VarDecl', 'CallExpr') and hops < 6:
            p = tu.par(p)
            hops += 1
        if p is not None and p.get('kind') == 'CallExpr' and tu.callee_fn(p) is not None and tu.cfg(tu.callee_fn(p)) is not None:
            # the new task is handed straight to a helper that owns the protocol: analyse the helper with its parameter as the pointer
            pf = tu.callee_fn(p)
            args0 = tu.call_parts(p)[2]
            ai0 = [i0 for i0, a0 in enumerate(args0) if new['id'] in {y.get('id') for y in tu.walk(a0)}]
            rets0 = [y for b0, i0, y in g.stmts() if y.get('kind') == 'ReturnStmt' and tu.kids(y)]
            if not ai0 or ai0[0] >= len(pf['params']):
                ctx.undecided(R5, inst, 'cannot follow the new packaged_task into %s' % pf['q'], loc)
                return 1
            if not (len(rets0) == 1 and core(tu, tu.kids(rets0[0])[0]) is not None and core(tu, tu.kids(rets0[0])[0]).get('id') == p['id']):
                und.append('async() does not return the value of %s, which receives the new packaged_task' % short_name(pf['q']))
            moved0 = moved_lvalue_params(tu, f)
            f, g, decl = pf, tu.cfg(pf), X.fn_decl(tu, pf)
            tvar, tname = pf['params'][ai0[0]]['id'], pf['params'][ai0[0]]['name']
            helper = pf
        elif p is None or p.get('kind') != 'VarDecl' or '*' not in (p.get('type', {}).get('desugaredQualType') or p.get('type', {}).get('qualType', '')):
            ctx.undecided(R5, inst, 'the new packaged_task is not held in a local raw pointer', loc)
            return 1
        else:
            tvar, tname = p['id'], p.get('name')
    elif not news:
        # alternative with the same meaning: the task lives in a std::shared_ptr created by make_shared from the closure
        for b, i, n in g.stmts():
            if n.get('kind') == 'CallExpr' and tu.sd(n).get('q') == 'std::make_shared' and \
                    re.match(r'^std::shared_ptr<std::packaged_task<', X.clean_t(tu.sd(n).get('ct', ''))):
                sd, obj, args = tu.call_parts(n)
                p = tu.par(n)
                hops = 0
                while p is not None and p.get('kind') != 'VarDecl' and hops < 8:
                    p = tu.par(p)
                    hops += 1
                if p is not None and p.get('kind') == 'VarDecl' and any(decl_ref(tu, a) == pid for a in args):
                    if tvar is not None:
                        tvar = None
                        break
                    tvar, tname, shared = p['id'], p.get('name'), True
    if tvar is None:
        ctx.undecided(R5, inst, '%d `new std::packaged_task` expressions in async() and no single make_shared<packaged_task> from the '
                      'closure (protocol not recognised)' % len(news), loc)
        return 1

    def target(e):
        """variable a (smart) pointer expression designates: p, *p, p.operator->(), p.operator*()"""
        c = core(tu, e)
        n2 = 0
        while c is not None and n2 < 6:
            n2 += 1
            if c.get('kind') == 'UnaryOperator' and c.get('opcode') == '*':
                c = core(tu, tu.kids(c)[0])
                continue
            if c.get('kind') == 'CXXOperatorCallExpr' and tu.sd(c).get('q', '').split('::')[-1] in ('operator->', 'operator*'):
                sd2, obj2, args2 = X.call_parts(tu, c)
                c = core(tu, obj2) if obj2 is not None else None
                continue
            break
        if c is not None and c.get('kind') == 'DeclRefExpr':
            return c.get('referencedDecl', {}).get('id')
        if c is not None and c.get('kind') == 'MemberExpr' and member_of_this(tu, c) in fmap:
            return fmap[member_of_this(tu, c)]      # field of a functor class = the variable it was constructed from
        return None
    fmap = {}
    # events in async itself
    getf = sched = None
    lam = None
    uses_after = []
    for b, i, n in g.stmts():
        k = n.get('kind')
        if k == 'CXXMemberCallExpr':
            sd, obj, args = tu.call_parts(n)
            if sd.get('rec', '') == 'std::packaged_task' and sd.get('q', '').endswith('::get_future') and obj is not None:
                if target(obj) == tvar:
                    getf = (b.id, i, n) if getf is None else getf
        if k == 'CallExpr':
            sd, obj, args = tu.call_parts(n)
            for ai, a in enumerate(args):
                l2 = X.find_closure(tu, a)
                if l2 is None or l2.op is None:
                    continue
                callee = tu.callee_fn(n)
                h = W.ha.analyse(tu, callee, ai) if callee is not None and tu.cfg(callee) is not None else None
                if h is not None and (h.events or h.wrappers):
                    if sched is not None:
                        problems.append(('scheduled-twice', 'async() schedules a closure more than once', tu.loc(n)))
                    sched = (b.id, i, n)
                    lam = l2
        if k == 'CXXDeleteExpr' and tu.kids(n) and decl_ref(tu, tu.kids(n)[0]) == tvar:
            problems.append(('deleted-by-async', 'async() itself deletes the packaged_task `%s` that the scheduled closure invokes and '
                             'deletes (%s)' % (tname, tu.loc(n)), tu.loc(n)))
    for prm, mv, cons in (moved0 if moved0 is not None else moved_lvalue_params(tu, f)):
        problems.append(('moves-from-callers-lvalue', 'async() applies std::move to its parameter `%s` at %s although in this '
                         'instantiation it is an lvalue reference (`%s`, the caller passed a named callable): %s steals the state of the '
                         'object the caller still owns -- a second async()/call of that callable runs a gutted closure (wrong value, or '
                         'std::bad_function_call). A forwarding reference has to be passed on with std::forward<TASK_T>'
                         % (prm['name'], tu.loc(mv), prm['ct'], (tu.sd(cons).get('q') or 'the receiving constructor')), tu.loc(mv)))
    if sched is None or lam is None:
        ctx.undecided(R5, inst, 'no call that hands a closure to the scheduler found in async()', loc)
        return 1
    if getf is None:
        und.append('no get_future() call on the new packaged_task')
    # exactly one schedule on every path
    def transfer(blk, idx, e, st):
        if e[0] == 'S' and e[1] == sched[2]['id']:
            return [min(2, st + 1)]
        return [st]
    counts, _r = X.exit_states(g, [0], transfer)
    if counts != {1}:
        problems.append(('dropped' if 0 in counts else 'twice', 'the closure that runs the packaged_task is scheduled %s on some path'
                         % ('zero times' if 0 in counts else 'more than once'), tu.loc(sched[2])))
    # no use of the pointer after the hand-off (the closure may already have deleted it)
    for blk, idx, e in X.reachable_after(g, (sched[0], sched[1])):
        if e[0] == 'S' and not shared:
            x = tu.node(e[1])
            if x is not None and x.get('kind') == 'DeclRefExpr' and x.get('referencedDecl', {}).get('id') == tvar:
                problems.append(('use-after-schedule', 'async() uses the packaged_task `%s` at %s after the closure that deletes it has '
                                 'been handed to the scheduler: the task may already have run and freed it' % (tname, tu.loc(x)), tu.loc(x)))
    # the returned future is the task's future
    fut_ok = False
    if getf is not None:
        fvars = set()
        pp = tu.par(getf[2])
        hops = 0
        while pp is not None and hops < 8 and pp.get('kind') != 'VarDecl':
            pp = tu.par(pp)
            hops += 1
        if pp is not None and pp.get('kind') == 'VarDecl':
            fvars.add(pp['id'])
        for b, i, n in g.stmts():
            if n.get('kind') == 'ReturnStmt' and tu.kids(n):
                c = core(tu, tu.kids(n)[0])
                if c is not None and (c.get('id') == getf[2]['id'] or decl_ref(tu, c) in fvars):
                    fut_ok = True
        if not fut_ok:
            und.append('the returned future is not recognisably the one obtained from get_future()')
    # the closure
    clo = lam
    fmap.update(clo.fieldmap)
    cap = clo.capture_of(tvar)
    if cap is None:
        und.append('the scheduled closure does not capture the packaged_task pointer `%s`' % tname)
    elif cap[1]:
        problems.append(('captured-by-reference', 'the scheduled closure captures the local pointer `%s` by reference (%s): the local is '
                         'gone when async() returns, the task then invokes/deletes through a dangling reference' % (tname, cap[2]), tu.loc(clo.node)))
    if clo.op is None or tu.cfg(clo.op) is None:
        und.append('closure body not in the facts')
    else:
        cg = tu.cfg(clo.op)
        cprob = []
        tvars = {tvar}
        followed = set()

        def ctransfer(blk, idx, e, st):
            if e[0] != 'S':
                return [st]
            x = tu.node(e[1])
            if x is None:
                return [st]
            inv, dele = st
            k = x.get('kind')
            if k == 'CallExpr' and len(tvars) < 4:
                sd, obj, args = tu.call_parts(x)
                c0 = tu.callee_fn(x)
                hit = [i0 for i0, a0 in enumerate(args) if target(a0) in tvars]
                if hit and c0 is not None and tu.cfg(c0) is not None and hit[0] < len(c0['params']) and sd.get('q') not in X.FORWARDERS:
                    tvars.add(c0['params'][hit[0]]['id'])
                    followed.add(x['id'])
                    sub, _r0 = X.exit_states(tu.cfg(c0), [st], ctransfer)
                    return sorted(sub) if sub else [st]
            if k == 'CXXOperatorCallExpr':
                sd, obj, args = X.call_parts(tu, x)
                if sd.get('q', '').endswith('::operator()') and obj is not None and target(obj) in tvars:
                    if dele:
                        cprob.append(('use-after-delete', 'the closure invokes the packaged_task at %s after deleting it' % tu.loc(x), tu.loc(x)))
                    return [(min(2, inv + 1), dele)]
            if k == 'CXXDeleteExpr' and tu.kids(x) and target(tu.kids(x)[0]) in tvars:
                if dele:
                    cprob.append(('double-delete', 'the closure deletes the packaged_task twice (%s)' % tu.loc(x), tu.loc(x)))
                if not inv:
                    cprob.append(('delete-before-invoke', 'the closure deletes the packaged_task at %s on a path where it has not been '
                                  'invoked yet: the later invocation uses freed memory / the future is never satisfied' % tu.loc(x), tu.loc(x)))
                return [(inv, 1)]
            return [st]
        cex, _r = X.exit_states(cg, [(0, 0)], ctransfer)
        # calls that receive the task pointer but are not followed: their effect is unknown
        unknown = []
        for b2, i2, x in cg.stmts():
            if x.get('kind') in ('CallExpr', 'CXXMemberCallExpr'):
                sd2, obj2, args2 = X.call_parts(tu, x)
                if any(target(a) in tvars for a in args2) and sd2.get('q') not in X.FORWARDERS and x['id'] not in followed:
                    unknown.append('%s (%s)' % (sd2.get('q'), tu.loc(x)))
        for inv, dele in sorted(cex):
            if inv == 0 and unknown:
                und.append('the closure passes the packaged_task to %s, which is not followed' % ', '.join(sorted(set(unknown))))
                continue
            if inv != 1:
                cprob.append(('invoke-count', 'the closure invokes the packaged_task %s on some path: %s'
                              % ('zero times' if inv == 0 else 'more than once',
                                 'the future is never satisfied' if inv == 0 else 'the second call throws std::future_error inside the task'),
                              tu.fn_loc(clo.op)))
        problems += cprob
    for u in sorted(set(und)):
        ctx.undecided(R5, inst, u, loc)
    for kind, text, l in sorted(set(problems)):
        ctx.violation(R5, inst, text, l, key='%s|%s|%s|%s' % (R5, file, name, kind))
    if not und and not problems:
        ctx.ok(R5, inst, ('one make_shared packaged_task from the closure; get_future; scheduled once; shared_ptr captured by value; closure: '
               'invoke once; the task\'s future is returned') if shared else
               'one new packaged_task from the closure; get_future; scheduled once; pointer captured by value; closure: '
               'invoke once, then delete; no use after the hand-off; the task\'s future is returned', loc)
    return 1



# ================================================================================================
#  R-C02-6 nobody frees what the scheduler still touches
# ================================================================================================
def scheduler_post_access(ctx, W):
    """(i) mine the obligation: does the scheduler access a task after calling its ExecuteRange?"""
    tu = W.scheduler
    sites = []
    for f in tu.functions.values():
        if f['dep'] or tu.cfg(f) is None:
            continue
        g = tu.cfg(f)
        for b, i, n in g.stmts():
            if n.get('kind') == 'CXXMemberCallExpr' and tu.sd(n).get('q') == X.ENKI_EXECUTE:
                sd, obj, args = tu.call_parts(n)
                ap = X.access_path(tu, obj) if obj is not None else None
                same, other = [], []
                for blk, idx, e in X.reachable_after(g, (b.id, i)):
                    if e[0] != 'S':
                        continue
                    x = tu.node(e[1])
                    if x is None or x.get('kind') != 'MemberExpr' or not x.get('isArrow') or 'fi' not in tu.sd(x):
                        continue
                    base = tu.kids(x)[0] if tu.kids(x) else None
                    bt = X.clean_t(tu.sd(core(tu, base)).get('ct', '')) if base is not None and core(tu, base) is not None else ''
                    if not any(X.derived_from(tu, r, X.ENKI_COMPLETABLE) for r in X.record_of_type(tu, bt)):
                        continue
                    ap2 = X.access_path(tu, base)
                    (same if (ap is not None and ap2 == ap) else other).append((x.get('name'), tu.loc(x)))
                sites.append((f, n, ap, same, other))
    active = False
    for f, n, ap, same, other in sites:
        inst = '[INTERNAL] %s: %s at %s' % (short_name(f['q']), tu.show(n), tu.loc(n)) + W.tag
        if same:
            active = True
            ctx.ok(R6, inst, 'obligation mined: after ExecuteRange returns the scheduler accesses the task through the same pointer: %s'
                   % ', '.join('%s (%s)' % s for s in sorted(set(same))[:4]), tu.loc(n))
        elif other:
            ctx.ok(R6, inst, 'after ExecuteRange returns the scheduler accesses a task through another pointer of the same type (may '
                   'alias): %s' % ', '.join('%s (%s)' % s for s in sorted(set(other))[:4]), tu.loc(n))
        else:
            ctx.ok(R6, inst, 'no access to a task object after this ExecuteRange call', tu.loc(n), nontrivial=False)
    return len(sites), active


def self_destruction(W, tu, fn, aliases=('this',), depth=0, seen=None):
    """does fn (a member of a task object; `aliases` name the task pointer) destroy the task, directly or via callees?
    -> (hits [(call chain, delete node)], escapes [text])"""
    seen = seen if seen is not None else set()
    hits, escapes = [], []
    key = (id(tu), fn['id'], tuple(sorted(aliases)))
    if key in seen or depth > 8:
        return hits, escapes
    seen.add(key)
    decl = X.fn_decl(tu, fn)
    if decl is None:
        return hits, escapes
    aliases = set(aliases)

    def is_alias(e):
        c = core(tu, e)
        if c is None:
            return False
        if c.get('kind') == 'CXXThisExpr':
            return 'this' in aliases
        if c.get('kind') == 'DeclRefExpr':
            return c.get('referencedDecl', {}).get('id') in aliases
        return False
    for _ in range(2):
        for x in tu.walk(decl):
            if x.get('kind') == 'VarDecl' and tu.kids(x) and x['id'] not in aliases and is_alias(tu.kids(x)[-1]):
                aliases.add(x['id'])
    here = '%s (%s)' % (short_name(fn['q']), tu.fn_loc(fn))
    for x in tu.walk(decl):
        k = x.get('kind')
        if k == 'CXXDeleteExpr' and tu.kids(x) and is_alias(tu.kids(x)[0]):
            hits.append(([here], x, tu))
        elif k in ('CXXMemberCallExpr', 'CallExpr', 'CXXOperatorCallExpr') + X.CONSTRUCTS:
            sd, obj, args = X.call_parts(tu, x)
            q = sd.get('q', '')
            if q in X.FORWARDERS:
                continue
            if k == 'CXXMemberCallExpr' and '::~' in q and obj is not None and is_alias(obj):
                hits.append(([here], x, tu))
                continue
            passed = [ai for ai, a in enumerate(args) if is_alias(a)]
            via_obj = obj is not None and is_alias(obj)
            if not passed and not via_obj:
                continue
            callee = tu.callee_fn(x)
            tu2 = tu
            if callee is None or tu.cfg(callee) is None:
                lf = W.lib_fn(q)
                if lf is not None:
                    tu2, callee = lf
                else:
                    callee = None
            if callee is None:
                if passed:
                    escapes.append('the task pointer is passed to %s (%s), whose body is not in the analysed units' % (q or '?', tu.loc(x)))
                continue
            al2 = set()
            if via_obj:
                al2.add('this')
            for ai in passed:
                if ai < len(callee['params']):
                    al2.add(callee['params'][ai]['id'])
            h2, e2 = self_destruction(W, tu2, callee, tuple(sorted(al2)), depth + 1, seen)
            hits += [([here + ' calls ' + tu.show(x)] + ch, node, t3) for ch, node, t3 in h2]
            escapes += e2
    return hits, escapes


def task_overrides(tu):
    return [f for f in tu.functions.values() if not f['dep'] and X.ENKI_EXECUTE in (f.get('overrides') or []) and tu.cfg(f) is not None]


def check_overrides(ctx, W, tu, active, verdicts=None):
    n = 0
    handled = set()
    for f in sorted(task_overrides(tu), key=lambda f: f['q']):
        n += 1
        hits, escapes = self_destruction(W, tu, f)
        for ch, node, t3 in hits:
            handled.add((id(t3), node['id']))
        name = short_name(f['q'])
        if verdicts is not None:
            verdicts.append((name, bool(hits)))
            continue
        inst = '[%s] %s' % (tu.config, f['q'].replace('rkcommon::tasking::', '')) + W.tag
        if hits:
            ch, node, t3 = hits[0]
            if active:
                ctx.violation(R6, inst, 'this ExecuteRange override destroys its own task object (%s at %s) while the scheduler still '
                              'accesses the task after ExecuteRange returns (it decrements the task\'s running count through the same '
                              'pointer): use-after-free in the scheduler' % (t3.show(node), t3.loc(node)), t3.loc(node),
                              key='%s|%s|%s|delete-this' % (R6, tu.fn_file(f), name), path=ch + ['%s: %s' % (t3.loc(node), t3.show(node))])
            else:
                ctx.undecided(R6, inst, 'the override destroys its own task object (%s) but no scheduler access after ExecuteRange was '
                              'found: who may still touch the task has to be re-derived' % t3.loc(node), tu.fn_loc(f))
        elif escapes:
            for u in sorted(set(escapes)):
                ctx.undecided(R6, inst, u, tu.fn_loc(f))
        else:
            ctx.ok(R6, inst, 'neither the override nor anything it calls with the task pointer destroys the task object', tu.fn_loc(f))
    return n, handled


def check_task_deletes(ctx, W, tu, handled, verdicts=None):
    """(iii) a delete of a task object outside ExecuteRange needs a completion test / join / never-scheduled proof"""
    n = 0
    for f in sorted(tu.functions.values(), key=lambda f: f['q']):
        if f['dep'] or tu.cfg(f) is None:
            continue
        g = tu.cfg(f)
        for b, i, x in g.stmts():
            if x.get('kind') != 'CXXDeleteExpr' or x.get('isArray') or not tu.kids(x) or (id(tu), x['id']) in handled:
                continue
            op = core(tu, tu.kids(x)[0])
            if op is None:
                continue
            if op.get('kind') == 'CXXThisExpr':
                recs = [tu.records.get(f.get('recid'))]
                var = 'this'
            else:
                recs = X.record_of_type(tu, tu.sd(op).get('ct', ''))
                var = decl_ref(tu, op)
            if not any(r is not None and X.derived_from(tu, r, X.ENKI_COMPLETABLE) for r in recs):
                continue
            n += 1
            name = short_name(f['q'])
            inst = '[%s] %s: %s at %s' % (tu.config, f['q'].replace('rkcommon::tasking::', ''), tu.show(x), tu.loc(x)) + W.tag
            if var is None:
                if verdicts is not None:
                    verdicts.append((name, None))
                else:
                    ctx.undecided(R6, inst, 'a task object is deleted through an expression that is not a plain local/parameter', tu.loc(x))
                continue
            vd = tu.node(var) if var != 'this' else None
            init = 'unknown'
            if vd is not None and vd.get('kind') == 'VarDecl' and tu.kids(vd):
                c0 = core(tu, tu.kids(vd)[-1])
                if c0 is not None and c0.get('kind') == 'CXXNewExpr':
                    init = 'fresh'
            found = []

            def is_var(e):
                c = core(tu, e)
                if c is None:
                    return False
                if var == 'this':
                    return c.get('kind') == 'CXXThisExpr'
                return c.get('kind') == 'DeclRefExpr' and c.get('referencedDecl', {}).get('id') == var

            def transfer(blk, idx, e, st):
                if e[0] != 'S':
                    return [st]
                y = tu.node(e[1])
                if y is None:
                    return [st]
                if y['id'] == x['id']:
                    found.append(st)
                    return [st]
                k = y.get('kind')
                if k == 'DeclStmt' and vd is not None and any(z.get('id') == var for z in tu.kids(y)):
                    return [init]
                if k == 'CallExpr':
                    sd, obj, args = tu.call_parts(y)
                    q = sd.get('q', '')
                    if any(is_var(a) for a in args):
                        if W.joinfn.get(q):
                            return ['joined']
                        if q in W.submit:
                            return ['submitted']
                        return ['unknown'] if st == 'fresh' else [st]
                if k == 'BinaryOperator' and y.get('opcode') == '=' and is_var(tu.kids(y)[0]):
                    c1 = core(tu, tu.kids(y)[1])
                    return ['fresh' if c1 is not None and c1.get('kind') == 'CXXNewExpr' else 'unknown']
                return [st]

            def refine(blk, si, st):
                if blk.cond and len(blk.succ) == 2:
                    c = core(tu, tu.node(blk.cond))
                    pol = 1
                    while c is not None and c.get('kind') == 'UnaryOperator' and c.get('opcode') == '!':
                        pol = -pol
                        c = core(tu, tu.kids(c)[0])
                    if c is not None and c.get('kind') == 'CXXMemberCallExpr' and tu.sd(c).get('q') == X.ENKI_ISCOMPLETE:
                        sd, obj, args = tu.call_parts(c)
                        if obj is not None and is_var(obj) and ((si == 0) == (pol == 1)):
                            return ['complete']
                return [st]
            g.explore(['unknown' if vd is None or vd.get('kind') != 'VarDecl' else 'undeclared'], transfer, refine)
            states = set(found)
            bad = 'submitted' in states
            unk = bool(states & {'unknown', 'undeclared'})
            if verdicts is not None:
                verdicts.append((name, True if bad else (None if unk else False)))
                continue
            if bad:
                ctx.violation(R6, inst, 'the task object `%s` is deleted on a path where it has been handed to the scheduler and neither its '
                              'completion was tested (GetIsComplete) nor was it waited for: the scheduler may still run or update it'
                              % tu.show(op), tu.loc(x), key='%s|%s|%s|delete-without-completion-test' % (R6, tu.fn_file(f), name))
            elif unk:
                ctx.undecided(R6, inst, 'a task object of unknown scheduling state is deleted without a completion test', tu.loc(x))
            else:
                ctx.ok(R6, inst, 'deleted only when %s' % '/'.join(sorted(states)), tu.loc(x))
    return n



# ---- (iv) a task becomes reachable by a completion-guarded delete only after it has been handed to the scheduler
STORE_METHODS = ('push_back', 'emplace_back', 'push_front', 'emplace_front', 'push', 'emplace', 'insert')


def is_shared_root(tu, root):
    if root == 'this':
        return True
    d = tu.node(root)
    if d is None or d.get('kind') != 'VarDecl':
        return False
    return tu.enclosing_fn(d) is None or d.get('storageClass') == 'static'


def loop_range_path(tu, vd):
    """container access path if vd is the loop variable of a range-for"""
    if vd is None or vd.get('kind') != 'VarDecl' or not tu.kids(vd):
        return None
    c = core(tu, tu.kids(vd)[-1])
    it = None
    if c is not None and c.get('kind') == 'CXXOperatorCallExpr' and tu.sd(c).get('q', '').endswith('operator*'):
        sd, obj, args = X.call_parts(tu, c)
        it = decl_ref(tu, obj) if obj is not None else None
    elif c is not None and c.get('kind') == 'UnaryOperator' and c.get('opcode') == '*':
        it = decl_ref(tu, tu.kids(c)[0])
    bd = tu.node(it) if it else None
    if bd is None or not tu.kids(bd):
        return None
    c = core(tu, tu.kids(bd)[-1])
    if c is None or c.get('kind') != 'CXXMemberCallExpr' or tu.sd(c).get('q', '').split('::')[-1] not in ('begin', 'cbegin'):
        if c is not None and c.get('kind') == 'DeclRefExpr':       # arrays / pointers: not a container of tasks we track
            return None
        return None
    sd, obj, args = tu.call_parts(c)
    ap = X.access_path(tu, obj) if obj is not None else None
    if ap is not None and len(ap) == 1:
        rd = tu.node(ap[0])
        if rd is not None and rd.get('name', '').startswith('__range') and tu.kids(rd):
            return X.access_path(tu, tu.kids(rd)[-1])
    return ap


def check_publication_order(ctx, W, tu, verdicts=None):
    """(iv) a task becomes reachable by a completion-guarded delete only after it has been handed to the scheduler.
    Calls into functions of the same unit are inlined (task pointer and `this` bound at the call site)."""
    results = []          # (fn, pname, has_submit, stored, reaches_shared, problems)
    inlined = set()       # functions analysed as part of a caller

    def norm(ap, prefix):
        if ap is not None and ap and ap[0] == 'this' and prefix is not None:
            return prefix + ap[1:]
        if ap is not None and ap and ap[0] != 'this':
            tgt = ref_target(tu, tu.node(ap[0]))        # a local reference to a static object denotes that object
            if tgt is not None:
                return (tgt['id'],) + ap[1:]
        return ap
    tables = {}

    def table(fn, pids, prefix):
        key = (fn['id'], tuple(sorted(pids)), prefix)
        if key in tables:
            return tables[key]
        g = tu.cfg(fn)
        ev = {}
        for b, i, x in g.stmts():
            k = x.get('kind')
            if k in ('CallExpr', 'CXXMemberCallExpr'):
                sd, obj, args = tu.call_parts(x)
                q = sd.get('q', '')
                if k == 'CallExpr' and q in W.submit:
                    if any(decl_ref(tu, a) in pids for a in args):
                        ev[x['id']] = ('submit', x)
                    continue
            if k in ('CXXMemberCallExpr', 'CXXOperatorCallExpr') and X.call_parts(tu, x)[0].get('rec', '').startswith('std::'):
                sd, obj, args = X.call_parts(tu, x)
                name = sd.get('q', '').split('::')[-1]
                if obj is None:
                    continue
                dst = norm(X.access_path(tu, obj), prefix)
                if name in STORE_METHODS and any(decl_ref(tu, a) in pids for a in args):
                    ev[x['id']] = ('store', x, dst)
                    continue
                srcs = []
                if name in STORE_METHODS:       # element-wise copy: an element of another container (loop variable) is stored
                    for a in args:
                        v = decl_ref(tu, a)
                        rp = norm(loop_range_path(tu, tu.node(v)), prefix) if v else None
                        if rp is not None and rp != dst:
                            srcs.append(rp)
                if name in ('insert', 'assign', 'swap', 'operator=', 'merge', 'splice'):
                    for a in args:
                        for y in tu.walk(a):
                            if y.get('kind') == 'CXXMemberCallExpr' and tu.sd(y).get('q', '').split('::')[-1] in ('begin', 'end', 'cbegin', 'cend'):
                                sd2, obj2, a2 = tu.call_parts(y)
                                ap2 = norm(X.access_path(tu, obj2), prefix) if obj2 is not None else None
                                if ap2 is not None and ap2 != dst:
                                    srcs.append(ap2)
                        ap3 = norm(X.access_path(tu, a), prefix)
                        if ap3 is not None and name in ('swap', 'operator=', 'merge', 'splice') and ap3 != dst:
                            srcs.append(ap3)
                if srcs:
                    ev[x['id']] = ('flow', x, dst, srcs, name == 'swap')
                continue
            if k in ('CallExpr', 'CXXMemberCallExpr'):
                sd, obj, args = tu.call_parts(x)
                callee = tu.callee_fn(x)
                if callee is not None and tu.cfg(callee) is not None and not callee['dep'] and callee['q'] not in W.submit \
                        and not callee['q'].startswith('std::') and tu.fn_file(callee) == tu.fn_file(fn):
                    np = {callee['params'][ai]['id'] for ai, a in enumerate(args)
                          if ai < len(callee['params']) and decl_ref(tu, a) in pids}
                    npfx = norm(X.access_path(tu, obj), prefix) if (k == 'CXXMemberCallExpr' and obj is not None) else None
                    ev[x['id']] = ('call', x, callee, np, npfx)
                elif any(decl_ref(tu, a) in pids for a in args) and sd.get('q') not in X.FORWARDERS:
                    ev[x['id']] = ('escape', x, sd.get('q'))
                continue
            if k == 'CXXDeleteExpr' and tu.kids(x):
                v = decl_ref(tu, tu.kids(x)[0])
                rp = norm(loop_range_path(tu, tu.node(v)), prefix) if v else None
                if rp is not None:
                    ev[x['id']] = ('sweep', x, rp)
        tables[key] = (g, ev)
        return tables[key]

    def run_fn(fn, pids, prefix, st0, sink, depth=0):
        """exit states of fn entered with st0 = (submitted, holders, stored-anything)"""
        if depth > 4:
            return {st0}
        g, ev = table(fn, pids, prefix)
        pname = sink['pname']

        def transfer(blk, idx, e, st):
            if e[0] != 'S' or e[1] not in ev:
                return [st]
            sub, holders, stored = st
            x = ev[e[1]]
            if x[0] == 'submit':
                sink['has_submit'] = True
                return [(True, holders, stored)]
            if x[0] == 'escape':
                sink['escapes'].append('%s (%s)' % (x[2], tu.loc(x[1])))
                return [st]
            if x[0] == 'call':
                inlined.add(x[2]['id'])
                if not x[3] and not holders:
                    return [st]         # neither receives the task nor can it meet it in a container
                return sorted(run_fn(x[2], x[3], x[4], st, sink, depth + 1), key=repr)
            newh = set(holders)
            gained = []
            if x[0] == 'store' and x[2] is not None:
                newh.add(x[2])
                gained.append(x[2])
                stored = True
            if x[0] == 'flow':
                dst, srcs, sw = x[2], x[3], x[4]
                if dst is not None and any(sp in holders for sp in srcs):
                    newh.add(dst)
                    gained.append(dst)
                if sw and dst in holders:
                    for sp in srcs:
                        newh.add(sp)
                        gained.append(sp)
            if x[0] == 'sweep' and not sub and x[2] in holders:
                sink['problems'].append(('swept-before-scheduled', 'the completion-guarded delete at %s sweeps a container that already holds '
                                         'the task `%s`, which has not been handed to the scheduler yet on this path: its running count is '
                                         'still 0, so it looks complete and is deleted before it ever runs' % (tu.loc(x[1]), pname), tu.loc(x[1])))
            for ap in gained:
                if is_shared_root(tu, ap[0]):
                    sink['shared'] = True
                    if tu is W.tasksys:
                        W.registry_roots.add(ap[0])
                    if not sub:
                        sink['problems'].append(('published-before-scheduled', 'the task `%s` is put into the shared container `%s` at %s '
                                                 'on a path where it has not been handed to the scheduler yet: until AddTaskSetToPipe increments it, '
                                                 'its running count is 0, so another thread sweeping that container sees GetIsComplete() == true '
                                                 'and deletes the task before it runs (use-after-free in the scheduler, closure never executed)'
                                                 % (pname, tu.show(X.call_parts(tu, x[1])[1]) if X.call_parts(tu, x[1])[1] is not None else '?',
                                                    tu.loc(x[1])), tu.loc(x[1])))
            return [(sub, frozenset(newh), stored)]
        exits, _r = X.exit_states(g, [st0], transfer)
        return exits or {st0}

    for f in sorted(tu.functions.values(), key=lambda f: f['q']):
        if f['dep'] or tu.cfg(f) is None:
            continue
        decl = X.fn_decl(tu, f)
        cands = [(p['id'], p['name'], p['ct']) for p in f['params'] if '*' in p['ct']]
        for x in tu.walk(decl):
            if x.get('kind') == 'VarDecl' and tu.kids(x) and core(tu, tu.kids(x)[-1]) is not None and \
                    core(tu, tu.kids(x)[-1]).get('kind') == 'CXXNewExpr':
                cands.append((x['id'], x.get('name'), tu.sd(core(tu, tu.kids(x)[-1])).get('ct', '')))
        for pid, pname, pct in cands:
            if not any(r is not None and X.derived_from(tu, r, X.ENKI_COMPLETABLE) for r in X.record_of_type(tu, pct)):
                continue
            sink = dict(pname=pname, has_submit=False, shared=False, problems=[], escapes=[])
            # `this` of a member function analysed on its own stays `this` (shared: reachable from other threads)
            exits = run_fn(f, {pid}, None, (False, frozenset(), False), sink)
            if not any(st[2] for st in exits):
                continue
            # without a submit in the call tree the order is unknown: probe ignoring submits was done implicitly (never submitted)
            results.append((f, pname, sink))
    n = 0
    for f, pname, sink in results:
        name = short_name(f['q'])
        has_submit = sink['has_submit']
        if not has_submit and f['id'] in inlined:
            continue        # a helper: decided in the context of its callers, which were analysed with it inlined
        n += 1
        inst = '[%s] %s: task `%s`' % (tu.config, f['q'].replace('rkcommon::tasking::', ''), pname) + W.tag
        problems = sink['problems'] if has_submit else []
        if verdicts is not None:
            verdicts.append((name, bool(problems) if has_submit else None))
            continue
        if not has_submit:
            if sink['shared']:
                ctx.undecided(R6, inst, 'the task is stored into a shared container but neither this function nor anything it calls hands '
                              'it to the scheduler, and no analysed caller does: cannot see whether it was scheduled before it became '
                              'reachable by the reaper', tu.fn_loc(f))
            else:
                n -= 1
            continue
        if problems:
            for kind, text, loc in sorted(set(problems)):
                ctx.violation(R6, inst, text, loc, key='%s|%s|%s|%s' % (R6, tu.fn_file(f), name, kind))
        elif sink['escapes'] and not sink['shared']:
            n -= 1
        else:
            ctx.ok(R6, inst, 'handed to the scheduler before it is stored where a completion-guarded delete can reach it', tu.fn_loc(f))
    return n

# ================================================================================================
#  R-C02-7 no lost wake-up: register as waiter, re-check for work, then sleep; publish a task, then wake
# ================================================================================================
SEM_WAIT, SEM_SIGNAL, ATOMIC_ADD = 'enki::SemaphoreWait', 'enki::SemaphoreSignal', 'enki::AtomicAdd'
R7 = 'R-C02-7'


def reaches(tu, pred):
    """ids of functions (with a body in tu) that call, directly or through other functions of tu, a callee satisfying pred"""
    calls = {}
    direct = set()
    for f in tu.functions.values():
        if f['dep'] or tu.cfg(f) is None:
            continue
        cs = set()
        for b, i, x in tu.cfg(f).stmts():
            if x.get('kind') in X.CALLS:
                q = tu.sd(x).get('q', '')
                if pred(q):
                    direct.add(f['id'])
                c = tu.callee_fn(x)
                if c is not None:
                    cs.add(c['id'])
        calls[f['id']] = cs
    out = set(direct)
    changed = True
    while changed:
        changed = False
        for fid, cs in calls.items():
            if fid not in out and cs & out:
                out.add(fid)
                changed = True
    return out


def deciding(tu, cond):
    """the operand whose value decides a branch: in the CFG the block that evaluates the last operand of `a && b` / `a || b`
    carries the whole expression as its condition, and there its value equals that of the last operand"""
    c = core(tu, cond)
    n0 = 0
    while c is not None and c.get('kind') == 'BinaryOperator' and c.get('opcode') in ('&&', '||') and n0 < 6:
        c = core(tu, tu.kids(c)[1])
        n0 += 1
    return c


def r7_name(f):
    n = short_name(f['q'])
    return n[len('enki::'):] if n.startswith('enki::') else n


RX_SYNC_RMW = re.compile(r'^__sync_(fetch_and_\w+|\w+_and_fetch|val_compare_and_swap|bool_compare_and_swap)$')
FULL_FENCE_FNS = {'__sync_synchronize', '_mm_mfence', 'enki::AtomicAdd', 'enki::AtomicCompareAndSwap', 'enki::AtomicCompareAndSwapPtr'}
PUBLISH_METHODS = ('WriterTryWriteFront', 'WriterWriteFront')


def is_full_fence(tu, x):
    """a full (store-load) barrier: seq_cst fence, __sync_synchronize, or an atomic read-modify-write. Compiler-only barriers
    (asm volatile("":::"memory")) and volatile accesses are not."""
    k = x.get('kind')
    if k == 'CallExpr':
        sd, obj, args = tu.call_parts(x)
        q = sd.get('q', '')
        if q in FULL_FENCE_FNS or RX_SYNC_RMW.match(q):
            return True
        if q == 'std::atomic_thread_fence' and args:
            return const_value(tu, args[0]) == 5
        return False
    a = atomic_op(tu, x)
    if a is not None and a[0] == 'rmw':
        sd, obj, args = X.call_parts(tu, x)
        orders = [const_value(tu, y) for y in args[1:]] if len(args) > 1 else []
        return all(o in (None, 5) for o in orders) if orders else True
    return False


def check_publish_fence(ctx, W, tu, wake_fields, verdicts=None):
    """between the publication of a task (pipe / pinned-list write) and every plain load of the waiter count on the wake side there
    is a full fence on every path (callees inlined): the register/re-check handshake is a store->load pattern on both sides"""
    memo, busy = {}, set()
    findings = {}        # reading function id -> (fn, read node, publishing function, publish node)

    def run(fn, st0, origin, depth=0):
        key = (fn['id'], st0)
        if key in memo:
            return memo[key]
        if key in busy or depth > 6:
            return {st0}
        busy.add(key)
        g = tu.cfg(fn)
        pubs = {}
        for b, i, x in g.stmts():
            if x.get('kind') == 'CXXMemberCallExpr' and tu.sd(x).get('q', '').split('::')[-1] in PUBLISH_METHODS:
                pubs[x['id']] = x

        def transfer(blk, idx, e, st):
            if e[0] != 'S':
                return [st]
            x = tu.node(e[1])
            if x is None:
                return [st]
            if x['id'] in pubs:
                return [('unfenced', (fn['id'], x['id']))]
            if is_full_fence(tu, x):
                return [('fenced', None)] if st[0] == 'unfenced' else [st]
            if x.get('kind') == 'MemberExpr' and 'fi' in tu.sd(x) and (fn.get('recid'), member_of_this(tu, x)) in wake_fields \
                    and st[0] == 'unfenced':
                p = tu.par(x)
                if p is not None and p.get('kind') == 'ImplicitCastExpr' and p.get('castKind') == 'LValueToRValue':
                    findings.setdefault((fn['id'], st[1][0] if st[1] else None), (fn, x, st[1]))
                return [st]
            if x.get('kind') in X.CALLS:
                c = tu.callee_fn(x)
                if c is not None and tu.cfg(c) is not None and not c['dep'] and c['id'] != fn['id'] and \
                        tu.fn_file(c).endswith(('.cpp', '.cc')) :
                    return sorted(run(c, st, origin, depth + 1), key=repr)
            return [st]

        def refine(blk, si, st):      # a failed TryWrite published nothing
            if st[0] != 'unfenced' or not blk.cond or len(blk.succ) != 2 or st[1] is None or st[1][0] != fn['id']:
                return [st]
            c = deciding(tu, tu.node(blk.cond))
            pol = 1
            while c is not None and c.get('kind') == 'UnaryOperator' and c.get('opcode') == '!':
                pol = -pol
                c = core(tu, tu.kids(c)[0])
            if c is not None and c.get('id') == st[1][1] and tu.sd(c).get('q', '').endswith('TryWriteFront'):
                return [st] if ((si == 0) == (pol == 1)) else [('nopub', None)]
            return [st]
        exits, _r = X.exit_states(g, [st0], transfer, refine)
        busy.discard(key)
        memo[key] = exits or {st0}
        return memo[key]

    publishers = []
    for f in sorted(tu.functions.values(), key=lambda f: f['q']):
        if f['dep'] or tu.cfg(f) is None:
            continue
        if any(x.get('kind') == 'CXXMemberCallExpr' and tu.sd(x).get('q', '').split('::')[-1] in PUBLISH_METHODS
               for b, i, x in tu.cfg(f).stmts()):
            publishers.append(f)
            run(f, ('nopub', None), f)
    n = 0
    for f in publishers:
        n += 1
    if verdicts is not None:
        for f in publishers:
            # a publisher is bad if a finding originates from one of its publications
            bad = any(pub is not None and pub[0] == f['id'] for fn, x, pub in findings.values())
            verdicts.append((r7_name(f) + '#fence', bad))
        return n
    for fid, (fn, x, pub) in sorted(findings.items(), key=lambda kv: (kv[1][0]['q'], str(kv[0][1]))):
        pf = tu.functions.get(pub[0]) if pub else None
        inst = '[%s] %s: reads the waiter count after a task was published' % (tu.config, fn['q']) + W.tag
        ctx.violation(R7, inst, 'the waiter count `%s` is read with a plain load at %s on a path from the publication of a task (%s at %s) '
                      'that contains no full fence (std::atomic_thread_fence(seq_cst), __sync_synchronize() or an atomic read-modify-write; '
                      'compiler barriers and volatile do not count): the store that publishes the task can still sit in the store buffer '
                      'while a stale 0 is read, the registering worker meanwhile saw an empty pipe -> nobody is woken and the task stays in '
                      'the pipe (lost wake-up)' % (x.get('name'), tu.loc(x), tu.show(tu.node(pub[1])) if pub else '?',
                                                   tu.loc(tu.node(pub[1])) if pub else '?'), tu.loc(x),
                      key='%s|%s|%s|no-full-fence-before-waiter-count' % (R7, tu.fn_file(fn), r7_name(fn)),
                      path=['%s: task published by %s' % (tu.loc(tu.node(pub[1])), pf['q'] if pf else '?'),
                            '%s: waiter count loaded in %s without an intervening full fence' % (tu.loc(x), fn['q'])] if pub else [])
    bad_pubs = {pub[0] for fn, x, pub in findings.values() if pub}
    for f in publishers:
        if f['id'] not in bad_pubs:
            ctx.ok(R7, '[%s] %s: publication -> waiter-count read' % (tu.config, f['q']) + W.tag,
                   'every path from a task publication in this function to a load of the waiter count passes a full fence', tu.fn_loc(f))
    return n


def check_wake_protocol(ctx, W, tu, verdicts=None):
    n_sleep = n_pub = 0
    checkers = reaches(tu, lambda q: q.endswith('::IsPipeEmpty'))
    signalers = reaches(tu, lambda q: q == SEM_SIGNAL)
    # fields whose value decides how many sleepers the wake side posts
    wake_fields = {}
    for f in tu.functions.values():
        if f['dep'] or tu.cfg(f) is None:
            continue
        for b, i, x in tu.cfg(f).stmts():
            if x.get('kind') == 'CallExpr' and tu.sd(x).get('q') == SEM_SIGNAL:
                sd, obj, args = tu.call_parts(x)
                if len(args) >= 2:
                    srcs, seenv = [args[1]], set()
                    while srcs:             # the count expression, through local variables that hold it
                        e0 = srcs.pop()
                        for y in tu.walk(e0):
                            if y.get('kind') == 'MemberExpr' and 'fi' in tu.sd(y) and member_of_this(tu, y):
                                wake_fields.setdefault((f.get('recid'), member_of_this(tu, y)), y.get('name'))
                            if y.get('kind') == 'DeclRefExpr':
                                vd = tu.node(y.get('referencedDecl', {}).get('id'))
                                if vd is not None and vd.get('kind') == 'VarDecl' and vd['id'] not in seenv and \
                                        tu.enclosing_fn(vd) is not None and tu.kids(vd):
                                    seenv.add(vd['id'])
                                    srcs.append(tu.kids(vd)[-1])
                                    for b2, i2, z in tu.cfg(f).stmts():     # and later assignments to it
                                        if z.get('kind') == 'BinaryOperator' and z.get('opcode') == '=' and decl_ref(tu, tu.kids(z)[0]) == vd['id']:
                                            srcs.append(tu.kids(z)[1])

    def is_check(x):
        if x.get('kind') not in X.CALLS:
            return False
        if tu.sd(x).get('q', '').endswith('::IsPipeEmpty'):
            return True
        c = tu.callee_fn(x)
        return c is not None and c['id'] in checkers

    def counter_event(f, x):
        """(field id, +1|-1) if x changes a waiter count of f's object"""
        if x.get('kind') == 'CallExpr' and tu.sd(x).get('q') == ATOMIC_ADD:
            sd, obj, args = tu.call_parts(x)
            if len(args) >= 2:
                a0 = X.addr_of(tu, args[0])
                m = member_of_this(tu, a0) if a0 is not None else None
                v = const_value(tu, args[1])
                if m is not None and (f.get('recid'), m) in wake_fields and v:
                    return m, (1 if v > 0 else -1)
        if x.get('kind') == 'UnaryOperator' and x.get('opcode') in ('++', '--'):
            m = member_of_this(tu, tu.kids(x)[0])
            if m is not None and (f.get('recid'), m) in wake_fields:
                return m, (1 if x['opcode'] == '++' else -1)
        return None

    for f in sorted(tu.functions.values(), key=lambda f: f['q']):
        if f['dep'] or tu.cfg(f) is None:
            continue
        g = tu.cfg(f)
        nodes = [(b, i, x) for b, i, x in g.stmts()]
        name = r7_name(f)
        file = tu.fn_file(f)
        # ---------------- sleep side
        waits = [x for b, i, x in nodes if x.get('kind') == 'CallExpr' and tu.sd(x).get('q') == SEM_WAIT]
        if waits:
            n_sleep += 1
            inst = '[%s] %s: sleeps on a semaphore' % (tu.config, f['q']) + W.tag
            regs = [(x, counter_event(f, x)) for b, i, x in nodes if counter_event(f, x)]
            ups = [x for x, ce in regs if ce[1] > 0]
            has_check = any(is_check(x) for b, i, x in nodes)
            if not ups:
                if verdicts is not None:
                    verdicts.append((name, None))
                else:
                    ctx.undecided(R7, inst, 'the function blocks on a semaphore but does not register in a waiter count that the wake side '
                                  '(SemaphoreSignal) reads: wake-up protocol not recognised', tu.fn_loc(f))
            else:
                cname = wake_fields[(f.get('recid'), regs[0][1][0])]
                found = []
                # a loop over the pipes that contains the check counts as the check when its header is passed (zero pipes: vacuous)
                check_headers = set()
                preds = g.preds()
                chk_blocks = {b.id for b, i, x in nodes if is_check(x)}
                for t, h in g.back_edges():
                    body, work = {h, t}, [t]
                    while work:
                        y = work.pop()
                        for pz in preds.get(y, ()):
                            if pz not in body:
                                body.add(pz)
                                work.append(pz)
                    if body & chk_blocks:
                        check_headers.add(h)

                def transfer(blk, idx, e, st):
                    if e[0] != 'S':
                        return [st]
                    x = tu.node(e[1])
                    if x is None:
                        return [st]
                    reg, chk = st
                    if blk.id in check_headers and reg:
                        chk = 1
                        st = (reg, chk)
                    ce = counter_event(f, x)
                    if ce:
                        return [(1, 0)] if ce[1] > 0 else [(0, 0)]
                    if is_check(x) and reg:
                        return [(reg, 1)]
                    if x.get('kind') == 'CallExpr' and tu.sd(x).get('q') == SEM_WAIT:
                        found.append((st, x))
                    return [st]
                X.exit_states(g, [(0, 0)], transfer)
                problems = []
                for x, ce in regs:
                    if ce[1] > 0 and not is_full_fence(tu, x):
                        problems.append(('registration-not-a-full-fence', 'the thread registers in `%s` at %s with a plain (non read-modify-write) '
                                         'increment: without a full fence the following look at the pipes can be satisfied before the '
                                         'registration is visible to a publisher (lost wake-up), and concurrent registrations are lost'
                                         % (cname, tu.loc(x)), tu.loc(x)))
                for (reg, chk), x in found:
                    if not reg:
                        problems.append(('sleeps-unregistered', 'the thread blocks in SemaphoreWait at %s on a path where it has not registered in '
                                         '`%s`: a task published now finds no waiter to wake (WakeThreads posts `%s` times) and stays in the '
                                         'pipe while every worker sleeps' % (tu.loc(x), cname, cname), tu.loc(x)))
                    elif not chk:
                        problems.append(('recheck-before-register', 'the thread registers in `%s` only after its last look at the pipes%s and then '
                                         'blocks in SemaphoreWait at %s: a task published between that look and the registration sees zero '
                                         'waiters, posts nothing, and the thread sleeps with the task in the pipe (lost wake-up). The order must '
                                         'be: register, re-check for work, sleep' % (cname, '' if has_check else ' (there is none in this function)',
                                                                                    tu.loc(x)), tu.loc(x)))
                if verdicts is not None:
                    verdicts.append((name, bool(problems)))
                elif problems:
                    for kind, text, loc in sorted(set(problems)):
                        ctx.violation(R7, inst, text, loc, key='%s|%s|%s|%s' % (R7, file, name, kind))
                elif not found:
                    ctx.undecided(R7, inst, 'SemaphoreWait is not reachable in the CFG', tu.fn_loc(f))
                else:
                    ctx.ok(R7, inst, 'on every path to SemaphoreWait: `%s` incremented, then the pipes re-checked, then sleep' % cname, tu.fn_loc(f))
        # ---------------- publish side
        writes = [x for b, i, x in nodes if x.get('kind') == 'CXXMemberCallExpr' and tu.sd(x).get('q', '').endswith('::WriterTryWriteFront')]
        if writes and f['id'] in signalers | {f['id']}:
            n_pub += 1
            inst = '[%s] %s: publishes a task to a pipe' % (tu.config, f['q']) + W.tag
            wids = {x['id'] for x in writes}
            # variable that receives the success flag of a write
            okvar = {}
            for x in writes:
                p = tu.par(x)
                hops = 0
                while p is not None and hops < 4 and p.get('kind') in ('ImplicitCastExpr', 'ParenExpr', 'ExprWithCleanups'):
                    p = tu.par(p)
                    hops += 1
                if p is not None and p.get('kind') == 'VarDecl':
                    okvar[x['id']] = p['id']
                elif p is not None and p.get('kind') == 'BinaryOperator' and p.get('opcode') == '=':
                    d = decl_ref(tu, tu.kids(p)[0])
                    if d:
                        okvar[x['id']] = d
            problems, und = [], []

            def is_wake(x):
                if x.get('kind') not in X.CALLS:
                    return False
                if tu.sd(x).get('q') == SEM_SIGNAL:
                    return True
                c = tu.callee_fn(x)
                return c is not None and c['id'] in signalers and c['id'] != f['id']

            def ptransfer(blk, idx, e, st):
                if e[0] != 'S':
                    return [st]
                x = tu.node(e[1])
                if x is None:
                    return [st]
                if x['id'] in wids:
                    if st[0] == 'need':
                        problems.append(('published-without-wake', 'a task written to the pipe at %s is not followed by a wake-up of the '
                                         'sleeping workers before the next write' % tu.loc(tu.node(st[1])), tu.loc(tu.node(st[1]))))
                    return [('pending', x['id'])]
                if is_wake(x) and st[0] in ('need', 'pending', 'maybe'):
                    return [('none', None)]
                return [st]

            def prefine(blk, si, st):
                if st[0] != 'pending' or not blk.cond or len(blk.succ) != 2:
                    return [st]
                c = deciding(tu, tu.node(blk.cond))
                pol = 1
                while c is not None and c.get('kind') == 'UnaryOperator' and c.get('opcode') == '!':
                    pol = -pol
                    c = core(tu, tu.kids(c)[0])
                hit = c is not None and (c.get('id') == st[1] or
                                         (c.get('kind') == 'DeclRefExpr' and c.get('referencedDecl', {}).get('id') == okvar.get(st[1])))
                if not hit:
                    return [st]
                success = (si == 0) == (pol == 1)
                return [('need', st[1])] if success else [('none', None)]
            exits, _r = X.exit_states(g, [('none', None)], ptransfer, prefine)
            for st in sorted(exits, key=repr):
                if st[0] == 'need':
                    problems.append(('published-without-wake', 'on the path where the task was written to the pipe at %s the function returns '
                                     'without waking a sleeping worker (no SemaphoreSignal / WakeThreads after the write): the task stays in '
                                     'the pipe until somebody else schedules or waits' % tu.loc(tu.node(st[1])), tu.loc(tu.node(st[1]))))
                elif st[0] == 'pending':
                    und.append('the success of the pipe write at %s is not tested in a recognised way and no wake-up follows' % tu.loc(tu.node(st[1])))
            if verdicts is not None:
                verdicts.append((name, True if problems else (None if und else False)))
            else:
                for u in sorted(set(und)):
                    ctx.undecided(R7, inst, u, tu.fn_loc(f))
                for kind, text, loc in sorted(set(problems)):
                    ctx.violation(R7, inst, text, loc, key='%s|%s|%s|%s' % (R7, file, name, kind))
                if not und and not problems:
                    ctx.ok(R7, inst, 'every successful pipe write is followed by a wake-up (which reads the waiter count after the write)',
                           tu.fn_loc(f))
    n_f = check_publish_fence(ctx, W, tu, wake_fields, verdicts=verdicts)
    return n_sleep, n_pub + (n_f if verdicts is None else 0)


def note_wake_fences(ctx, W):
    """not a verdict: what the ordering analysis sees on the publish side of the handshake (reported as a note)"""
    tu = W.scheduler
    for f in tu.functions.values():
        if f['dep'] or tu.cfg(f) is None or not f['q'].endswith('::WakeThreads'):
            continue
        plain = []
        for b, i, x in tu.cfg(f).stmts():
            if x.get('kind') == 'MemberExpr' and 'fi' in tu.sd(x) and member_of_this(tu, x):
                p = tu.par(x)
                if p is not None and p.get('kind') == 'ImplicitCastExpr' and p.get('castKind') == 'LValueToRValue':
                    plain.append('%s (%s, %s)' % (x.get('name'), tu.sd(x).get('ct'), tu.loc(x)))
        if plain:
            ctx.note('wake side %s reads the waiter count with plain volatile loads: %s; the pipe write index is published by a plain '
                     'volatile store after a compiler-only barrier, so no StoreLoad fence separates publish and count read (the sleep side '
                     'registers with __sync_fetch_and_add, a full fence). Not a verdict of this check.'
                     % (short_name(f['q']), ', '.join(sorted(set(plain))[:3])))


# ================================================================================================
#  R-C02-8 queued tasks are drained before the scheduler's pipes are discarded (re-initialisation, destruction)
# ================================================================================================
R8 = 'R-C02-8'


def holder_path(tu, obj):
    """access path of the object a method is called on, looking through smart pointer operator-> / operator* / get()"""
    c = core(tu, obj)
    n = 0
    while c is not None and n < 5:
        n += 1
        if c.get('kind') == 'CXXOperatorCallExpr' and tu.sd(c).get('q', '').split('::')[-1] in ('operator->', 'operator*'):
            sd, o2, a2 = X.call_parts(tu, c)
            c = core(tu, o2) if o2 is not None else None
            continue
        if c.get('kind') == 'CXXMemberCallExpr' and tu.sd(c).get('q', '').split('::')[-1] == 'get' and X.is_smart_ptr(tu.sd(c).get('rec', '') + '<'):
            sd, o2, a2 = tu.call_parts(c)
            c = core(tu, o2) if o2 is not None else None
            continue
        if c.get('kind') == 'UnaryOperator' and c.get('opcode') == '*':
            c = core(tu, tu.kids(c)[0])
            continue
        break
    return X.access_path(tu, c) if c is not None else None


def waiter_fields(tu):
    """{(record id, field id): name}: members whose value decides how many sleepers SemaphoreSignal posts (the waiter count)"""
    out = {}
    for f in tu.functions.values():
        if f['dep'] or tu.cfg(f) is None:
            continue
        for b, i, x in tu.cfg(f).stmts():
            if x.get('kind') == 'CallExpr' and tu.sd(x).get('q') == SEM_SIGNAL:
                sd, obj, args = tu.call_parts(x)
                if len(args) >= 2:
                    srcs, seenv = [args[1]], set()
                    while srcs:
                        e0 = srcs.pop()
                        for y in tu.walk(e0):
                            if y.get('kind') == 'MemberExpr' and 'fi' in tu.sd(y) and member_of_this(tu, y):
                                out.setdefault((f.get('recid'), member_of_this(tu, y)), y.get('name'))
                            if y.get('kind') == 'DeclRefExpr':
                                vd = tu.node(y.get('referencedDecl', {}).get('id'))
                                if vd is not None and vd.get('kind') == 'VarDecl' and vd['id'] not in seenv and \
                                        tu.enclosing_fn(vd) is not None and tu.kids(vd):
                                    seenv.add(vd['id'])
                                    srcs.append(tu.kids(vd)[-1])
    return out


def classify_scheduler(ctx, W):
    """from the enkiTS sources: the pipe member, the functions that drain all queued tasks, and the functions that can
    discard the pipes without having drained them -> (sched record q, drains{q}, undrained{q: (fn, delete node)}) or None"""
    tu = W.scheduler
    # the pipe array: the member whose elements receive WriterTryWriteFront
    pipe_fields = {}
    for f in tu.functions.values():
        if f['dep'] or tu.cfg(f) is None:
            continue
        for b, i, x in tu.cfg(f).stmts():
            if x.get('kind') == 'CXXMemberCallExpr' and tu.sd(x).get('q', '').endswith('::WriterTryWriteFront'):
                sd, obj, args = tu.call_parts(x)
                for y in tu.walk(obj) if obj is not None else ():
                    if y.get('kind') == 'MemberExpr' and 'fi' in tu.sd(y) and member_of_this(tu, y):
                        pipe_fields[(f.get('recid'), member_of_this(tu, y))] = (y.get('name'), f.get('rec'))
    if len(pipe_fields) != 1:
        return None
    (srecid, pfield), (pname, srec) = list(pipe_fields.items())[0]
    runners = reaches(tu, lambda q: q == X.ENKI_EXECUTE)
    checkers = reaches(tu, lambda q: q.endswith('::IsPipeEmpty'))

    def mentions(e, ids):
        for y in tu.walk(e):
            if y.get('kind') in X.CALLS:
                c = tu.callee_fn(y)
                if (c is not None and c['id'] in ids) or (ids is checkers and tu.sd(y).get('q', '').endswith('::IsPipeEmpty')):
                    return True
        return False
    # ---- drain loops: `while (haveTasks [|| ...])` where the loop runs tasks and haveTasks is recomputed in the loop from the
    #      result of running a task / an emptiness check (continue while there is work; leave when nothing is left)
    def positive_terms(c, out):
        c = core(tu, c)
        if c is None:
            return
        if c.get('kind') == 'BinaryOperator' and c.get('opcode') == '||':
            for y in tu.kids(c):
                positive_terms(y, out)
        else:
            out.append(c)
    drains = set()
    drain_loops = {}
    for f in tu.functions.values():
        if f['dep'] or tu.cfg(f) is None or f.get('recid') != srecid:
            continue
        for L in tu.walk(X.fn_decl(tu, f)):
            k = L.get('kind')
            ks = tu.kids(L)
            if k == 'WhileStmt' and len(ks) >= 2:
                cond, body = ks[-2], ks[-1]
            elif k == 'DoStmt' and len(ks) >= 2:
                body, cond = ks[0], ks[1]
            elif k == 'ForStmt' and len(ks) >= 1:
                body = ks[-1]
                conds = [y for y in ks[:-1] if y.get('kind') not in ('DeclStmt',) and 'type' in y and
                         (y.get('type', {}).get('qualType') == 'bool')]
                cond = conds[0] if conds else None
            else:
                continue
            infinite = (k == 'ForStmt' and cond is None) or (cond is not None and core(tu, cond) is not None and
                                                             core(tu, cond).get('kind') == 'CXXBoolLiteralExpr' and core(tu, cond).get('value'))
            if infinite and mentions(body, runners):
                # runs tasks as long as there are some (`if (ran) continue;`) and leaves only through a guarded break / return
                keeps_running = any(y.get('kind') == 'IfStmt' and len(tu.kids(y)) >= 2 and mentions(tu.kids(y)[0], runners) and
                                    any(z.get('kind') == 'ContinueStmt' for z in tu.walk(tu.kids(y)[1])) for y in tu.walk(body))
                guards = [tu.kids(y)[0] for y in tu.walk(body) if y.get('kind') == 'IfStmt' and len(tu.kids(y)) >= 2 and
                          any(z.get('kind') in ('BreakStmt', 'ReturnStmt') for z in tu.walk(tu.kids(y)[1]))]
                leaves = any(z.get('kind') in ('BreakStmt', 'ReturnStmt') for z in tu.walk(body))
                if keeps_running and leaves and mentions(body, checkers):
                    drains.add(f['q'])
                    drain_loops.setdefault(f['q'], []).append((f, L, guards[-1] if guards else L))
                continue
            if cond is None or not mentions(body, runners):
                continue
            derived = set()
            for y in tu.walk(body):
                if y.get('kind') == 'BinaryOperator' and y.get('opcode') == '=':
                    v = decl_ref(tu, tu.kids(y)[0])
                    if v and (mentions(tu.kids(y)[1], runners) or mentions(tu.kids(y)[1], checkers)):
                        derived.add(v)
            terms = []
            positive_terms(cond, terms)
            for c in terms:
                if (c.get('kind') == 'DeclRefExpr' and c.get('referencedDecl', {}).get('id') in derived) or \
                        (c.get('kind') in X.CALLS and mentions(c, runners)):
                    drains.add(f['q'])
                    drain_loops.setdefault(f['q'], []).append((f, L, cond))
    # ---- functions that may discard the pipes without a preceding drain (fixpoint over calls on this)
    undrained = {}
    always_drain = set(drains)
    for _ in range(4):
        for f in tu.functions.values():
            if f['dep'] or tu.cfg(f) is None or f.get('recid') != srecid:
                continue
            g = tu.cfg(f)
            hit = []

            def transfer(blk, idx, e, st, f=f, hit=hit):
                if e[0] != 'S':
                    return [st]
                x = tu.node(e[1])
                if x is None:
                    return [st]
                k = x.get('kind')
                if k == 'CXXMemberCallExpr':
                    sd, obj, args = tu.call_parts(x)
                    if obj is not None and X.is_this_expr(tu, obj):
                        q = sd.get('q', '')
                        if q in always_drain:
                            return [1]
                        if q in undrained and not st and q != f['q']:
                            hit.append(x)
                if k == 'CXXDeleteExpr' and tu.kids(x) and member_of_this(tu, tu.kids(x)[0]) == pfield and not st:
                    hit.append(x)
                if k == 'CallExpr' and not st:
                    # a helper that receives the pipe member (by reference / pointer) and delete[]s it
                    sd, obj, args = tu.call_parts(x)
                    c0 = tu.callee_fn(x)
                    if c0 is not None and tu.cfg(c0) is not None:
                        for ai, a in enumerate(args):
                            y0 = X.addr_of(tu, a) or a
                            if member_of_this(tu, y0) == pfield and ai < len(c0['params']):
                                pid0 = c0['params'][ai]['id']
                                for z in tu.walk(X.fn_decl(tu, c0) or {}):
                                    if z.get('kind') == 'CXXDeleteExpr' and tu.kids(z) and \
                                            decl_ref(tu, X.deref_of(tu, tu.kids(z)[0]) or tu.kids(z)[0]) == pid0:
                                        hit.append(x)
                return [st]
            exits, _r = X.exit_states(g, [0], transfer)
            if hit:
                undrained.setdefault(f['q'], (f, hit[0]))
            elif exits and all(exits) and f['q'] not in always_drain:
                always_drain.add(f['q'])
    # a drain is complete only when nobody is executing a task any more (a running task may schedule follow-ups after the pipes
    # were seen empty): some loop of the draining function has to wait until the workers are parked (waiter count)
    wf = waiter_fields(tu)
    idle_blind = {}
    for q, loops in drain_loops.items():
        f0 = loops[0][0]
        aware = False
        for L in tu.walk(X.fn_decl(tu, f0)):
            k = L.get('kind')
            ks = tu.kids(L)
            cond = ks[-2] if k == 'WhileStmt' and len(ks) >= 2 else ks[1] if k == 'DoStmt' and len(ks) >= 2 else None
            if k == 'ForStmt':
                cs = [y for y in ks[:-1] if 'type' in y and y.get('type', {}).get('qualType') == 'bool']
                cond = cs[0] if cs else None
            extra = []
            if k in ('ForStmt', 'WhileStmt', 'DoStmt') and ks:
                bd = ks[0] if k == 'DoStmt' else ks[-1]
                extra = [tu.kids(y)[0] for y in tu.walk(bd) if y.get('kind') == 'IfStmt' and len(tu.kids(y)) >= 2 and
                         any(z.get('kind') in ('BreakStmt', 'ReturnStmt') for z in tu.walk(tu.kids(y)[1]))]
            if cond is None and not extra:
                continue
            srcs, seenv = ([cond] if cond is not None else []) + extra, set()
            while srcs and not aware:
                e0 = srcs.pop()
                for y in tu.walk(e0):
                    if y.get('kind') == 'MemberExpr' and (f0.get('recid'), member_of_this(tu, y)) in wf:
                        aware = True
                    if y.get('kind') == 'CXXMemberCallExpr' and X.is_this_expr(tu, tu.call_parts(y)[1] or {}):
                        c2 = tu.callee_fn(y)
                        if c2 is not None and tu.cfg(c2) is not None and any(
                                z.get('kind') == 'MemberExpr' and (f0.get('recid'), member_of_this(tu, z)) in wf
                                for z in tu.walk(X.fn_decl(tu, c2) or {})):
                            aware = True
                    if y.get('kind') == 'DeclRefExpr':
                        vd = tu.node(y.get('referencedDecl', {}).get('id'))
                        if vd is not None and vd.get('kind') == 'VarDecl' and vd['id'] not in seenv and tu.enclosing_fn(vd) is not None:
                            seenv.add(vd['id'])
                            if tu.kids(vd):
                                srcs.append(tu.kids(vd)[-1])
                            for b2, i2, z in tu.cfg(f0).stmts():
                                if z.get('kind') == 'BinaryOperator' and z.get('opcode') == '=' and decl_ref(tu, tu.kids(z)[0]) == vd['id']:
                                    srcs.append(tu.kids(z)[1])
        if not aware:
            idle_blind[q] = loops[0]
    return dict(rec=srec, recid=srecid, pipe=pname, pfield=pfield, idle_blind=idle_blind, waiter=sorted(set(wf.values())), drains=drains, always_drain=always_drain, undrained=undrained)


def check_drain_before_discard(ctx, W, tus, info, verdicts=None):
    """callers of the scheduler: a method that may discard undrained pipes is called only on a scheduler that is fresh
    (just created on this path) or was drained on this path"""
    n = 0
    for tu in tus:
        for f in sorted(tu.functions.values(), key=lambda f: f['q']):
            if f['dep'] or tu.cfg(f) is None or f.get('rec') == info['rec']:
                continue
            g = tu.cfg(f)
            calls = []
            for b, i, x in g.stmts():
                if x.get('kind') == 'CXXMemberCallExpr' and tu.sd(x).get('rec') == info['rec'] and tu.sd(x).get('q') in info['undrained']:
                    sd, obj, args = tu.call_parts(x)
                    hp = holder_path(tu, obj) if obj is not None else None
                    calls.append((x, hp))
            if not calls:
                continue
            n += 1
            name = short_name(f['q'])
            inst = '[%s] %s' % (tu.config, f['q'].replace('rkcommon::tasking::', '')) + W.tag
            problems, und = [], []
            for x, hp in calls:
                if hp is None:
                    und.append('the scheduler object on which %s is called at %s is not a recognised variable' % (tu.sd(x).get('q'), tu.loc(x)))
                    continue
                root = tu.node(hp[0]) if hp[0] != 'this' else None
                persistent = hp[0] == 'this' or (root is not None and root.get('kind') == 'VarDecl' and
                                                 (tu.enclosing_fn(root) is None or root.get('storageClass') == 'static'))
                found = []

                def transfer(blk, idx, e, st, x=x, hp=hp):
                    if e[0] != 'S':
                        return [st]
                    y = tu.node(e[1])
                    if y is None:
                        return [st]
                    if y['id'] == x['id']:
                        found.append(st)
                        return ['fresh']        # after the (re-)initialisation the pipes are new and empty
                    k = y.get('kind')
                    if k in ('CXXOperatorCallExpr', 'CXXMemberCallExpr'):
                        sd, obj, args = X.call_parts(tu, y)
                        nm = sd.get('q', '').split('::')[-1]
                        if obj is not None and X.access_path(tu, obj) == hp and nm in ('operator=', 'reset') and X.is_smart_ptr(sd.get('rec', '') + '<'):
                            fresh = any(z.get('kind') == 'CXXNewExpr' and X.clean_t(tu.sd(z).get('aty', '')) == info['rec']
                                        for a in args for z in tu.walk(a))
                            return ['fresh' if fresh else 'used']
                        if k == 'CXXMemberCallExpr' and sd.get('rec') == info['rec'] and obj is not None and holder_path(tu, obj) == hp:
                            if sd.get('q') in info['always_drain']:
                                return ['drained']
                            if y.get('id') != x['id'] and not tu.sd(y).get('fty', '').rstrip().endswith('const'):
                                return ['used']
                    if k == 'BinaryOperator' and y.get('opcode') == '=' and X.access_path(tu, tu.kids(y)[0]) == hp:
                        c1 = core(tu, tu.kids(y)[1])
                        return ['fresh' if c1 is not None and c1.get('kind') == 'CXXNewExpr' else 'used']
                    return [st]
                X.exit_states(g, ['used' if persistent else 'unknown'], transfer)
                if 'used' in found:
                    ufn, unode = info['undrained'][tu.sd(x).get('q')]
                    problems.append(('pipes-discarded-without-drain', '%s is called at %s on a scheduler that may already hold queued tasks (on '
                                     'this path it is neither freshly created nor drained by WaitforAll/WaitforAllAndShutdown): it reaches '
                                     '`%s` at %s without running the tasks still in the pipes, so functions handed to schedule()/async()/'
                                     'AsyncTask before the re-initialisation are never executed (and their waiters never return)'
                                     % (tu.sd(x).get('q'), tu.loc(x), W.scheduler.show(unode), W.scheduler.loc(unode)), tu.loc(x)))
                elif 'unknown' in found:
                    und.append('%s is called at %s on a scheduler whose history is not visible in this function' % (tu.sd(x).get('q'), tu.loc(x)))
            if verdicts is not None:
                verdicts.append((name, True if problems else (None if und else False)))
                continue
            for u in sorted(set(und)):
                ctx.undecided(R8, inst, u, tu.fn_loc(f))
            for kind, text, loc in sorted(set(problems)):
                ctx.violation(R8, inst, text, loc, key='%s|%s|%s|%s' % (R8, tu.fn_file(f), name, kind))
            if not und and not problems:
                ctx.ok(R8, inst, 'every call of %s is made on a scheduler created or drained on that path'
                       % ', '.join(sorted({tu.sd(x).get('q') for x, hp in calls})), tu.fn_loc(f))
    return n


def check_scheduler_teardown(ctx, W, info):
    """inside enkiTS: the destructor never discards undrained pipes; report the classification"""
    tu = W.scheduler
    n = 0
    for q, (f0, L, cond) in sorted(info['idle_blind'].items()):
        n += 1
        ctx.violation(R8, '[INTERNAL] %s: drain loop' % q + W.tag,
                      'the loop that drains the queued tasks (condition `%s`, %s) ends as soon as the pipes are empty; no loop of %s waits '
                      'until the worker threads are idle (waiter count `%s`). A task a worker is still executing may schedule follow-up '
                      'tasks after the pipes were seen empty: the caller then stops the threads and deletes the pipes, and those functions '
                      'are never executed (their task objects and closures are never released)'
                      % (tu.show(cond), tu.loc(cond), short_name(q), '/'.join(info['waiter']) or '?'), tu.loc(cond),
                      key='%s|%s|%s|drain-ignores-running-workers' % (R8, tu.fn_file(f0), r7_name(f0)))
    for f in tu.functions.values():
        if f['dep'] or tu.cfg(f) is None or f.get('recid') != info['recid'] or not f.get('dtor'):
            continue
        n += 1
        inst = '[INTERNAL] %s' % f['q'] + W.tag
        if f['q'] in info['undrained']:
            ufn, unode = info['undrained'][f['q']]
            ctx.violation(R8, inst, 'the scheduler destructor reaches `%s` (%s) on a path without a preceding drain of the queued tasks: '
                          'destroying / replacing the scheduler drops tasks that were scheduled but not yet run' % (tu.show(unode), tu.loc(unode)),
                          tu.loc(unode), key='%s|%s|%s|pipes-discarded-without-drain' % (R8, tu.fn_file(f), r7_name(f)))
        else:
            ctx.ok(R8, inst, 'drains (%s) before the pipes `%s` are deleted; undrained discards exist only in: %s'
                   % (', '.join(sorted(short_name(q) for q in info['drains'])), info['pipe'],
                      ', '.join(sorted(short_name(q) for q in info['undrained'])) or 'none'), tu.fn_loc(f))
    return n


# ================================================================================================
#  R-C02-9 every thread that can reach a writer-side operation of a single-writer pipe owns a distinct pipe index
# ================================================================================================
R9 = 'R-C02-9'
WRITER_SIDE = ('WriterTryWriteFront', 'WriterTryReadFront')     # LockLessMultiReadPipe: "single writer" operations
THREAD_START = ('enki::ThreadCreate', 'pthread_create')
LOCK_TYPES = ('std::lock_guard<', 'std::unique_lock<', 'std::scoped_lock<')


def check_thread_index(ctx, W, info, verdicts=None):
    tu, ts = W.scheduler, W.tasksys
    file = None
    # (a) thread-identity variables: thread-local integers
    tls = [d for d in tu.nodes.values() if d.get('kind') == 'VarDecl' and d.get('tls') and tu.enclosing_fn(d) is None
           and (d.get('type', {}).get('desugaredQualType') or d.get('type', {}).get('qualType', '')) in
           ('unsigned int', 'int', 'uint32_t', 'int32_t', 'unsigned long', 'long', 'size_t')]
    sched_fns = [f for f in tu.functions.values() if not f['dep'] and tu.cfg(f) is not None]

    def local_origin(e):
        d = decl_ref(tu, e)
        c0 = core(tu, e)
        if d is None and c0 is not None and c0.get('kind') == 'CallExpr':      # accessor: uint32_t ThisThreadNum() { return tlsVar; }
            cf = tu.callee_fn(c0)
            if cf is not None and tu.cfg(cf) is not None and not cf['params']:
                rets = [y for b, i, y in tu.cfg(cf).stmts() if y.get('kind') == 'ReturnStmt' and tu.kids(y)]
                if len(rets) == 1:
                    d = decl_ref(tu, tu.kids(rets[0])[0])
        n0 = 0
        while d and n0 < 4:
            n0 += 1
            vd = tu.node(d)
            if vd is not None and vd.get('kind') == 'VarDecl' and tu.enclosing_fn(vd) is not None and tu.kids(vd):
                d2 = decl_ref(tu, tu.kids(vd)[-1])
                if d2:
                    d = d2
                    continue
            break
        return d
    # functions whose parameter k selects the pipe of a writer-side operation (closed over calls)
    idx_params = {}        # fn id -> set(param index)
    direct_tls = {}        # fn id -> {tls var id: node}
    tls_ids = {d['id'] for d in tls}
    for _ in range(5):
        for f in sched_fns:
            pids = [p['id'] for p in f['params']]
            for b, i, x in tu.cfg(f).stmts():
                k = x.get('kind')
                if k == 'CXXMemberCallExpr' and tu.sd(x).get('q', '').split('::')[-1] in WRITER_SIDE:
                    sd, obj, args = tu.call_parts(x)
                    c = core(tu, obj) if obj is not None else None
                    if c is not None and c.get('kind') == 'ArraySubscriptExpr' and member_of_this(tu, tu.kids(c)[0]) == info['pfield']:
                        d = local_origin(tu.kids(c)[1])
                        if d in pids:
                            idx_params.setdefault(f['id'], set()).add(pids.index(d))
                        elif d in tls_ids:
                            direct_tls.setdefault(f['id'], {})[d] = x
                elif k in X.CALLS:
                    c = tu.callee_fn(x)
                    if c is not None and c['id'] in idx_params:
                        sd, obj, args = X.call_parts(tu, x)
                        for j in idx_params[c['id']]:
                            if j < len(args):
                                d = local_origin(args[j])
                                if d in pids:
                                    idx_params.setdefault(f['id'], set()).add(pids.index(d))
                                elif d in tls_ids:
                                    direct_tls.setdefault(f['id'], {})[d] = x
    used = {}
    for fid, m in direct_tls.items():
        for d, x in m.items():
            used.setdefault(d, []).append((tu.functions[fid], x))
    n = 0
    for d in [t for t in tls if t['id'] in used]:
        n += 1
        vname = d.get('name')
        v0 = const_value(tu, tu.kids(d)[-1]) if tu.kids(d) else 0
        file = tu.rel(tu.files[tu.sd(d)['f']]) if 'f' in tu.sd(d) else SCHEDULER
        inst = '[INTERNAL] thread-local pipe index `%s`' % vname + W.tag
        dline = d.get('loc', {}).get('line') or d.get('range', {}).get('begin', {}).get('line')
        dloc = '%s:%s' % (file, dline) if dline else tu.loc(used[d['id']][0][1])
        # (b) assigning sites
        assigns = []
        for f in sched_fns:
            for b, i, x in tu.cfg(f).stmts():
                if x.get('kind') == 'BinaryOperator' and x.get('opcode') == '=' and decl_ref(tu, tu.kids(x)[0]) == d['id']:
                    assigns.append((f, x))
        # thread entry functions: passed to a thread-creation primitive
        entries = set()
        for f in sched_fns:
            for b, i, x in tu.cfg(f).stmts():
                if x.get('kind') == 'CallExpr' and tu.sd(x).get('q') in THREAD_START:
                    for a in tu.call_parts(x)[2]:
                        c = core(tu, a)
                        if c is not None and c.get('kind') == 'UnaryOperator' and c.get('opcode') == '&':
                            c = core(tu, tu.kids(c)[0])
                        if c is not None and c.get('kind') == 'DeclRefExpr' and c.get('referencedDecl', {}).get('id') in tu.functions:
                            entries.add(c['referencedDecl']['id'])
                        elif c is not None and c.get('kind') == 'DeclRefExpr':
                            for g2 in tu.fns(q=tu.sd(c).get('q', ''), dep=False):
                                entries.add(g2['id'])
        runners = reaches(tu, lambda q: q == X.ENKI_EXECUTE)
        problems, und, oks = [], [], []
        worker_assign = []
        for eid in sorted(entries):
            ef = tu.functions[eid]
            if eid not in runners:
                continue
            g = tu.cfg(ef)
            found = []

            def transfer(blk, idx, e, st, ef=ef):
                if e[0] != 'S':
                    return [st]
                x = tu.node(e[1])
                if x is None:
                    return [st]
                if x.get('kind') == 'BinaryOperator' and x.get('opcode') == '=' and decl_ref(tu, tu.kids(x)[0]) == d['id']:
                    cv = const_value(tu, tu.kids(x)[1])
                    return ['const' if cv is not None else 'assigned']
                if x.get('kind') in X.CALLS and tu.callee_fn(x) is not None and tu.callee_fn(x)['id'] in runners:
                    found.append((st, x))
                return [st]
            X.exit_states(g, ['default'], transfer)
            states = {st for st, x in found}
            if 'default' in states:
                problems.append(('worker-threads-keep-default-index', 'the worker thread function %s runs tasks (%s) on a path where it has not '
                                 'assigned `%s`: every worker keeps the default index %s, so tasks that schedule further tasks all write '
                                 'pipe %s concurrently (single-writer pipe: tasks are lost or run twice)'
                                 % (short_name(ef['q']), tu.loc([x for st, x in found if st == 'default'][0]), vname, v0, v0), tu.fn_loc(ef)))
            elif 'const' in states:
                problems.append(('worker-threads-share-index', 'the worker thread function %s assigns the same constant to `%s` in every worker'
                                 % (short_name(ef['q']), vname), tu.fn_loc(ef)))
            elif states:
                worker_assign.append(short_name(ef['q']))
        # (c) public entry points of rkcommon that reach a writer-side pipe operation on the calling thread's index
        we = {f['q'] for f, x in used[d['id']]}
        for _ in range(4):
            for f in sched_fns:
                if f['q'] in we or f.get('recid') != info['recid']:
                    continue
                for b, i, x in tu.cfg(f).stmts():
                    if x.get('kind') == 'CXXMemberCallExpr' and tu.sd(x).get('q') in we and X.is_this_expr(tu, tu.call_parts(x)[1] or {}):
                        we.add(f['q'])
        ts_fns = [f for f in ts.functions.values() if not f['dep'] and ts.cfg(f) is not None and not f.get('rec')
                  and ts.fn_file(f).endswith('TaskSys.cpp')]
        entry_calls = {}
        for f in ts_fns:
            for b, i, x in ts.cfg(f).stmts():
                if x.get('kind') == 'CXXMemberCallExpr' and ts.sd(x).get('q') in we:
                    entry_calls.setdefault(f['q'], []).append((f, x))
        direct_entries = set(entry_calls)
        all_entries = set(direct_entries)
        for _ in range(3):
            for f in ts_fns:
                if f['q'] not in all_entries and any(y.get('kind') == 'CallExpr' and ts.sd(y).get('q') in all_entries
                                                     for b, i, y in ts.cfg(f).stmts()):
                    all_entries.add(f['q'])
        # ---- recognised-correct forms
        first_use = []
        for f, x in assigns:
            if f['id'] in entries or f['q'].split('::')[-1] in ('Initialize', 'StartThreads'):
                continue
            rhs = tu.kids(x)[1]
            if any(is_full_fence(tu, y) or (atomic_op(tu, y) or (None,))[0] == 'rmw' for y in tu.walk(rhs) if y.get('kind') in X.CALLS):
                first_use.append((f, x))
        locked_all = bool(entry_calls)
        lock_mutexes, used_mutexes = {}, set()
        for q, lst in entry_calls.items():
            for f, x in lst:
                g = ts.cfg(f)
                seen = []

                def ltransfer(blk, idx, e, st, x=x):
                    if e[0] == 'S':
                        y = ts.node(e[1])
                        if y is not None and y.get('kind') == 'DeclStmt':
                            for vd in ts.kids(y):
                                t = (vd.get('type', {}).get('desugaredQualType') or vd.get('type', {}).get('qualType', ''))
                                if any(t.startswith(l) or ('std::' + t).startswith(l) for l in LOCK_TYPES):
                                    for z in ts.walk(vd):
                                        if z.get('kind') == 'DeclRefExpr' and 'mutex' in (z.get('type', {}).get('qualType', '')):
                                            lock_mutexes.setdefault(vd['id'], z.get('referencedDecl', {}).get('id'))
                                    return [st | frozenset([vd['id']])]
                        if y is not None and y['id'] == x['id']:
                            seen.append(bool(st))
                            used_mutexes.update(lock_mutexes.get(v) for v in st)
                    if e[0] == 'AD' and e[1] in st:
                        return [st - frozenset([e[1]])]
                    return [st]
                X.exit_states(g, [frozenset()], ltransfer)
                if not seen or not all(seen):
                    locked_all = False
        if locked_all and (len(used_mutexes) != 1 or None in used_mutexes):
            locked_all = False          # different (or unrecognised) mutexes do not serialise the writers of one pipe
        rejects = []
        for f in sched_fns + ts_fns:
            t2 = tu if f in sched_fns else ts
            g = t2.cfg(f)
            for blk in g.blocks.values():
                if blk.cond and any(y.get('kind') == 'DeclRefExpr' and y.get('referencedDecl', {}).get('id') == d['id']
                                    for y in t2.walk(t2.node(blk.cond))):
                    for sx in blk.succ:
                        if sx is not None and (g.blocks[sx].noret or any(e[0] == 'S' and t2.node(e[1]) is not None and
                                                                         t2.node(e[1]).get('kind') == 'CXXThrowExpr' for e in g.blocks[sx].el)):
                            rejects.append('%s (%s)' % (short_name(f['q']), t2.loc(blk.cond)))
        ep = ', '.join(sorted(short_name(q) for q in all_entries)) or 'none'
        derived = ('index variable `%s` (thread_local, default %s); assigned in: %s; worker entry functions assigning it before running '
                   'tasks: %s; scheduler methods that use the calling thread\'s index for writer-side pipe operations: %s; rkcommon entry '
                   'points reaching them: %s' % (vname, v0, ', '.join(sorted({short_name(f['q']) for f, x in assigns})) or 'nowhere',
                                                 ', '.join(worker_assign) or 'none', ', '.join(sorted(short_name(q) for q in we)), ep))
        if entry_calls and not first_use and not locked_all and not rejects:
            f0, x0 = used[d['id']][0]
            problems.append(('unregistered-threads-share-pipe-%s' % v0, 'every thread the scheduler did not start (the initialising thread and any '
                             'other application thread) keeps the default `%s` == %s, and the public entry points %s use that index for the '
                             'writer side of pipe %s (e.g. %s at %s). The pipe is single-writer: two application threads calling schedule()/'
                             'async()/AsyncTask concurrently are two writers of pipe %s -- tasks are lost or run twice. Nothing assigns a '
                             'distinct index on first use, serialises those threads, or rejects them. [%s]'
                             % (vname, v0, ep, v0, tu.show(x0), tu.loc(x0), v0, derived), dloc))
        elif entry_calls and rejects and not first_use and not locked_all:
            und.append('unregistered threads are rejected at %s: a documented precondition rather than a guarantee [%s]' % (', '.join(sorted(set(rejects))), derived))
        if verdicts is not None:
            verdicts.append((vname, sorted({k for k, t, l in problems}) or (None if und else False)))
            continue
        for u in und:
            ctx.undecided(R9, inst, u, dloc)
        for kind, text, loc in sorted(set(problems)):
            ctx.violation(R9, inst, text, loc, key='%s|%s|%s|%s' % (R9, file, vname, kind))
        if not und and not problems:
            how = 'assigned on first use from an atomic counter (%s)' % ', '.join(short_name(f['q']) for f, x in first_use) if first_use else \
                'all entry points take a lock around the writer-side operations' if locked_all else 'no public entry point uses it'
            ctx.ok(R9, inst, '%s [%s]' % (how, derived), dloc)
    return n


# ================================================================================================
#  R-C02-10 no task object (closure destructor = user code that may call schedule()) is destroyed under a lock that the
#           scheduling entry points take themselves
# ================================================================================================
R10 = 'R-C02-10'


def lock_var_mutex(tu, vd):
    """mutex access path if vd declares a std::lock_guard / unique_lock / scoped_lock"""
    t = (vd.get('type', {}).get('desugaredQualType') or vd.get('type', {}).get('qualType', ''))
    if not any(t.startswith(l) or ('std::' + t).startswith(l) for l in LOCK_TYPES):
        return None
    for z in tu.walk(vd):
        if z.get('kind') in ('DeclRefExpr', 'MemberExpr') and 'mutex' in (z.get('type', {}).get('qualType', '')):
            ap = X.access_path(tu, z)
            if ap is not None:
                return ap
    return ('?',)


def task_deletes_in(tu, node):
    out = []
    for y in tu.walk(node):
        if y.get('kind') == 'CXXDeleteExpr' and not y.get('isArray') and tu.kids(y):
            op = core(tu, tu.kids(y)[0])
            t = tu.sd(op).get('ct', '') if op is not None else ''
            if any(r is not None and X.derived_from(tu, r, X.ENKI_COMPLETABLE) for r in X.record_of_type(tu, t)):
                out.append(y)
    return out


def check_delete_under_lock(ctx, W, tu, only_prefix=None, verdicts=None):
    fns = [f for f in tu.functions.values() if not f['dep'] and tu.cfg(f) is not None and
           (only_prefix is None or f['q'].startswith(only_prefix)) and (only_prefix is not None or tu.fn_file(f).endswith('TaskSys.cpp'))]
    lockers = {}        # mutex path -> set of function q that lock it
    hits = {}           # fn q -> [(delete node, mutex path, via)]
    memo = {}

    def run(fn, st0, depth=0):
        key = (fn['id'], st0)
        if key in memo or depth > 3:
            return
        memo[key] = True
        g = tu.cfg(fn)
        lockvars = {}
        top = fn

        def transfer(blk, idx, e, st):
            if e[0] == 'AD':
                return [frozenset(x for x in st if x[0] != e[1])]
            if e[0] != 'S':
                return [st]
            y = tu.node(e[1])
            if y is None:
                return [st]
            k = y.get('kind')
            if k == 'DeclStmt':
                for vd in tu.kids(y):
                    m = lock_var_mutex(tu, vd) if vd.get('kind') == 'VarDecl' else None
                    if m is not None:
                        lockers.setdefault(m, set()).add(fn['q'])
                        lockvars[vd['id']] = m
                        # std::defer_lock etc. are not modelled: the lock is assumed taken
                        return [st | frozenset([(vd['id'], m)])]
                return [st]
            if k == 'CXXMemberCallExpr':
                sd, obj, args = tu.call_parts(y)
                nm = sd.get('q', '').split('::')[-1]
                v = decl_ref(tu, obj) if obj is not None else None
                if v in lockvars and nm == 'unlock':
                    return [frozenset(x for x in st if x[0] != v)]
                if v in lockvars and nm == 'lock':
                    return [st | frozenset([(v, lockvars[v])])]
            if st:
                if k == 'CXXDeleteExpr':
                    for dn in task_deletes_in(tu, y):
                        for lv, m in st:
                            hits.setdefault(fn['q'], []).append((dn, m, None))
                if k == 'LambdaExpr':
                    p = tu.par(y)
                    hops = 0
                    while p is not None and hops < 8 and p.get('kind') not in X.CALLS + ('VarDecl',):
                        p = tu.par(p)
                        hops += 1
                    if p is not None and p.get('kind') in X.CALLS:
                        body = tu.kids(y)[-1] if tu.kids(y) else None
                        for dn in (task_deletes_in(tu, body) if body is not None else []):
                            for lv, m in st:
                                hits.setdefault(fn['q'], []).append((dn, m, 'in the lambda passed to %s' % (tu.sd(p).get('q') or '?')))
                if k in ('CallExpr', 'CXXMemberCallExpr'):
                    c = tu.callee_fn(y)
                    if c is not None and tu.cfg(c) is not None and not c['dep'] and tu.fn_file(c) == tu.fn_file(fn) and c['id'] != fn['id']:
                        before = {q: len(v) for q, v in hits.items()}
                        run(c, st, depth + 1)
                        for dn, m, via in list(hits.get(c['q'], []))[before.get(c['q'], 0):]:
                            hits.setdefault(fn['q'], []).append((dn, m, 'in %s called at %s' % (short_name(c['q']), tu.loc(y))))
            return [st]
        X.exit_states(g, [st0], transfer)
    for f in fns:
        run(f, frozenset())
    n = 0
    for f in sorted(fns, key=lambda f: f['q']):
        locked_here = any(f['q'] in qs for qs in lockers.values())
        if not locked_here and f['q'] not in hits:
            continue
        n += 1
        name = short_name(f['q'])
        inst = '[%s] %s' % (tu.config, f['q'].replace('rkcommon::tasking::', '')) + W.tag
        hs = [h for h in hits.get(f['q'], [])]
        # the lock matters if code reachable from user code (any non-static function of the unit) takes the same mutex
        bad = [(dn, m, via) for dn, m, via in hs if lockers.get(m)]
        if verdicts is not None:
            verdicts.append((name, bool(bad)))
            continue
        if bad:
            dn, m, via = bad[0]
            ctx.violation(R10, inst, 'the task object `%s` is deleted at %s%s while the mutex locked in this function is held; deleting a '
                          'task destroys its closure, i.e. runs user code, and a closure (or the state it owns) whose destructor calls '
                          'schedule()/async() re-enters %s on the same thread and blocks forever on the non-recursive mutex; every later '
                          'schedule() then blocks too. Destroy tasks outside of the lock'
                          % (tu.show(tu.kids(dn)[0]), tu.loc(dn), (' ' + via) if via else '', ', '.join(sorted(short_name(q) for q in lockers[m]))),
                          tu.loc(dn), key='%s|%s|%s|task-deleted-under-lock' % (R10, tu.fn_file(f), name))
        else:
            ctx.ok(R10, inst, 'no task object is destroyed while a lock is held', tu.fn_loc(f))
    return n


# ================================================================================================
#  R-C02-11 scheduling makes progress on the calling thread alone: when its pipe is full the thread runs a task itself
# ================================================================================================
R11 = 'R-C02-11'


def check_full_pipe_progress(ctx, W, tu, verdicts=None):
    runners = reaches(tu, lambda q: q == X.ENKI_EXECUTE)
    n = 0
    for f in sorted(tu.functions.values(), key=lambda f: f['q']):
        if f['dep'] or tu.cfg(f) is None:
            continue
        g = tu.cfg(f)
        nodes = [(b, i, x) for b, i, x in g.stmts()]
        writes = [(b, i, x) for b, i, x in nodes if x.get('kind') == 'CXXMemberCallExpr' and
                  tu.sd(x).get('q', '').endswith('::WriterTryWriteFront')]
        if not writes:
            continue

        def is_runner(x):
            if x.get('kind') not in X.CALLS:
                return False
            if tu.sd(x).get('q') == X.ENKI_EXECUTE:
                return True
            c = tu.callee_fn(x)
            return c is not None and c['id'] in runners and c['id'] != f['id']
        runner_pos = {}
        for b, i, x in nodes:
            if is_runner(x):
                runner_pos.setdefault(b.id, []).append(i)
        n += 1
        name = r7_name(f)
        inst = '[%s] %s: pipe full' % (tu.config, f['q']) + W.tag
        problems, und = [], []
        for wb, wi, w in writes:
            # the edge taken when the write failed
            fail = None
            for blk in g.blocks.values():
                if not blk.cond or len(blk.succ) != 2:
                    continue
                c = deciding(tu, tu.node(blk.cond))
                pol = 1
                while c is not None and c.get('kind') == 'UnaryOperator' and c.get('opcode') == '!':
                    pol = -pol
                    c = core(tu, tu.kids(c)[0])
                if c is not None and c.get('id') == w['id']:
                    fail = blk.succ[1] if pol == 1 else blk.succ[0]
            if fail is None:
                okv = None
                p = tu.par(w)
                hops = 0
                while p is not None and hops < 4 and p.get('kind') in ('ImplicitCastExpr', 'ParenExpr', 'ExprWithCleanups'):
                    p = tu.par(p)
                    hops += 1
                if p is not None and p.get('kind') == 'VarDecl':
                    okv = p['id']
                elif p is not None and p.get('kind') == 'BinaryOperator' and p.get('opcode') == '=':
                    okv = decl_ref(tu, tu.kids(p)[0])
                if okv:
                    for blk in g.blocks.values():
                        if not blk.cond or len(blk.succ) != 2:
                            continue
                        c = core(tu, tu.node(blk.cond))
                        pol = 1
                        while c is not None and c.get('kind') == 'UnaryOperator' and c.get('opcode') == '!':
                            pol = -pol
                            c = core(tu, tu.kids(c)[0])
                        if c is not None and c.get('kind') == 'DeclRefExpr' and c.get('referencedDecl', {}).get('id') == okv:
                            fail = blk.succ[1] if pol == 1 else blk.succ[0]
            if fail is None:
                und.append('the result of the pipe write at %s is not tested in a recognised way' % tu.loc(w))
                continue
            # can the same write be retried from the failure edge without this thread having run a task in between?
            seen, work, again = set(), [fail], False
            while work:
                bid = work.pop()
                if bid in seen or bid is None:
                    continue
                seen.add(bid)
                if bid == wb.id:
                    if not any(ri < wi for ri in runner_pos.get(bid, [])):
                        again = True
                        break
                    continue
                if bid in runner_pos:
                    continue            # this thread executes a task on this path: it makes progress on its own
                work.extend(sx for sx in g.blocks[bid].succ if sx is not None)
            if again:
                problems.append(('full-pipe-waits-for-other-threads', 'when the pipe of the calling thread is full (%s at %s fails) the '
                                 'function retries the same write without executing a task itself in between: progress of schedule() / '
                                 'AsyncTask / parallel_for then depends on another thread draining this pipe -- with one scheduler thread, '
                                 'or with every thread producing a burst of more than the pipe capacity, nobody does and the call never '
                                 'returns. On a full pipe the partition has to be run inline (or the thread has to run queued tasks)'
                                 % (tu.show(w), tu.loc(w)), tu.loc(w)))
        if verdicts is not None:
            verdicts.append((name + '#progress', True if problems else (None if und else False)))
            continue
        for u in sorted(set(und)):
            ctx.undecided(R11, inst, u, tu.fn_loc(f))
        for kind, text, loc in sorted(set(problems)):
            ctx.violation(R11, inst, text, loc, key='%s|%s|%s|%s' % (R11, tu.fn_file(f), name, kind))
        if not und and not problems:
            ctx.ok(R11, inst, 'a failed pipe write is never retried before this thread has executed a task itself', tu.fn_loc(f))
    return n


# ================================================================================================
#  R-C02-12 a task is only left in a pipe if a worker thread exists that can take it out (no workers: run it inline)
# ================================================================================================
R12 = 'R-C02-12'


def check_workers_exist(ctx, W, info):
    """derive the number of worker threads from the thread-creation loop and the bounds the callers establish; if it can be zero,
    the publishing function has to fall back to inline execution under a test of that count"""
    tu, ts = W.scheduler, W.tasksys
    n = 0
    # (1) thread creation loop: for (i = S; i < this->F; ++i) ThreadCreate(...)
    loops = []
    for f in tu.functions.values():
        if f['dep'] or tu.cfg(f) is None or f.get('recid') != info['recid']:
            continue
        for L in tu.walk(X.fn_decl(tu, f) or {}):
            if L.get('kind') != 'ForStmt':
                continue
            ks = tu.kids(L)
            body = ks[-1] if ks else None
            if body is None or not any(y.get('kind') == 'CallExpr' and tu.sd(y).get('q') in THREAD_START for y in tu.walk(body)):
                continue
            start, fld = None, None
            for y in ks[:-1]:
                if y.get('kind') == 'DeclStmt':
                    for vd in tu.kids(y):
                        if vd.get('kind') == 'VarDecl' and tu.kids(vd):
                            start = (vd['id'], const_value(tu, tu.kids(vd)[-1]))
                c = core(tu, y)
                if c is not None and c.get('kind') == 'BinaryOperator' and c.get('opcode') == '<' and start is not None and \
                        decl_ref(tu, tu.kids(c)[0]) == start[0] and member_of_this(tu, tu.kids(c)[1]):
                    fld = (member_of_this(tu, tu.kids(c)[1]), core(tu, tu.kids(c)[1]).get('name'))
            if start is not None and start[1] is not None and fld is not None:
                skipped = set()
                for y in tu.walk(body):
                    if y.get('kind') == 'IfStmt' and tu.kids(y):
                        c = core(tu, tu.kids(y)[0])
                        if c is not None and c.get('kind') == 'BinaryOperator' and c.get('opcode') == '==' and \
                                any(z.get('kind') == 'ContinueStmt' for z in tu.walk(tu.kids(y)[1] if len(tu.kids(y)) > 1 else {})):
                            for a0, b0 in ((tu.kids(c)[0], tu.kids(c)[1]), (tu.kids(c)[1], tu.kids(c)[0])):
                                if decl_ref(tu, a0) == start[0] and const_value(tu, b0) is not None and const_value(tu, b0) >= start[1]:
                                    skipped.add(const_value(tu, b0))
                loops.append((f, L, start[1] + len(skipped), fld))
    if len(loops) != 1:
        ctx.undecided(R12, '[INTERNAL] worker thread creation' + W.tag, '%d thread creation loops of the form `for (i = S; i < member; ++i)` '
                      'found: cannot derive the number of worker threads' % len(loops), SCHEDULER)
        return 1
    lf, L, S, (cfield, cname) = loops[0]
    # (2) who sets the member: X::Init(n) { member = n; }
    setters = {}
    for f in tu.functions.values():
        if f['dep'] or tu.cfg(f) is None or f.get('recid') != info['recid']:
            continue
        for b, i, x in tu.cfg(f).stmts():
            if x.get('kind') == 'BinaryOperator' and x.get('opcode') == '=' and member_of_this(tu, tu.kids(x)[0]) == cfield:
                d = decl_ref(tu, tu.kids(x)[1])
                for pi, p in enumerate(f['params']):
                    if p['id'] == d:
                        setters[f['q']] = pi
    # (3) lower bound the callers in TaskSys.cpp establish for that argument (interval evaluation of the calling function)
    low = None
    sites = []
    ivs = Intervals(ts)
    for f in ts.functions.values():
        if f['dep'] or ts.cfg(f) is None:
            continue
        calls = [x for b, i, x in ts.cfg(f).stmts() if x.get('kind') == 'CXXMemberCallExpr' and ts.sd(x).get('q') in setters]
        if not calls:
            continue
        seen_iv = {}

        def probe(x, env, seen_iv=seen_iv):
            if x.get('kind') == 'CXXMemberCallExpr' and ts.sd(x).get('q') in setters:
                args = ts.call_parts(x)[2]
                pi = setters[ts.sd(x).get('q')]
                if pi < len(args):
                    seen_iv.setdefault(x['id'], []).append(ivs.ev(args[pi], env))
        ivs.run(f, {}, probe=probe)
        for x in calls:
            vals = seen_iv.get(x['id'], [])
            lb = min(v[0] for v in vals) if vals else None
            sites.append((f, x, None if lb is None or lb <= -INF else lb))
    if not sites:
        ctx.undecided(R12, '[INTERNAL] worker thread creation' + W.tag, 'no caller that sets `%s` found in TaskSys.cpp' % cname, SCHEDULER)
        return 1
    bounds = [lb for f, x, lb in sites]
    low = None if any(lb is None for lb in bounds) else min(bounds)
    W.thread_count = dict(field=cfield, name=cname, low=low, recid=info['recid'], setters=setters)
    minworkers = None if low is None else max(0, low - S)
    # (4) the publishing function: a test of the thread count that routes to inline execution without writing the pipe
    runners = reaches(tu, lambda q: q == X.ENKI_EXECUTE)
    for f in sorted(tu.functions.values(), key=lambda f: f['q']):
        if f['dep'] or tu.cfg(f) is None:
            continue
        g = tu.cfg(f)
        writes = [(b, i, x) for b, i, x in g.stmts() if x.get('kind') == 'CXXMemberCallExpr' and
                  tu.sd(x).get('q', '').endswith('::WriterTryWriteFront')]
        if not writes:
            continue
        n += 1
        name = r7_name(f)
        inst = '[INTERNAL] %s: is there a worker to take the task out of the pipe?' % f['q'] + W.tag
        wblocks = {b.id for b, i, x in writes}
        rblocks = {b.id for b, i, x in g.stmts() if x.get('kind') in X.CALLS and
                   (tu.sd(x).get('q') == X.ENKI_EXECUTE or (tu.callee_fn(x) is not None and tu.callee_fn(x)['id'] in runners))}
        guarded = False
        for blk in g.blocks.values():
            if not blk.cond or len(blk.succ) != 2:
                continue
            def mentions_count(e0, depth=0):
                for y in tu.walk(e0):
                    if y.get('kind') == 'MemberExpr' and member_of_this(tu, y) == cfield:
                        return True
                    if y.get('kind') == 'DeclRefExpr' and depth < 3:
                        vd = tu.node(y.get('referencedDecl', {}).get('id'))
                        if vd is not None and vd.get('kind') == 'VarDecl' and tu.enclosing_fn(vd) is not None and tu.kids(vd) \
                                and mentions_count(tu.kids(vd)[-1], depth + 1):
                            return True
                return False
            if not mentions_count(tu.node(blk.cond)):
                continue
            for sx in blk.succ:
                seen, work = set(), [sx]
                while work:
                    bid = work.pop()
                    if bid is None or bid in seen or bid in wblocks:
                        continue
                    seen.add(bid)
                    if bid in rblocks:
                        guarded = True
                        break
                    work.extend(g.blocks[bid].succ)
        derived = ('worker threads = %s - %d (loop in %s); callers pass at least %s; minimum number of workers: %s'
                   % (cname, S, short_name(lf['q']), low if low is not None else 'an unbounded value', minworkers if minworkers is not None else 'unknown'))
        if minworkers is not None and minworkers >= 1:
            ctx.ok(R12, inst, 'at least one worker thread always exists [%s]' % derived, tu.fn_loc(f))
        elif guarded:
            ctx.ok(R12, inst, 'a test of `%s` routes to inline execution without writing the pipe when there may be no worker [%s]'
                   % (cname, derived), tu.fn_loc(f))
        elif minworkers is None:
            ctx.undecided(R12, inst, 'the number of worker threads is not bounded from below [%s]' % derived, tu.fn_loc(f))
        else:
            b0, i0, w0 = writes[0]
            ctx.violation(R12, inst, 'the scheduler can be initialised without any worker thread (%s), yet %s leaves the task in the pipe (%s at %s) '
                          'whenever there is room and returns: with no worker nothing ever takes it out unless the caller later enters the '
                          'scheduler itself, so a function handed to schedule()/async() is not executed and async(f).get() blocks forever '
                          '(initTaskingSystem(1) or one hardware thread). With no workers the task has to be run inline, as on a full pipe'
                          % (derived, short_name(f['q']), tu.show(w0), tu.loc(w0)), tu.loc(w0),
                          key='%s|%s|%s|published-with-no-worker-threads' % (R12, tu.fn_file(f), name))
    return n


# ---- (v) completed tasks are deleted by exactly one thread: the sweep works on elements it took OUT of the shared list
def check_reap_exclusive(ctx, W, tu, only_prefix=None, verdicts=None):
    n = 0
    for f in sorted(tu.functions.values(), key=lambda f: f['q']):
        if f['dep'] or tu.cfg(f) is None or (only_prefix is not None and not f['q'].startswith(only_prefix)):
            continue
        decl = X.fn_decl(tu, f)
        sweeps = []
        for x in tu.walk(decl):
            if x.get('kind') == 'CXXDeleteExpr' and tu.kids(x) and task_deletes_in(tu, x):
                v = decl_ref(tu, tu.kids(x)[0])
                rp = loop_range_path(tu, tu.node(v)) if v else None
                if rp is not None and not is_shared_root(tu, rp[0]):
                    sweeps.append((x, rp))
        if not sweeps:
            continue
        n += 1
        name = short_name(f['q'])
        inst = '[%s] %s' % (tu.config, f['q'].replace('rkcommon::tasking::', '')) + W.tag
        problems = []
        for x, rp in sweeps:
            # how did the local container get its elements?
            for y in tu.walk(decl):
                k = y.get('kind')
                src = None
                how = None
                if k == 'VarDecl' and y.get('id') == rp[0] and tu.kids(y):
                    c = tu.strip(tu.kids(y)[-1], casts=True)
                    if c is not None and c.get('kind') in X.CONSTRUCTS and len(tu.kids(c)) == 1:
                        a0 = tu.strip(tu.kids(c)[0], casts=True)
                        if a0 is not None and not (a0.get('kind') == 'CallExpr' and tu.sd(a0).get('q') == 'std::move'):
                            src, how = X.access_path(tu, a0), 'copy-constructed from'
                elif k in ('CXXOperatorCallExpr', 'CXXMemberCallExpr') and X.call_parts(tu, y)[0].get('rec', '').startswith('std::'):
                    sd, obj, args = X.call_parts(tu, y)
                    nm = sd.get('q', '').split('::')[-1]
                    if obj is None or X.access_path(tu, obj) != rp:
                        continue
                    if nm == 'operator=' and args:
                        a0 = tu.strip(args[0], casts=True)
                        if a0 is not None and not (a0.get('kind') == 'CallExpr' and tu.sd(a0).get('q') == 'std::move'):
                            src, how = X.access_path(tu, a0), 'copy-assigned from'
                    elif nm in ('insert', 'assign'):
                        for a in args:
                            for z in tu.walk(a):
                                if z.get('kind') == 'CXXMemberCallExpr' and tu.sd(z).get('q', '').split('::')[-1] in ('begin', 'cbegin'):
                                    o2 = tu.call_parts(z)[1]
                                    src, how = (X.access_path(tu, o2) if o2 is not None else None), 'filled with a copy of the elements of'
                if src is not None and is_shared_root(tu, src[0]):
                    problems.append(('reaps-copy-of-shared-list', 'the completion-guarded delete at %s sweeps `%s`, which was %s the shared list '
                                     '`%s` (%s) while that list keeps its elements: two threads calling schedule() at the same time hold the same '
                                     'task pointers, both see GetIsComplete() and both delete the task (closure destroyed twice; the second '
                                     'reader touches freed memory). The sweeping thread has to take the elements out of the shared list '
                                     '(swap / move) so that every task is examined by exactly one thread'
                                     % (tu.loc(x), tu.show(tu.node(rp[0])) if tu.node(rp[0]) is not None and tu.node(rp[0]).get('kind') != 'VarDecl'
                                        else tu.node(rp[0]).get('name'), how, tu.show(tu.kids(y)[-1]) if k == 'VarDecl' else
                                        (tu.show(X.call_parts(tu, y)[2][0]) if X.call_parts(tu, y)[2] else '?'), tu.loc(y)), tu.loc(x)))
        if verdicts is not None:
            verdicts.append((name, bool(problems)))
            continue
        if problems:
            for kind, text, loc in sorted(set(problems)):
                ctx.violation(R6, inst, text, loc, key='%s|%s|%s|%s' % (R6, tu.fn_file(f), name, kind))
        else:
            ctx.ok(R6, inst, 'the swept container holds elements taken out of the shared list (or local ones): each task is examined by '
                   'one thread only', tu.fn_loc(f))
    return n


# ================================================================================================
#  R-C02-13 no division by a partition count that is zero for an admissible number of threads
# ================================================================================================
R13 = 'R-C02-13'
INF = 10 ** 12


class Intervals:
    """small interval evaluator over one TU: members of `this` (field ids) and locals / parameters (decl ids) map to [lo, hi];
    branch conditions against constants refine them; calls of functions with a body are evaluated (bounded depth)."""
    AT_LEAST_ONE = ('GetNumHardwareThreads', 'hardware_concurrency')

    def __init__(self, tu):
        self.tu = tu
        self.last = {}          # key -> (fn, assignment node)

    def key(self, e):
        tu = self.tu
        c = core(tu, e)
        if c is None:
            return None
        if c.get('kind') == 'MemberExpr' and member_of_this(tu, c) is not None:
            return member_of_this(tu, c)
        if c.get('kind') == 'DeclRefExpr':
            d = tu.node(c.get('referencedDecl', {}).get('id'))
            if d is not None and d.get('kind') in ('VarDecl', 'ParmVarDecl') and const_value(tu, c) is None:
                return d['id']
        return None

    def ev(self, e, env, depth=0):
        tu = self.tu
        c = core(tu, e)
        if c is None:
            return (-INF, INF)
        k = c.get('kind')
        if k == 'CXXBoolLiteralExpr':
            return (1, 1) if c.get('value') else (0, 0)
        cv = const_value(tu, c)
        if cv is not None:
            return (cv, cv)
        kk = self.key(c)
        if kk is not None:
            t = tu.sd(c).get('ct', '')
            return env.get(kk, (0, INF) if 'unsigned' in t or t == 'bool' else (-INF, INF))
        if k == 'BinaryOperator' and c.get('opcode') in ('+', '-', '*'):
            a, b2 = self.ev(tu.kids(c)[0], env, depth), self.ev(tu.kids(c)[1], env, depth)
            uns = 'unsigned' in tu.sd(c).get('ct', '')
            if c['opcode'] == '+':
                r = (a[0] + b2[0], a[1] + b2[1])
            elif c['opcode'] == '*':
                ps = [a[0] * b2[0], a[0] * b2[1], a[1] * b2[0], a[1] * b2[1]]
                r = (min(ps), max(ps))
            else:
                r = (a[0] - b2[1], a[1] - b2[0])
            lo, hi = max(-INF, r[0]), min(INF, r[1])
            if uns and lo < 0:
                lo = 0      # wrap-around yields a large value, never a small one below 0
            return (lo, hi)
        if k == 'ConditionalOperator':
            et, ef = self.narrow(tu.kids(c)[0], env, True), self.narrow(tu.kids(c)[0], env, False)
            parts = ([self.ev(tu.kids(c)[1], et, depth)] if et is not None else []) + \
                    ([self.ev(tu.kids(c)[2], ef, depth)] if ef is not None else [])
            return (min(p0[0] for p0 in parts), max(p0[1] for p0 in parts)) if parts else (-INF, INF)
        if k in ('CallExpr', 'CXXMemberCallExpr'):
            sd, obj, args = tu.call_parts(c)
            if sd.get('q', '').split('::')[-1] in self.AT_LEAST_ONE:
                return (1, INF)
            callee = tu.callee_fn(c)
            if callee is not None and tu.cfg(callee) is not None and not callee['dep'] and depth < 3 and \
                    (k == 'CallExpr' or (obj is not None and X.is_this_expr(tu, obj))):
                penv = dict(env) if k == 'CXXMemberCallExpr' else {}
                for pi, p in enumerate(callee['params']):
                    if pi < len(args):
                        penv[p['id']] = self.ev(args[pi], env, depth)
                exits, rets = self.run(callee, penv, depth + 1)
                if rets:
                    return (min(r[0] for r in rets), max(r[1] for r in rets))
        uns = 'unsigned' in tu.sd(c).get('ct', '')
        return (0, INF) if uns else (-INF, INF)

    def narrow(self, c, env, truth):
        """env refined by `c` being true / false; None if impossible; unchanged if c is not understood"""
        tu = self.tu
        neg = False
        c = deciding(tu, c) if c is not None else None
        while c is not None and c.get('kind') == 'UnaryOperator' and c.get('opcode') == '!':
            neg = not neg
            c = core(tu, tu.kids(c)[0])
        if c is None:
            return env
        if self.key(c) is not None:
            m, kc, op = self.key(c), 0, ('==' if neg else '!=')
        elif c.get('kind') != 'BinaryOperator' or c.get('opcode') not in ('==', '!=', '<', '<=', '>', '>=') or neg:
            return env
        else:
            a, b2 = tu.kids(c)
            op = c['opcode']
            ka, kb = self.key(a), self.key(b2)
            if ka is not None and const_value(tu, b2) is not None:
                m, kc = ka, const_value(tu, b2)
            elif kb is not None and const_value(tu, a) is not None:
                m, kc = kb, const_value(tu, a)
                op = {'<': '>', '>': '<', '<=': '>=', '>=': '<='}.get(op, op)
            else:
                return env
        lo, hi = env.get(m, self.ev(c if self.key(c) is not None else (a if self.key(a) == m else b2), env))
        if not truth:
            op = {'==': '!=', '!=': '==', '<': '>=', '>=': '<', '>': '<=', '<=': '>'}[op]
        if op == '==':
            lo, hi = max(lo, kc), min(hi, kc)
        elif op == '!=':
            lo = lo + 1 if lo == kc else lo
            hi = hi - 1 if hi == kc else hi
        elif op == '<':
            hi = min(hi, kc - 1)
        elif op == '<=':
            hi = min(hi, kc)
        elif op == '>':
            lo = max(lo, kc + 1)
        elif op == '>=':
            lo = max(lo, kc)
        if lo > hi:
            return None
        env = dict(env)
        env[m] = (lo, hi)
        return env

    def run(self, fn, env0, depth=0, probe=None):
        """(exit environments, return value intervals); probe(node, env) is called at every statement"""
        tu = self.tu
        g = tu.cfg(fn)
        rets = []

        def transfer(blk, idx, e, st):
            if blk.noret:
                return []
            if e[0] != 'S':
                return [st]
            x = tu.node(e[1])
            if x is None:
                return [st]
            env = dict(st)
            if probe is not None:
                probe(x, env)
            k = x.get('kind')
            if k == 'CXXMemberCallExpr' and depth < 3:
                sd, obj, args = tu.call_parts(x)
                c = tu.callee_fn(x)
                if obj is not None and X.is_this_expr(tu, obj) and c is not None and c['id'] != fn['id'] and tu.cfg(c) is not None \
                        and c.get('recid') == fn.get('recid') and tu.par(x) is not None and tu.par(x).get('kind') in ('CompoundStmt', 'ExprWithCleanups'):
                    penv = dict(env)
                    for pi, p in enumerate(c['params']):
                        if pi < len(args):
                            penv[p['id']] = self.ev(args[pi], env, depth)
                    exits, _rv = self.run(c, penv, depth + 1, probe)
                    return sorted({tuple(sorted(ex.items())) for ex in exits}, key=repr)
                return [st]
            if k == 'DeclStmt':
                for vd in tu.kids(x):
                    if vd.get('kind') == 'VarDecl' and tu.kids(vd):
                        env[vd['id']] = self.ev(tu.kids(vd)[-1], env, depth)
                return [tuple(sorted(env.items()))]
            if k == 'ReturnStmt' and tu.kids(x):
                rets.append(self.ev(tu.kids(x)[0], env, depth))
                return [st]
            if k == 'BinaryOperator' and x.get('opcode') == '=':
                m = self.key(tu.kids(x)[0])
                if m is not None:
                    env[m] = self.ev(tu.kids(x)[1], env, depth)
                    self.last[m] = (fn, x)
                    return [tuple(sorted(env.items()))]
            return [st]

        def refine(blk, si, st):
            if not blk.cond or len(blk.succ) != 2:
                return [st]
            env = self.narrow(tu.node(blk.cond), dict(st), si == 0)
            return [] if env is None else [tuple(sorted(env.items()))]
        try:
            exits, _r = X.exit_states(g, [tuple(sorted(env0.items()))], transfer, refine)
        except RuntimeError:
            return [dict(env0)], [(-INF, INF)]
        return [dict(st) for st in exits], rets


def check_partition_divisors(ctx, W, info):
    tu = W.scheduler
    tc = getattr(W, 'thread_count', None)
    if not tc or tc.get('low') is None:
        return 0
    nfield, nname, low = tc['field'], tc['name'], tc['low']
    fns = [f for f in tu.functions.values() if not f['dep'] and tu.cfg(f) is not None and f.get('recid') == info['recid']]
    allfns = [f for f in tu.functions.values() if not f['dep'] and tu.cfg(f) is not None and tu.fn_file(f).endswith('TaskScheduler.cpp')]
    iv = Intervals(tu)
    # divisions by a member, directly or through a helper whose divisor parameter receives a member
    divs = []       # (function, division node, member field id, member name, helper or None)
    for f in allfns:
        pids = {p['id']: pi for pi, p in enumerate(f['params'])}
        for b, i, x in tu.cfg(f).stmts():
            if x.get('kind') == 'BinaryOperator' and x.get('opcode') in ('/', '%'):
                m = member_of_this(tu, tu.kids(x)[1])
                d = decl_ref(tu, tu.kids(x)[1])
                if m is not None and f.get('recid') == info['recid']:
                    divs.append((f, x, m, core(tu, tu.kids(x)[1]).get('name'), None))
                elif d in pids:
                    for f2 in fns:
                        for b2, i2, y in tu.cfg(f2).stmts():
                            if y.get('kind') == 'CallExpr' and tu.callee_fn(y) is not None and tu.callee_fn(y)['id'] == f['id']:
                                args = tu.call_parts(y)[2]
                                a = args[pids[d]] if pids[d] < len(args) else None
                                m2 = member_of_this(tu, a) if a is not None else None
                                if m2 is not None:
                                    divs.append((f2, y, m2, core(tu, a).get('name'), f))
    if not divs:
        return 0
    fields = {m for f, x, m, nm, hp in divs}
    # the state the initialisation leaves behind
    results = {}
    setters = tc.get('setters', {})
    for f in sorted(fns, key=lambda f: f['q']):
        pi = setters.get(f['q'])
        if pi is None or pi >= len(f['params']) or not any(
                x.get('kind') == 'BinaryOperator' and x.get('opcode') == '=' and member_of_this(tu, tu.kids(x)[0]) == nfield
                for b, i, x in tu.cfg(f).stmts()):
            continue
        exits, _rv = iv.run(f, {f['params'][pi]['id']: (low, INF)})
        for m in fields:
            ivs = [ex.get(m) for ex in exits]
            if ivs and all(v is not None for v in ivs) and m in iv.last:
                results.setdefault(m, []).append((iv.last[m][0], (min(a for a, b2 in ivs), max(b2 for a, b2 in ivs)), iv.last[m][1]))
    n = 0
    seen = set()
    for f, x, m, nm, hp in divs:
        if (f['id'], m) in seen:
            continue
        seen.add((f['id'], m))
        n += 1
        inst = '[INTERNAL] %s: division by `%s`%s' % (f['q'], nm, (' in ' + short_name(hp['q'])) if hp else '') + W.tag
        rs = results.get(m)
        if not rs:
            ctx.undecided(R13, inst, 'no assignment of `%s` found whose value could be bounded' % nm, tu.loc(x))
            continue
        zero = [(f2, v, an) for f2, v, an in rs if v[0] <= 0 <= v[1]]
        unknown = [(f2, v, an) for f2, v, an in rs if v[0] <= -INF or (v[0] <= 0 and v[1] >= INF and not _arith_known(tu, an))]
        if zero and not unknown:
            f2, v, an = zero[0]
            ctx.violation(R13, inst, '`%s` can be 0 when the scheduler is initialised with %s == %s (the callers allow %s >= %s): %s leaves it in '
                          'the range [%s, %s] (last assignment at %s), and %s divides by it at %s -- integer division by zero (SIGFPE) on the '
                          'first schedule()/AsyncTask/parallel_for of a one-thread scheduler, before the function handed over runs'
                          % (nm, nname, low, nname, low, short_name(f2['q']), v[0], 'inf' if v[1] >= INF else v[1], tu.loc(an),
                             short_name(f['q']), tu.loc(x)), tu.loc(x),
                          key='%s|%s|%s|division-by-%s-zero' % (R13, tu.fn_file(f), r7_name(f), nm))
        elif zero:
            ctx.undecided(R13, inst, 'the value assigned to `%s` at %s is not bounded by the evaluator' % (nm, tu.loc(unknown[0][2])), tu.loc(x))
        else:
            ctx.ok(R13, inst, 'for every admissible %s (>= %s) the divisor is at least %s' % (nname, low, min(v[0] for f2, v, an in rs)), tu.loc(x))
    return n


def _arith_known(tu, assign):
    """is the assigned expression made only of constants, members, locals, + - * ?: and calls with a body (so that a lower bound
    of 0 is a derived fact, not ignorance)?"""
    for y in tu.walk(tu.kids(assign)[1]):
        k = y.get('kind')
        if k in ('CallExpr', 'CXXMemberCallExpr'):
            c = tu.callee_fn(y)
            if c is None or tu.cfg(c) is None:
                return False
        elif k in ('ArraySubscriptExpr', 'CXXNewExpr', 'UnaryOperator') and not (k == 'UnaryOperator' and y.get('opcode') in ('-', '+', '!')):
            return False
    return True


# ================================================================================================
#  R-C02-14 work stealing visits every other pipe (a queued task is visible to every idle thread)
# ================================================================================================
R14 = 'R-C02-14'


def same_expr(tu, a, b, depth=0):
    """structural equality of two small expressions (declarations, members, constants, + - * %)"""
    ca, cb = core(tu, a), core(tu, b)
    if ca is None or cb is None or depth > 6:
        return False
    va, vb = const_value(tu, ca), const_value(tu, cb)
    if va is not None or vb is not None:
        return va == vb
    if ca.get('kind') != cb.get('kind'):
        return False
    k = ca.get('kind')
    if k == 'DeclRefExpr':
        return ca.get('referencedDecl', {}).get('id') == cb.get('referencedDecl', {}).get('id')
    if k == 'MemberExpr':
        return tu.sd(ca).get('d') == tu.sd(cb).get('d') and (not tu.kids(ca) or same_expr(tu, tu.kids(ca)[0], tu.kids(cb)[0], depth + 1))
    if k == 'CXXThisExpr':
        return True
    if k == 'BinaryOperator':
        return ca.get('opcode') == cb.get('opcode') and all(same_expr(tu, x, y, depth + 1) for x, y in zip(tu.kids(ca), tu.kids(cb)))
    return False


def check_steal_loops(ctx, W, tu, only_prefix=None, verdicts=None):
    n = 0
    for f in sorted(tu.functions.values(), key=lambda f: f['q']):
        if f['dep'] or tu.cfg(f) is None or (only_prefix is not None and not f['q'].startswith(only_prefix)):
            continue
        decl = X.fn_decl(tu, f)
        for L in tu.walk(decl):
            k = L.get('kind')
            ks = tu.kids(L)
            if k == 'WhileStmt' and len(ks) >= 2:
                cond, body = ks[-2], ks[-1]
            elif k == 'ForStmt' and len(ks) >= 2:
                body = ks[-1]
                cs = [y for y in ks[:-1] if 'type' in y and y.get('type', {}).get('qualType') == 'bool']
                cond = cs[0] if cs else None
            else:
                continue
            if cond is None:
                continue
            steals = [y for y in tu.walk(body) if y.get('kind') == 'CXXMemberCallExpr' and tu.sd(y).get('q', '').endswith('::ReaderTryReadBack')]
            if not steals:
                continue
            # the victim index: pipes[ V ] with V = (A + C) % N computed in the loop (directly or through a variable)
            obj = core(tu, tu.call_parts(steals[0])[1])
            if obj is None or obj.get('kind') != 'ArraySubscriptExpr':
                continue
            idx = core(tu, tu.kids(obj)[1])
            rot = None
            cand = [idx]
            v = decl_ref(tu, idx)
            if v:
                vd = tu.node(v)
                if vd is not None and tu.kids(vd) and vd.get('kind') == 'VarDecl':
                    cand.append(tu.kids(vd)[-1])
                for y in tu.walk(body):
                    if y.get('kind') == 'BinaryOperator' and y.get('opcode') == '=' and decl_ref(tu, tu.kids(y)[0]) == v:
                        cand.append(tu.kids(y)[1])
            for c0 in cand:
                c = core(tu, c0)
                if c is not None and c.get('kind') == 'BinaryOperator' and c.get('opcode') == '%':
                    rot = c
            n += 1
            name = r7_name(f)
            inst = '[%s] %s: stealing loop at %s' % (tu.config, f['q'], tu.loc(L)) + W.tag
            verdict, text = None, ''
            if rot is None:
                verdict, text = 'undecided', 'the victim pipe index is not of the form (start + counter) %% count'
            else:
                summ = core(tu, tu.kids(rot)[0])
                nexpr = tu.kids(rot)[1]
                counter = None
                bound = None
                # the loop continues while counter < bound (one conjunct of the condition)
                conj = []

                def conjuncts(e):
                    c = core(tu, e)
                    if c is not None and c.get('kind') == 'BinaryOperator' and c.get('opcode') == '&&':
                        conjuncts(tu.kids(c)[0])
                        conjuncts(tu.kids(c)[1])
                    elif c is not None:
                        conj.append(c)
                conjuncts(cond)
                start = None
                for c in conj:
                    if c.get('kind') == 'BinaryOperator' and c.get('opcode') in ('<', '!=') and decl_ref(tu, tu.kids(c)[0]):
                        cv = decl_ref(tu, tu.kids(c)[0])
                        if summ is not None and summ.get('kind') == 'BinaryOperator' and summ.get('opcode') == '+':
                            for i0 in (0, 1):
                                if decl_ref(tu, tu.kids(summ)[i0]) == cv:
                                    counter, bound, start = cv, tu.kids(c)[1], tu.kids(summ)[1 - i0]
                skips_self = None
                for y in tu.walk(body):
                    if y.get('kind') == 'BinaryOperator' and y.get('opcode') == '!=' and v and \
                            (decl_ref(tu, tu.kids(y)[0]) == v or decl_ref(tu, tu.kids(y)[1]) == v):
                        skips_self = tu.kids(y)[1] if decl_ref(tu, tu.kids(y)[0]) == v else tu.kids(y)[0]
                    if y.get('kind') == 'IfStmt' and len(tu.kids(y)) >= 2 and v:       # if (victim == self) continue;
                        c0 = core(tu, tu.kids(y)[0])
                        if c0 is not None and c0.get('kind') == 'BinaryOperator' and c0.get('opcode') == '==' and \
                                (decl_ref(tu, tu.kids(c0)[0]) == v or decl_ref(tu, tu.kids(c0)[1]) == v) and \
                                any(z.get('kind') == 'ContinueStmt' for z in tu.walk(tu.kids(y)[1])):
                            skips_self = tu.kids(c0)[1] if decl_ref(tu, tu.kids(c0)[0]) == v else tu.kids(c0)[0]
                if counter is None or bound is None:
                    verdict, text = 'undecided', 'cannot relate the loop counter to the rotation %s' % tu.show(rot)
                elif same_expr(tu, bound, nexpr):
                    verdict, text = 'ok', 'the rotation %s runs over all %s positions' % (tu.show(rot), tu.show(nexpr))
                else:
                    b = core(tu, bound)
                    short = b is not None and b.get('kind') == 'BinaryOperator' and b.get('opcode') == '-' and \
                        same_expr(tu, tu.kids(b)[0], nexpr) and (const_value(tu, tu.kids(b)[1]) or 0) >= 1
                    st = core(tu, start) if start is not None else None
                    from_next = skips_self is not None and st is not None and st.get('kind') == 'BinaryOperator' and st.get('opcode') == '+' and \
                        any(same_expr(tu, tu.kids(st)[i0], skips_self) and const_value(tu, tu.kids(st)[1 - i0]) == 1 for i0 in (0, 1))
                    if short and const_value(tu, tu.kids(b)[1]) == 1 and from_next:
                        verdict, text = 'ok', 'the rotation starts at the next pipe and covers the %s - 1 other pipes' % tu.show(nexpr)
                    elif short and skips_self is not None:
                        verdict = 'violation'
                        text = ('the stealing loop makes only %s iterations of the rotation %s, one of which can fall on the thread\'s own '
                                'index (%s is skipped in the body), and it starts at `%s`, which is not tied to the own index: whenever that '
                                'start is not own index + 1 one pipe is never looked at. A task queued in that pipe is invisible to this '
                                'thread; if its owner is busy or blocked the task never runs (the idle thread spins without finding it)'
                                % (tu.show(bound), tu.show(rot), tu.show(skips_self), tu.show(start) if start is not None else '?'))
                    else:
                        verdict, text = 'undecided', 'loop bound %s against rotation modulus %s not understood' % (tu.show(bound), tu.show(nexpr))
            if verdicts is not None:
                verdicts.append((short_name(f['q']), {'ok': False, 'violation': True, 'undecided': None}[verdict]))
                continue
            if verdict == 'ok':
                ctx.ok(R14, inst, text, tu.loc(L))
            elif verdict == 'undecided':
                ctx.undecided(R14, inst, text, tu.loc(L))
            else:
                ctx.violation(R14, inst, text, tu.loc(cond), key='%s|%s|%s|steal-loop-misses-a-pipe' % (R14, tu.fn_file(f), name))
    return n


# ================================================================================================
#  R-C02-15 a slot of the single-writer ring is overwritten only after its flag showed that the readers released it
# ================================================================================================
R15 = 'R-C02-15'


RX_CAS = re.compile(r'^(enki::AtomicCompareAndSwap\w*|__sync_val_compare_and_swap|__sync_bool_compare_and_swap)$')


def check_slot_claims(ctx, W, tu, fns, flagarr, bufarrs, stores, const_arrays, verdicts):
    """several parties (stealing readers at the back, the writer at the front) take items out of the ring: the copy of buffer[i]
    is dominated by the success edge of an atomic compare-and-swap on flags[i], not by a plain test of the flag"""
    n = 0
    claimers = []
    for f in fns:
        store_lhs = set()
        for arr, ix, rhs, x, pos in stores.get(f['id'], []):
            lhs = tu.kids(x)[0] if x.get('kind') == 'BinaryOperator' else tu.kids(x)[1]
            for y in tu.walk(lhs):
                store_lhs.add(y.get('id'))
        reads = [x for b, i, x in tu.cfg(f).stmts() if x.get('kind') == 'ArraySubscriptExpr' and x['id'] not in store_lhs and
                 member_of_this(tu, tu.kids(x)[0]) in bufarrs]
        if reads:
            claimers.append((f, reads))
    if len(claimers) < 2:
        return 0
    for f, reads in sorted(claimers, key=lambda t: t[0]['q']):
        g = tu.cfg(f)
        for rd in reads:
            n += 1
            ix = tu.kids(rd)[1]
            name = short_name(f['q'])
            inst = '[%s] %s: item copied out of the slot at %s' % (tu.config, f['q'], tu.loc(rd)) + W.tag
            found = []

            def src_of(e):
                """'cas' / 'plain' if e obtains the flag of slot ix by compare-and-swap / by a plain load"""
                c = core(tu, e)
                if c is None:
                    return None
                if c.get('kind') == 'CallExpr' and RX_CAS.match(tu.sd(c).get('q', '')):
                    a0 = X.addr_of(tu, tu.call_parts(c)[2][0]) if tu.call_parts(c)[2] else None
                    ca = core(tu, a0) if a0 is not None else None
                    if ca is not None and ca.get('kind') == 'ArraySubscriptExpr' and member_of_this(tu, tu.kids(ca)[0]) == flagarr \
                            and same_expr(tu, tu.kids(ca)[1], ix):
                        return 'cas'
                if c.get('kind') == 'ArraySubscriptExpr' and member_of_this(tu, tu.kids(c)[0]) == flagarr and same_expr(tu, tu.kids(c)[1], ix):
                    return 'plain'
                return None

            def transfer(blk, idx, e, st, rd=rd):
                if e[0] != 'S':
                    return [st]
                x = tu.node(e[1])
                if x is None:
                    return [st]
                claimed, srcs = st
                if x['id'] == rd['id']:
                    found.append(claimed)
                    return [st]
                k = x.get('kind')
                tgt = val = None
                if k == 'BinaryOperator' and x.get('opcode') == '=':
                    tgt, val = decl_ref(tu, tu.kids(x)[0]), tu.kids(x)[1]
                elif k == 'DeclStmt':
                    for vd in tu.kids(x):
                        if vd.get('kind') == 'VarDecl' and tu.kids(vd):
                            tgt, val = vd['id'], tu.kids(vd)[-1]
                if tgt is not None and val is not None:
                    sv = src_of(val)
                    d = dict(srcs)
                    if sv:
                        d[tgt] = sv
                    else:
                        d.pop(tgt, None)
                    return [(claimed, tuple(sorted(d.items())))]
                return [st]

            def refine(blk, si, st):
                claimed, srcs = st
                if blk.cond and len(blk.succ) == 2:
                    c = deciding(tu, tu.node(blk.cond))
                    if c is not None and c.get('kind') == 'BinaryOperator' and c.get('opcode') in ('==', '!='):
                        for a0, b0 in ((tu.kids(c)[0], tu.kids(c)[1]), (tu.kids(c)[1], tu.kids(c)[0])):
                            if const_value(tu, b0) is None:
                                continue
                            how = dict(srcs).get(decl_ref(tu, a0)) or src_of(a0)
                            if how and ((si == 0) == (c['opcode'] == '==')):
                                return [(how, srcs)]
                return [st]
            X.exit_states(g, [(None, ())], transfer, refine)
            kinds = set(found)
            if verdicts is not None:
                verdicts.append((name + '#claim', True if 'plain' in kinds else (False if kinds == {'cas'} else None)))
                continue
            if kinds == {'cas'}:
                ctx.ok(R15, inst, 'dominated by the success of an atomic compare-and-swap on the flag of the same slot', tu.loc(rd))
            elif 'plain' in kinds:
                ctx.violation(R15, inst, 'the item is copied out of the slot at %s after the flag of that slot was only tested with a plain load '
                              '(and then overwritten with a plain store): %d functions take items out of this ring concurrently (%s), so two of '
                              'them can see the flag readable and both take the same item -- that task runs twice and its running count '
                              'goes negative. The slot has to be claimed with a compare-and-swap'
                              % (tu.loc(rd), len(claimers), ', '.join(sorted(short_name(c0[0]['q']).split('::')[-1] for c0 in claimers))), tu.loc(rd),
                              key='%s|%s|%s|slot-claimed-without-cas' % (R15, tu.fn_file(f), name))
            else:
                ctx.undecided(R15, inst, 'cannot see how the slot is claimed before the item is copied out', tu.loc(rd))
    return n


def check_slot_protocol(ctx, W, tu, only_prefix=None, verdicts=None):
    """classes with a buffer array and a flags array indexed alike: the writer stores into buffer[i] only on a path where
    flags[i] was compared equal to the constant the readers store after they have copied the item"""
    n = 0
    by_rec = {}
    for f in tu.functions.values():
        if f['dep'] or tu.cfg(f) is None or not f.get('recid') or (only_prefix is not None and not f['q'].startswith(only_prefix)):
            continue
        by_rec.setdefault(f['recid'], []).append(f)
    for recid, fns in sorted(by_rec.items(), key=lambda kv: kv[1][0]['q']):
        # array-element stores per function: (array field, index expr, value expr, node)
        stores = {}
        for f in fns:
            for b, i, x in tu.cfg(f).stmts():
                k = x.get('kind')
                lhs = rhs = None
                if k == 'BinaryOperator' and x.get('opcode') == '=':
                    lhs, rhs = tu.kids(x)
                elif k == 'CXXOperatorCallExpr' and tu.sd(x).get('q', '').split('::')[-1] == 'operator=' and len(tu.kids(x)) >= 3:
                    lhs, rhs = tu.kids(x)[1], tu.kids(x)[2]
                c = core(tu, lhs) if lhs is not None else None
                if c is not None and c.get('kind') == 'ArraySubscriptExpr' and member_of_this(tu, tu.kids(c)[0]):
                    stores.setdefault(f['id'], []).append((member_of_this(tu, tu.kids(c)[0]), tu.kids(c)[1], rhs, x, (b.id, i)))
        # flags array: its elements receive compile-time constants in at least two functions; buffer: receives a parameter's value
        const_arrays = {}
        for fid, lst in stores.items():
            for arr, ix, rhs, x, pos in lst:
                cv = const_value(tu, rhs)
                if cv is not None:
                    const_arrays.setdefault(arr, {}).setdefault(fid, []).append(cv)
        flags = [a for a, m in const_arrays.items() if len(m) >= 2]
        if len(flags) != 1:
            continue
        flagarr = flags[0]
        bufarrs = {arr for f in fns for arr, ix, rhs, x, pos in stores.get(f['id'], [])
                   if arr != flagarr and decl_ref(tu, rhs) in {p['id'] for p in f['params']}}
        n += check_slot_claims(ctx, W, tu, fns, flagarr, bufarrs, stores, const_arrays, verdicts)
        for f in sorted(fns, key=lambda f: f['q']):
            pids = {p['id'] for p in f['params']}
            for arr, ix, rhs, x, pos in stores.get(f['id'], []):
                if arr == flagarr or decl_ref(tu, rhs) not in pids:
                    continue
                # a writer: buffer[ix] = parameter. Which constant do the *other* functions store into the flags after reading?
                released = set()
                for fid, m in const_arrays[flagarr].items():
                    if fid != f['id']:
                        released |= set(m)
                n += 1
                g = tu.cfg(f)
                name = short_name(f['q'])
                inst = '[%s] %s: store into the slot buffer at %s' % (tu.config, f['q'], tu.loc(x)) + W.tag
                found = []

                def transfer(blk, idx, e, st, x=x):
                    if e[0] == 'S' and e[1] == x['id']:
                        found.append(st)
                    return [st]

                def refine(blk, si, st, ix=ix):
                    if blk.cond and len(blk.succ) == 2:
                        c = deciding(tu, tu.node(blk.cond))
                        pol = True
                        for _h in range(4):         # !x, and a local bool that holds the comparison
                            if c is not None and c.get('kind') == 'UnaryOperator' and c.get('opcode') == '!':
                                pol = not pol
                                c = core(tu, tu.kids(c)[0])
                            elif c is not None and c.get('kind') == 'DeclRefExpr':
                                vd = tu.node(c.get('referencedDecl', {}).get('id'))
                                c = core(tu, tu.kids(vd)[-1]) if vd is not None and vd.get('kind') == 'VarDecl' and tu.kids(vd) \
                                    and tu.enclosing_fn(vd) is not None else None
                            else:
                                break
                        if not pol:
                            si = 1 - si
                        if c is not None and c.get('kind') == 'BinaryOperator' and c.get('opcode') in ('==', '!='):
                            for a0, b0 in ((tu.kids(c)[0], tu.kids(c)[1]), (tu.kids(c)[1], tu.kids(c)[0])):
                                ca = core(tu, a0)
                                if ca is not None and ca.get('kind') == 'ArraySubscriptExpr' and member_of_this(tu, tu.kids(ca)[0]) == flagarr \
                                        and same_expr(tu, tu.kids(ca)[1], ix) and const_value(tu, b0) is not None:
                                    equal = (si == 0) == (c['opcode'] == '==')
                                    if equal:
                                        return [const_value(tu, b0)]
                    return [st]
                X.exit_states(g, [None], transfer, refine)
                good = found and all(st is not None and st in released for st in found)
                if verdicts is not None:
                    verdicts.append((name, not good))
                    continue
                if good:
                    ctx.ok(R15, inst, 'dominated by the test that the flag of the same slot equals %s, the value the readers store after '
                           'copying the item out' % sorted(set(found)), tu.loc(x))
                else:
                    ctx.violation(R15, inst, 'the single writer stores a new item into the slot at %s on a path where the flag of that slot was '
                                  'not seen released by the readers (readers set it to %s after they have copied the item out; counters such '
                                  'as the read count advance before the copy): with a full ring the writer overwrites the item a reader is '
                                  'still copying -- that task is lost or torn, another one runs twice'
                                  % (tu.loc(x), sorted(released) or '?'), tu.loc(x),
                                  key='%s|%s|%s|slot-written-without-flag-check' % (R15, tu.fn_file(f), short_name(f['q'])))
    return n


# ================================================================================================
#  R-C02-16 the registry of detached tasks outlives the scheduler (static destruction order)
# ================================================================================================
R16 = 'R-C02-16'


def ref_target(tu, vd, depth=0):
    """the static object a local reference variable is bound to: `T &r = g;` / `T &r = accessor();` (accessor returns a static)"""
    if vd is None or depth > 3 or not tu.kids(vd):
        return None
    t = vd.get('type', {}).get('qualType', '')
    if not t.rstrip().endswith('&'):
        return None
    init = tu.kids(vd)[-1]
    d = decl_ref(tu, init)
    if d and tu.node(d) is not None and tu.node(d).get('kind') == 'VarDecl':
        return tu.node(d)
    c = core(tu, init)
    if c is not None and c.get('kind') == 'CallExpr':
        callee = tu.callee_fn(c)
        if callee is not None and tu.cfg(callee) is not None:
            rets = [y for b, i, y in tu.cfg(callee).stmts() if y.get('kind') == 'ReturnStmt' and tu.kids(y)]
            if len(rets) == 1:
                d2 = decl_ref(tu, tu.kids(rets[0])[0])
                if d2 and tu.node(d2) is not None and tu.node(d2).get('kind') == 'VarDecl':
                    return tu.node(d2)
    return None


def storage_order(tu, reg, holder):
    """'ok' | ('violation', why) | ('undecided', why): is the static object `reg` destroyed after the static object `holder`?"""
    if reg is None or holder is None:
        return ('undecided', 'objects not identified')
    t = reg.get('type', {}).get('qualType', '')
    if t.rstrip().endswith('*'):
        return 'ok'                 # a heap object reached through a pointer that is never destroyed itself
    reg_local = tu.enclosing_fn(reg) is not None
    hold_local = tu.enclosing_fn(holder) is not None
    if hold_local:
        return ('undecided', 'the scheduler is held by a function-local object')
    if reg_local:
        if reg.get('storageClass') == 'static':
            return ('violation', '`%s` is a function-local static: it is constructed on first use, i.e. after the namespace-scope `%s`, '
                                 'and therefore destroyed BEFORE it' % (reg.get('name'), holder.get('name')))
        return ('undecided', '`%s` is an automatic object' % reg.get('name'))
    fa, fb = tu.sd(reg).get('f'), tu.sd(holder).get('f')
    oa = reg.get('range', {}).get('begin', {}).get('offset', reg.get('loc', {}).get('offset'))
    ob = holder.get('range', {}).get('begin', {}).get('offset', holder.get('loc', {}).get('offset'))
    if oa is None or ob is None:
        return ('undecided', 'declaration order not available')
    if oa < ob:
        return 'ok'
    return ('violation', '`%s` is declared after `%s` in the same unit: it is constructed later and destroyed BEFORE it'
                         % (reg.get('name'), holder.get('name')))


def check_registry_outlives_scheduler(ctx, W):
    ts = W.tasksys
    holder = None
    for d in ts.nodes.values():
        if d.get('kind') == 'VarDecl' and ts.enclosing_fn(d) is None and X.is_smart_ptr((d.get('type', {}).get('desugaredQualType') or
                                                                                       d.get('type', {}).get('qualType', ''))) \
                and 'TaskScheduler' in (d.get('type', {}).get('qualType', '')):
            holder = d
    regs = {}
    for root in getattr(W, 'registry_roots', set()):
        d = ts.node(root)
        if d is not None and d.get('kind') == 'VarDecl':
            regs[d['id']] = d
    n = 0
    for d in regs.values():
        n += 1
        inst = '[INTERNAL] registry of detached tasks `%s`' % d.get('name') + W.tag
        r = storage_order(ts, d, holder)
        if r == 'ok':
            ctx.ok(R16, inst, 'destroyed after `%s` (declared before it / never destroyed): the scheduler\'s destructor, which still runs '
                   'queued tasks, finds the registry alive' % (holder or {}).get('name'), ts.rel(ts.files[ts.sd(d)['f']]) if 'f' in ts.sd(d) else TASKSYS)
        elif r[0] == 'undecided':
            ctx.undecided(R16, inst, r[1], TASKSYS)
        else:
            ctx.violation(R16, inst, '%s. The scheduler\'s destructor (WaitforAllAndShutdown) still runs every queued task at exit; a task that '
                          'calls schedule() then goes through the destroyed registry (dangling vector, tasks already deleted by its '
                          'destructor are examined and deleted again), and tasks outstanding at that time are never released' % r[1],
                          '%s:%s' % (TASKSYS, d.get('loc', {}).get('line', '?')),
                          key='%s|%s|%s|registry-destroyed-before-scheduler' % (R16, TASKSYS, d.get('name')))
    return n


# ================================================================================================
#  R-C02-17 a running count taken by the scheduler is given back on every path (or handed to a pipe entry)
# ================================================================================================
R17 = 'R-C02-17'
RX_COUNT_ADD = re.compile(r'^(enki::AtomicAdd|__sync_fetch_and_add|__sync_add_and_fetch)$')


def completable_field(tu, e):
    """name of the data member of an enki completable (task set) that expression e designates, else None"""
    for x in tu.walk(e):
        if x.get('kind') == 'MemberExpr' and 'fi' in tu.sd(x) and tu.kids(x):
            base = core(tu, tu.kids(x)[0])
            bt = X.clean_t(tu.sd(base).get('ct', '')) if base is not None else ''
            bare = re.sub(r'\b(const|volatile)\b|[*&]', ' ', bt).strip()        # `ITaskSet *const` (a local copy of the pointer)
            if any(X.derived_from(tu, r, X.ENKI_COMPLETABLE) for t in (bt, bare) for r in X.record_of_type(tu, t)):
                return x.get('name')
    return None


def count_op(tu, x):
    """(field name, delta) for an atomic add of a constant to a member of a task set"""
    if x is None or x.get('kind') != 'CallExpr' or not RX_COUNT_ADD.match(tu.sd(x).get('q', '')):
        return None
    sd, obj, args = X.call_parts(tu, x)
    if len(args) < 2:
        return None
    fld = completable_field(tu, args[0])
    v = const_value(tu, args[1])
    if fld is None or v is None or v == 0:
        return None
    return fld, v


def write_fail_edges(tu, g):
    """{block id: successor taken when the pipe write tested by the block's condition FAILED}"""
    out = {}
    for wb, wi, w in g.stmts():
        if w.get('kind') != 'CXXMemberCallExpr' or tu.sd(w).get('q', '').split('::')[-1] not in PUBLISH_METHODS:
            continue
        okv = None
        p = tu.par(w)
        hops = 0
        while p is not None and hops < 4 and p.get('kind') in ('ImplicitCastExpr', 'ParenExpr', 'ExprWithCleanups'):
            p = tu.par(p)
            hops += 1
        if p is not None and p.get('kind') == 'VarDecl':
            okv = p['id']
        elif p is not None and p.get('kind') == 'BinaryOperator' and p.get('opcode') == '=':
            okv = decl_ref(tu, tu.kids(p)[0])
        for blk in g.blocks.values():
            if not blk.cond or len(blk.succ) != 2:
                continue
            c = deciding(tu, tu.node(blk.cond))
            pol = 1
            while c is not None and c.get('kind') == 'UnaryOperator' and c.get('opcode') == '!':
                pol = -pol
                c = core(tu, tu.kids(c)[0])
            if c is None:
                continue
            if c.get('id') == w['id'] or (okv and c.get('kind') == 'DeclRefExpr' and c.get('referencedDecl', {}).get('id') == okv):
                out[blk.id] = blk.succ[1] if pol == 1 else blk.succ[0]
    return out


def check_count_pairing(ctx, W, tu, verdicts=None):
    """every `running count += k` (k > 0) on a task set in the scheduler is followed, on every path to the function's exit or back
    to the same increment, by a decrement of the same member -- unless the path took the success edge of a pipe write (the
    count then belongs to the queued entry and the thread that runs it gives it back)"""
    givers = set()          # functions of the TU that themselves decrement a task-set member
    for f in tu.functions.values():
        if f['dep'] or tu.cfg(f) is None:
            continue
        for b, i, x in tu.cfg(f).stmts():
            op = count_op(tu, x)
            if op and op[1] < 0:
                givers.add((f['id'], op[0]))
    n = 0
    for f in sorted(tu.functions.values(), key=lambda f: f['q']):
        if f['dep'] or tu.cfg(f) is None:
            continue
        g = tu.cfg(f)
        incs = [(b, i, x, count_op(tu, x)) for b, i, x in g.stmts() if (count_op(tu, x) or (None, 0))[1] > 0]
        if not incs:
            continue
        fail = write_fail_edges(tu, g)
        name = r7_name(f)
        for ib, ii, ix, (fld, delta) in incs:
            n += 1
            inst = '[%s] %s: `%s` of the task += %d at %s' % (tu.config, f['q'], fld, delta, tu.loc(ix)) + W.tag

            def gives_back(x):
                op = count_op(tu, x)
                if op and op[0] == fld and op[1] < 0:
                    return True
                if x.get('kind') in X.CALLS:
                    c = tu.callee_fn(x)
                    return c is not None and c['id'] != f['id'] and (c['id'], fld) in givers
                return False

            def scan(blk, lo, hi, ran):
                """'back' if a decrement is met in blk.el[lo:hi], else None; collects ExecuteRange calls passed"""
                for k in range(lo, hi):
                    e = blk.el[k]
                    if e[0] != 'S':
                        continue
                    x = tu.node(e[1])
                    if x is None:
                        continue
                    if gives_back(x):
                        return 'back'
                    if x.get('kind') == 'CXXMemberCallExpr' and tu.sd(x).get('q') == X.ENKI_EXECUTE:
                        ran.append(tu.loc(x))
                return None

            def nexts(blk):
                if blk.id in fail:
                    return [fail[blk.id]]
                return [s for s in blk.succ if s is not None]
            leaks = []
            ran = []
            seen = set()
            work = []
            if scan(ib, ii + 1, len(ib.el), ran) is None:
                if ib.id == g.exit:
                    leaks.append('exit')
                work = nexts(ib)
            while work:
                bid = work.pop()
                if bid is None or bid in seen:
                    continue
                seen.add(bid)
                blk = g.blocks[bid]
                if bid == ib.id:
                    if scan(blk, 0, ii, ran) is None:
                        leaks.append('again')
                    continue
                if scan(blk, 0, len(blk.el), ran) is not None:
                    continue
                if bid == g.exit:
                    leaks.append('exit')
                    continue
                work.extend(nexts(blk))
            if verdicts is not None:
                verdicts.append((name, bool(leaks)))
                continue
            if leaks:
                how = ' and '.join(sorted({'reaches the end of the function' if l == 'exit' else
                                           'comes back to the same increment (next loop iteration)' for l in leaks}))
                ctx.violation(R17, inst, 'a path from this increment %s without `%s` having been decremented again and without a successful '
                              'pipe write that would hand the count to the queued entry%s: the task set stays "running" for ever -- '
                              'WaitforTask / AsyncTask::wait / ~AsyncTask on it never return and a detached task is never seen complete and '
                              'never freed. Every inline run (pipe full / no worker) has to give the count back after ExecuteRange'
                              % (how, fld, (' (the path runs the task inline: ExecuteRange at %s)' % ', '.join(sorted(set(ran)))) if ran else ''),
                              tu.loc(ix), key='%s|%s|%s|%s-not-given-back' % (R17, tu.fn_file(f), name, fld))
            else:
                ctx.ok(R17, inst, 'every path from the increment decrements `%s` again or hands the partition to a pipe' % fld, tu.loc(ix))
    return n


def check_wait_drains(ctx, W):
    """TaskScheduler::WaitforTask(p) returns, for p != null, only after p's running count was read as zero"""
    tu = W.scheduler
    n = 0
    comp = [r for r in tu.records.values() if r['q'] == X.ENKI_COMPLETABLE]
    if len(comp) != 1 or len(comp[0]['fields']) != 1:
        ctx.broken('R-C02-4: enki::ICompletable is expected to have exactly one data member (the running count)')
        return 0
    cnt = comp[0]['fields'][0]['id']
    for f in tu.fns(q='enki::TaskScheduler::WaitforTask', dep=False):
        g = tu.cfg(f)
        if g is None or not f['params']:
            continue
        n += 1
        pid = f['params'][0]['id']

        unread = []

        def is_null(e):
            c = core(tu, e)
            return c is not None and (c.get('kind') in ('CXXNullPtrLiteralExpr', 'GNUNullExpr') or
                                      (c.get('kind') == 'IntegerLiteral' and str(c.get('value')) == '0'))

        def truth_of(c, depth=0):
            """('ptr', +1|-1): c is true iff the task pointer is non-null (+1) / null (-1); ('cnt', +1|-1): iff the running count
            is non-zero / zero"""
            c = core(tu, c)
            if c is None or depth > 4:
                return None
            k = c.get('kind')
            if k == 'UnaryOperator' and c.get('opcode') == '!':
                r = truth_of(tu.kids(c)[0], depth + 1)
                return None if r is None else (r[0], -r[1])
            if k == 'DeclRefExpr' and c.get('referencedDecl', {}).get('id') == pid:
                return ('ptr', 1)
            if k == 'MemberExpr' and tu.sd(c).get('d') == cnt and decl_ref(tu, tu.kids(c)[0]) == pid:
                return ('cnt', 1)
            if k == 'BinaryOperator' and c.get('opcode') in ('==', '!='):
                a, b2 = tu.kids(c)
                for x1, x2 in ((a, b2), (b2, a)):
                    if is_null(x2):
                        r = truth_of(x1, depth + 1)
                        if r is not None:
                            return (r[0], r[1] if c['opcode'] == '!=' else -r[1])
            return None

        def refine(blk, si, st):
            nn, dr = st
            if blk.cond and len(blk.succ) == 2:
                cn = tu.node(blk.cond)
                r = truth_of(cn)
                if r is not None:
                    holds = (si == 0) == (r[1] == 1)      # on this edge: pointer non-null / count non-zero
                    if r[0] == 'ptr':
                        return [('T' if holds else 'F', dr)]
                    return [(nn, dr or not holds)]
                if any(y.get('kind') == 'DeclRefExpr' and y.get('referencedDecl', {}).get('id') == pid for y in tu.walk(cn)):
                    unread.append(tu.loc(cn))
            return [st]
        exits, _r = X.exit_states(g, [('?', False)], lambda blk, idx, e, st: [st], refine)
        inst = '[INTERNAL] enki::TaskScheduler::WaitforTask' + W.tag
        if unread and not (all(dr for nn, dr in exits if nn != 'F') and exits):
            ctx.undecided(R4, inst, 'a test on the task pointer at %s is not understood: cannot separate the null-task path from the '
                          'waiting path' % ', '.join(sorted(set(unread))), tu.fn_loc(f))
        elif all(dr for nn, dr in exits if nn != 'F') and exits:
            ctx.ok(R4, inst, 'for a non-null task every return is reached through the exit edge of the loop on its running count '
                   '(count read as zero)', tu.fn_loc(f))
        else:
            ctx.violation(R4, inst, 'WaitforTask can return for a non-null task without having read its running count as zero: waiters '
                          '(AsyncTask destructor/get) proceed while the task still runs', tu.fn_loc(f),
                          key='%s|%s|TaskScheduler::WaitforTask|returns-before-zero' % (R4, tu.fn_file(f)))
    return n


# ---- positive / negative examples that must be classified as stated on every run (witness/c02_tasksets.cpp)
EXPECT_OVERRIDES = {'rkverif::c02w::SelfDelete::ExecuteRange': True, 'rkverif::c02w::ViaMethod::ExecuteRange': True,
                    'rkverif::c02w::ViaHelper::ExecuteRange': True, 'rkverif::c02w::KeepsItself::ExecuteRange': False,
                    'rkverif::c02w::BareStarter::LocalTask::ExecuteRange': False}
EXPECT_DELETES = {'rkverif::c02w::reapGuarded': False, 'rkverif::c02w::reapAfterWait': False,
                  'rkverif::c02w::reapUnguarded': True, 'rkverif::c02w::neverScheduled': False,
                  'rkverif::c02w::sweepThenSchedule': False,   # guarded, hence fine for (iii); (iv) flags its order
                  'rkverif::c02w::reapUnderLock': False, 'rkverif::c02w::reapLambdaUnderLock::<closure>': False,
                  'rkverif::c02w::reapOutsideLock': False, 'rkverif::c02w::reapAfterUnlock': False,
                  'rkverif::c02w::reapSnapshot': False}   # guarded; R-C02-10 judges the lock, (v) the ownership
EXPECT_ORDER = {('rkverif::c02w::StartsTooEarly', 'result'): True, ('rkverif::c02w::StartsTooEarly', 'done'): False,
                ('rkverif::c02w::StartsLast', 'result'): False, ('rkverif::c02w::StartsLast', 'done'): False,
                ('rkverif::c02w::NeverWaits', 'result'): False, ('rkverif::c02w::NeverWaits', 'done'): False,
                ('rkverif::c02w::MovesOut', 'result'): False, ('rkverif::c02w::MovesOut', 'done'): False,
                ('rkverif::c02w::Copies', 'result'): False, ('rkverif::c02w::Copies', 'done'): False}
EXPECT_PUBLISH = {'rkverif::c02w::publishThenSchedule': True, 'rkverif::c02w::scheduleThenPublish': False,
                  'rkverif::c02w::sweepThenSchedule': True}
EXPECT_RESULT_USE = {'rkverif::c02w::MovesOut': 'result-moved-out', 'rkverif::c02w::Copies': None}
EXPECT_RUN = {'rkverif::c02w::detachedRun': False, 'rkverif::c02w::runAndWait': True, 'rkverif::c02w::runMaybeWait': False}
EXPECT_LOCKED_DELETE = {'rkverif::c02w::reapUnderLock': True, 'rkverif::c02w::reapLambdaUnderLock': True,
                        'rkverif::c02w::reapOutsideLock': False, 'rkverif::c02w::reapAfterUnlock': False,
                        'rkverif::c02w::reapSnapshot': False}
EXPECT_PROGRESS = {'rkverif::c02w::Handshake::publishThenWake#progress': False, 'rkverif::c02w::Handshake::publishFenceThenWake#progress': False,
                   'rkverif::c02w::Handshake::publishNoWake#progress': False, 'rkverif::c02w::Handshake::wakeThenPublish#progress': None,
                   'rkverif::c02w::Handshake::publishSpinUntilRoom#progress': True, 'rkverif::c02w::Handshake::publishOrRunInline#progress': False}
EXPECT_REAP = {'rkverif::c02w::reapOutsideLock': False, 'rkverif::c02w::reapAfterUnlock': False, 'rkverif::c02w::reapSnapshot': True,
               'rkverif::c02w::sweepThenSchedule': False}
EXPECT_STEAL = {'rkverif::c02w::Stealer::stealAll': False, 'rkverif::c02w::Stealer::stealShort': True, 'rkverif::c02w::Stealer::stealFromNext': False}
EXPECT_SLOT = {'rkverif::c02w::SlotRing::writeChecked': False, 'rkverif::c02w::SlotRing::writeByCounters': True,
               'rkverif::c02w::SlotRing::readClaimed#claim': False, 'rkverif::c02w::SlotRing::readTestThenStore#claim': True}
EXPECT_ORDER_STATIC = {'w_registryBefore': False, 'w_registryAfter': True, 'w_registryLocal': True, 'w_registryHeap': False}
EXPECT_REINIT = {'rkverif::c02w::reinitKeepsScheduler': True, 'rkverif::c02w::reinitFresh': False, 'rkverif::c02w::reinitDrained': False}
EXPECT_HANDSHAKE = {'rkverif::c02w::Handshake::sleepRegisteredFirst': False, 'rkverif::c02w::Handshake::sleepCheckedFirst': True,
                    'rkverif::c02w::Handshake::sleepUnregistered': True, 'rkverif::c02w::Handshake::publishThenWake': False,
                    'rkverif::c02w::Handshake::publishNoWake': True, 'rkverif::c02w::Handshake::wakeThenPublish': None,
                    'rkverif::c02w::Handshake::publishFenceThenWake': False, 'rkverif::c02w::Handshake::sleepPlainIncrement': True,
                    'rkverif::c02w::Handshake::publishThenWake#fence': True, 'rkverif::c02w::Handshake::publishFenceThenWake#fence': False,
                    'rkverif::c02w::Handshake::publishNoWake#fence': False, 'rkverif::c02w::Handshake::wakeThenPublish#fence': False,
                    'rkverif::c02w::Handshake::publishOrRunInline': False, 'rkverif::c02w::Handshake::publishSpinUntilRoom': False,
                    'rkverif::c02w::Handshake::publishOrRunInline#fence': False, 'rkverif::c02w::Handshake::publishSpinUntilRoom#fence': True}
EXPECT_DTOR = {'rkverif::c02w::StartsTooEarly': False, 'rkverif::c02w::StartsLast': False, 'rkverif::c02w::NeverWaits': True,
               'rkverif::c02w::MovesOut': False, 'rkverif::c02w::Copies': False}


def check_witness(ctx, W, active_unused=None):
    tu = W.witness
    v = []
    n, handled = check_overrides(ctx, W, tu, True, verdicts=v)
    got = {k: c for k, c in v if k.startswith('rkverif::c02w::')}
    bad = []
    if got != EXPECT_OVERRIDES:
        bad.append('ExecuteRange self-destruction detector: expected %s, got %s' % (EXPECT_OVERRIDES, got))
    v = []
    check_task_deletes(ctx, W, tu, handled, verdicts=v)
    got = {k: c for k, c in v if k.startswith('rkverif::c02w::')}
    if got != EXPECT_DELETES:
        bad.append('task-delete detector: expected %s, got %s' % (EXPECT_DELETES, got))
    owners = [o for o in find_owners(W, tu) if o.rec['q'].startswith('rkverif::c02w::')]
    v = []
    for o in owners:
        check_construct_before_start(ctx, W, o, verdicts=v)
    got = {(a, b): c for a, b, c in v}
    if got != EXPECT_ORDER:
        bad.append('construct-before-start detector: expected %s, got %s' % (EXPECT_ORDER, got))
    J = Joiner(W)
    v = []
    for o in owners:
        check_wait_before_release(ctx, W, o, J, verdicts=v)
    got = {a: c for a, b, c in v}
    if got != EXPECT_DTOR:
        bad.append('wait-before-release detector: expected %s, got %s' % (EXPECT_DTOR, got))
    v = []
    check_steal_loops(ctx, W, tu, only_prefix='rkverif::c02w::', verdicts=v)
    if dict(v) != EXPECT_STEAL:
        bad.append('stealing-loop detector: expected %s, got %s' % (EXPECT_STEAL, dict(v)))
    v = []
    check_slot_protocol(ctx, W, tu, only_prefix='rkverif::c02w::', verdicts=v)
    if dict(v) != EXPECT_SLOT:
        bad.append('slot-protocol detector: expected %s, got %s' % (EXPECT_SLOT, dict(v)))
    byname = {d.get('name'): d for d in tu.nodes.values() if d.get('kind') == 'VarDecl' and str(d.get('name', '')).startswith(('w_registry', 'w_ts'))}
    got = {}
    for nm in EXPECT_ORDER_STATIC:
        r = storage_order(tu, byname.get(nm), byname.get('w_ts'))
        got[nm] = True if (r != 'ok' and r[0] == 'violation') else (False if r == 'ok' else None)
    if got != EXPECT_ORDER_STATIC:
        bad.append('static-destruction-order detector: expected %s, got %s' % (EXPECT_ORDER_STATIC, got))
    v = []
    check_reap_exclusive(ctx, W, tu, only_prefix='rkverif::c02w::', verdicts=v)
    got = dict(v)
    if got != EXPECT_REAP:
        bad.append('exclusive-reap detector: expected %s, got %s' % (EXPECT_REAP, got))
    v = []
    check_publication_order(ctx, W, tu, verdicts=v)
    got = {k: c for k, c in v if k.startswith('rkverif::c02w::')}
    if got != EXPECT_PUBLISH:
        bad.append('scheduled-before-published detector: expected %s, got %s' % (EXPECT_PUBLISH, got))
    got = {}
    for r in tu.records.values():
        if r['q'] in EXPECT_RESULT_USE:
            fld = [x['id'] for x in r['fields'] if x['name'] == 'result']
            gets = method_of(tu, r, 'get')
            if fld and gets:
                kinds = sorted({k for k, t, x in result_uses(tu, gets[0], fld[0]) if k != 'read'})
                got[r['q']] = kinds[0] if kinds else None
    if got != EXPECT_RESULT_USE:
        bad.append('result-read-only detector: expected %s, got %s' % (EXPECT_RESULT_USE, got))
    tb = W.witness_tbb
    got = {}
    for f in tb.functions.values():
        nm = short_name(f['q'])
        if not f['dep'] and nm in EXPECT_RUN and tb.cfg(f) is not None:
            h = W.ha.analyse(tb, f, 0)
            runs = [e for e in h.events if e['kind'] == 'tbb-run']
            got[nm] = bool(runs) and all(group_is_waited(tb, f, e) for e in runs)
    if got != EXPECT_RUN:
        bad.append('task_group run-needs-wait detector: expected %s, got %s' % (EXPECT_RUN, got))
    if getattr(W, 'sched_info', None):
        v = []
        check_drain_before_discard(ctx, W, [tu], W.sched_info, verdicts=v)
        got = {k: c for k, c in v if k.startswith('rkverif::c02w::')}
        if got != EXPECT_REINIT:
            bad.append('drain-before-discard detector: expected %s, got %s' % (EXPECT_REINIT, got))
    v = []
    check_delete_under_lock(ctx, W, tu, only_prefix='rkverif::c02w::', verdicts=v)
    got = {k: c for k, c in v}
    if got != EXPECT_LOCKED_DELETE:
        bad.append('delete-under-lock detector: expected %s, got %s' % (EXPECT_LOCKED_DELETE, got))
    v = []
    check_full_pipe_progress(ctx, W, tu, verdicts=v)
    got = {k: c for k, c in v if k.startswith('rkverif::c02w::Handshake::')}
    if got != EXPECT_PROGRESS:
        bad.append('full-pipe progress detector: expected %s, got %s' % (EXPECT_PROGRESS, got))
    v = []
    check_wake_protocol(ctx, W, tu, verdicts=v)
    got = {k: c for k, c in v if k.startswith('rkverif::c02w::Handshake::')}
    if got != EXPECT_HANDSHAKE:
        bad.append('sleep/wake handshake detector: expected %s, got %s' % (EXPECT_HANDSHAKE, got))
    for b in bad:
        ctx.broken('witness/c02_tasksets.cpp%s: %s' % (W.tag, b))
    if not bad:
        ctx.ok(R6, 'witness/c02_tasksets.cpp' + W.tag, 'positive and negative examples classified as expected: %d overrides, %d deletes, '
               '%d member-order cases, %d destructors, %d publication orders, %d result uses, %d task_group runs'
               % (len(EXPECT_OVERRIDES), len(EXPECT_DELETES), len(EXPECT_ORDER), len(EXPECT_DTOR), len(EXPECT_PUBLISH),
                  len(EXPECT_RESULT_USE), len(EXPECT_RUN)),
               'witness/c02_tasksets.cpp', nontrivial=False)


def run_world(ctx, W):
    n_sub = analyse_tasksys(ctx, W)
    W.ha = X.HandoffAnalysis(submit_names=set(W.submit), lib_fn=W.lib_fn)
    roots = schedule_roots(W)
    owners = {}
    for cfg, tu in W.drivers.items():
        owners[cfg] = [o for o in find_owners(W, tu) if o.rec['q'].startswith('rkcommon::')]
        for o in owners[cfg]:
            if o.callee is not None:
                roots.append((tu, o.callee, o.pidx))
    n1, names = check_handoff(ctx, W, roots)
    n2 = n2o = 0
    for cfg in CONFIGS:
        for o in owners[cfg]:
            k2 = check_construct_before_start(ctx, W, o)
            n2 += k2
            n2o += 1 if k2 else 0
    J = Joiner(W)
    n3 = n4 = 0
    for cfg in CONFIGS:
        for o in owners[cfg]:
            n3 += check_result_protocol(ctx, W, o, J)
            n4 += check_wait_before_release(ctx, W, o, J)
    n5 = 0
    for cfg, tu in W.drivers.items():
        for f in tu.fns(q='rkcommon::tasking::async', dep=False):
            if tu.cfg(f) is not None:
                n5 += check_async(ctx, W, tu, f)
    n4 += check_wait_drains(ctx, W)
    nsites, active = scheduler_post_access(ctx, W)
    tui = W.drivers['INTERNAL']
    n6, handled = check_overrides(ctx, W, tui, active)
    for tu in (tui, W.tasksys, W.scheduler):
        check_task_deletes(ctx, W, tu, handled if tu is tui else set())
        check_publication_order(ctx, W, tu)
        check_reap_exclusive(ctx, W, tu)
    n7s, n7p = check_wake_protocol(ctx, W, W.scheduler)
    n10 = check_delete_under_lock(ctx, W, W.tasksys)
    n14 = check_steal_loops(ctx, W, W.scheduler)
    n15 = check_slot_protocol(ctx, W, W.scheduler)
    n16 = check_registry_outlives_scheduler(ctx, W)
    n11 = check_full_pipe_progress(ctx, W, W.scheduler)
    n17 = check_count_pairing(ctx, W, W.scheduler)
    info = classify_scheduler(ctx, W)
    n8 = n9 = n12 = n13 = 0
    if info is None or not info['drains']:
        ctx.broken('%s: cannot identify the pipe member / a function that drains all queued tasks in TaskScheduler.cpp%s' % (R8, W.tag))
    else:
        W.sched_info = info
        n8 = check_scheduler_teardown(ctx, W, info) + check_drain_before_discard(ctx, W, [W.tasksys], info)
        n9 = check_thread_index(ctx, W, info)
        n12 = check_workers_exist(ctx, W, info)
        n13 = check_partition_divisors(ctx, W, info)
    check_witness(ctx, W)
    return dict(n17=n17, n14=n14, n15=n15, n16=n16, n13=n13, n12=n12, n2o=n2o, n11=n11, n10=n10, n9=n9, n8=n8, n7s=n7s, n7p=n7p, n1=n1 + n_sub, names=names, n2=n2, n3=n3, n4=n4, n5=n5, n6=n6, nsites=nsites)


def floors(ctx, r, tag=''):
    ctx.floor(R1, r['n1'], 30, 'schedule/schedule_impl x 3 closures x 4 backends + schedule_internal + task wrappers + AsyncTaskImpl '
                               'constructors + task-system entry points: 36 on the pinned tree' + tag)
    need = {'schedule', 'schedule_impl', 'AsyncTaskImpl::AsyncTaskImpl'}
    for cfg in CONFIGS:
        want = need | ({'schedule_internal'} if cfg == 'INTERNAL' else set())
        if not want <= r['names'].get(cfg, set()):
            ctx.broken('%s: hand-off chain incomplete under %s%s: missing %s' % (R1, cfg, tag, sorted(want - r['names'].get(cfg, set()))))
    ctx.floor(R2, r['n2'], 8, 'at least one member touched by the started closure for AsyncTask<int>/<std::string> x 4 backends (16 on the pinned tree)' + tag)
    ctx.floor(R2, r['n2o'], 8, 'AsyncTask<int>/<std::string> constructors x 4 backends whose closure touches members of the object' + tag)
    ctx.floor(R3, r['n3'], 32, 'flag type, closure, flag readers, result uses, get() x 2 instantiations x 4 backends: 56' + tag)
    ctx.floor(R4, r['n4'], 9, '~AsyncTask x 2 instantiations x 4 backends + WaitforTask' + tag)
    ctx.floor(R5, r['n5'], 8, 'async<IntJob>, async<StringJob&> x 4 backends' + tag)
    ctx.floor(R6, r['n6'], 5, 'ExecuteRange overrides: schedule_internal x 3, AsyncTaskImpl, parallel_for_internal' + tag)
    ctx.floor(R6, r['nsites'], 1, 'ExecuteRange call sites in TaskScheduler.cpp (3 on the pinned tree; one is enough to mine the obligation)' + tag)
    ctx.floor(R17, r['n17'], 1, 'atomic increments of a task set member (m_RunningCount) in TaskScheduler.cpp: 2 in SplitAndAddTask on the pinned tree' + tag)
    ctx.floor(R14, r['n14'], 1, 'loops that steal from the pipes of other threads: TryRunTask' + tag)
    ctx.floor(R15, r['n15'], 1, 'writers of the slot ring: LockLessMultiReadPipe::WriterTryWriteFront' + tag)
    ctx.floor(R16, r['n16'], 1, 'shared containers that register detached tasks: g_detached' + tag)
    ctx.floor(R13, r['n13'], 1, 'divisions by partition counts on the path of AddTaskSetToPipe (m_NumPartitions, m_NumInitialPartitions): 2 functions x members on the pinned tree' + tag)
    ctx.floor(R12, r['n12'], 1, 'functions of the scheduler that write a task to a pipe: SplitAndAddTask' + tag)
    ctx.floor(R11, r['n11'], 1, 'functions of the scheduler that write a task to a pipe: SplitAndAddTask' + tag)
    ctx.floor(R10, r['n10'], 1, 'functions of TaskSys.cpp that take the detached-task mutex: scheduleDetachedTaskInternal' + tag)
    ctx.floor(R9, r['n9'], 1, 'thread-local pipe index variables used for writer-side pipe operations: gtl_threadNum' + tag)
    ctx.floor(R8, r['n8'], 2, 'scheduler destructor + initTaskSystemInternal' + tag)
    ctx.floor(R7, r['n7s'], 1, 'functions of the scheduler that block on the new-task semaphore: WaitForTasks' + tag)
    ctx.floor(R7, r['n7p'], 1, 'functions of the scheduler that publish a task to a pipe: SplitAndAddTask' + tag)


def run(ctx):
    ctx.describe(R1, 'every closure is handed to the tasking backend exactly once on every path; started threads are detached '
                     'or joined; a task object wrapping a closure has set size 1 and invokes it once')
    ctx.describe(R2, 'no data member that a closure started in a constructor touches through `this` is initialised after the start')
    ctx.describe(R3, 'closure: task function invoked once, result stored, then atomic completion flag set; get() reads the result only '
                     'after the flag was seen true or after a wait')
    ctx.describe(R4, 'the destructor joins the task before a touched member or the object is released; the wait reaches the backend '
                     'join that matches the start primitive')
    ctx.describe(R5, 'async(): one heap packaged_task built from the closure, its future returned, the scheduled closure owns it '
                     '(by-value capture, invoke once then delete), nobody else touches it after the hand-off')
    ctx.describe(R6, 'the scheduler accesses a task after ExecuteRange returns, hence no ExecuteRange override may destroy its own '
                     'object (directly or via callees); any other delete of a task object is guarded by completion / join')
    ctx.assume('closures handed to schedule/async/AsyncTask do not throw (the CFGs carry no exception edges)')
    ctx.assume('tbb::task_arena::enqueue, tbb::task_group::run, std::thread and the enkiTS pipe invoke a submitted callable exactly once '
               '(backend contract; the enkiTS partition/pipe bookkeeping is the subject of C01/C12)')
    ctx.assume('std::packaged_task / std::future deliver the value of the invoked callable (standard library contract)')
    ctx.describe(R17, 'a running count the scheduler takes on a task set is given back on every path (after the inline ExecuteRange) unless '
                      'the partition was successfully written to a pipe')
    ctx.describe(R14, 'the stealing loop visits the pipe of every other thread whatever pipe it starts at')
    ctx.describe(R15, 'the single writer of the slot ring stores into a slot only after the flag of that slot showed the readers released it')
    ctx.describe(R16, 'the registry of detached tasks is destroyed after the scheduler (static destruction order)')
    ctx.describe(R13, 'every member the scheduler divides by is non-zero for every number of threads its callers can pass (interval '
                      'evaluation of its assignments under the branch conditions)')
    ctx.describe(R12, 'a task is left in a pipe only if a worker thread exists that can take it out: the number of workers derived from the '
                      'thread creation loop and the callers\' bounds is at least one, or the publisher runs the task inline when it may be zero')
    ctx.describe(R11, 'scheduling makes progress on the calling thread alone: a failed (full) pipe write is not retried before the thread '
                      'has executed a task itself')
    ctx.describe(R10, 'no task object is destroyed (closure destructor = user code that may call schedule()) while a mutex is held that the '
                      'scheduling entry points lock themselves')
    ctx.describe(R9, 'who may write a single-writer pipe: every thread that can reach a writer-side pipe operation through a public entry '
                     'point owns a distinct pipe index (assigned by the scheduler, on first use, or serialised by a lock)')
    ctx.describe(R8, 'queued tasks are drained (run until all pipes are empty) before the scheduler\'s pipes are discarded: the destructor '
                     'drains; a method that discards without draining is only called on a fresh or drained scheduler')
    ctx.describe(R7, 'enkiTS sleep/wake handshake: a worker registers in the waiter count, then re-checks the pipes, then sleeps; a '
                     'publisher writes the task to the pipe, then wakes (reading the waiter count after the write)')
    ctx.assume('backend liveness beyond the sleep/wake handshake order (fairness of TBB / the OS scheduler, hardware store-load ordering)')
    W = World(ctx)
    r = run_world(ctx, W)
    floors(ctx, r)
    ctx.extra['counts'] = {k: v for k, v in r.items() if k != 'names'}
    if ctx.tier == 'thorough':
        W2 = World(ctx, std='gnu++17')
        r2 = run_world(ctx, W2)
        floors(ctx, r2, ' (gnu++17)')
    from rkstatic import selftest
    selftest.run(ctx)
