"""C03 - AsyncLoop honours its start/stop/destroy protocol on every interleaving.

Decided statically on the CFGs of the loop-thread closure (the lambda in AsyncLoop's constructor that calls the
user body), start(), stop(), ~AsyncLoop() and the constructor (see DESIGN.md section 5, C03):

  R-C03-1  handshake order.  Two seq_cst flags, two parties; each side stores its own flag, then loads the other's.
           Loop side (path automaton): at the call of the body the path has stored insideLoopBody = true and
           *afterwards* loaded shouldBeRunning == true (both seq_cst); any store to insideLoopBody restarts the
           automaton.  Stop side: every return of stop() has either stored shouldBeRunning = false and afterwards
           loaded insideLoopBody == false, or has observed shouldBeRunning == false without storing.  Only the loop
           thread writes insideLoopBody.
  R-C03-2  the loop thread never blocks in wait() while insideLoopBody is published (stop() would spin forever).
  R-C03-3  no lost wake-up.  The loop waits with the predicate overload on a unique_lock of runningMutex; the
           predicate is implied by shouldBeRunning == true and by threadShouldBeAlive == false; every store that
           can turn the predicate true is inside a lock scope of runningMutex and is followed on all paths (or
           accompanied inside the same lock scope) by notify on runningCond; start() leaves with the flag set;
           threadShouldBeAlive starts true.
  R-C03-4  destruction.  ~AsyncLoop clears threadShouldBeAlive on every path, and join()s the thread member exactly
           on the paths where joinable() was true, after the flag was cleared and the waiter notified; never detaches.
           With the flags as the destructor leaves them, no cycle of the loop closure's CFG survives (the loop thread
           reaches its end, so join() returns / the task ends).  The constructor launches the loop closure exactly
           once per path (thread stored in the member that the destructor joins and not detached, or
           tasking::schedule), and the closure owns its state: shared_ptr captured by value, nothing captured by
           reference, no `this`.

  R-C03-5  acknowledgement flags.  Busy-wait loops are found structurally (a CFG cycle in stop() / the destructor or a helper
           they call whose exits branch on loads of atomic AsyncLoopData members).  For every value the destructor waits for, each
           exit path of the loop closure ends with that value stored (must-write on all exits; the initial value counts when
           nothing is stored), unless the wait has an exit that does not depend on a flag.  stop()'s wait on insideLoopBody is
           the handshake of R-C03-1 and is kept live by R-C03-2.

  R-C03-6  shared words.  The flags may be std::atomic<bool> members or bits of one atomic integer member accessed through mask
           helpers (the helpers are followed; `x.load() & MASK`, fetch_or(MASK), fetch_and(~MASK) are decoded into the same
           load/store events on the canonical flags, so R-C03-1..5 are representation independent).  A word written by both
           threads must be updated by fresh stores or atomic read-modify-writes; `w.store(w.load() | m)` is a lost-update race.

Calls to functions defined in AsyncLoop.h itself (private/static helpers, AsyncLoopData members, closures that are invoked
directly) are followed: the callee's CFG is explored from the state at the call site, so the event sequence, the lock state
and constant boolean results are carried through (rkstatic.x_sync.Inliner); recursion makes the instance undecided.  A plain
wait(lock) is accepted when, on every path reaching it, the thread has seen shouldBeRunning == false and
threadShouldBeAlive == true while holding runningMutex without interruption (`while (!pred) wait(lock)` is the
hand-expanded predicate overload).  Atomic members the protocol never reads (statistics) are ignored.

Why R-C03-1 suffices for the safety clause ("after stop() returns the body is not executing and does not begin
again until start()"): all four accesses are seq_cst, hence totally ordered.  If stop()'s final load of
insideLoopBody (which follows its store shouldBeRunning = false) reads false, then either the loop's store
insideLoopBody = true precedes that load in the order - so a later store of false intervened, which the automaton
only allows once the body call is over or was never made - or it follows the load, hence follows stop()'s store,
and the loop's subsequent load of shouldBeRunning returns false (until start() stores true again).
"""
from rkstatic.x_sync import Sync, LockState, Inliner, Hooks, SEQ_CST, ORDER_NAMES, CALLS, last

LEVEL = 'proof'
EXPLANATION = (
    "Path automata over the clang CFGs of AsyncLoop's loop-thread closure (both constructor instantiations of the "
    "driver; the THREAD and the TASK launch share the closure), start(), stop(), the destructor and the constructor "
    "decide, for all interleavings at once, the store-own-flag-then-load-the-other's handshake between stop() and "
    "the loop (sufficient for the safety clause under seq_cst, see the module docstring), the condition-variable "
    "discipline that excludes a lost wake-up (predicate wait, predicate-enabling stores under the mutex and "
    "notified), and the destruction sequence (clear, notify, join iff joinable; closure owns its state). Events are "
    "resolved through callee declarations (std::atomic<bool>::operator=/store/load/operator bool, lock_guard / "
    "unique_lock scopes from the CFG's destructor elements, condition_variable::wait/notify). Not decided: latency "
    "('within bounded time') beyond absence of a lost wake-up; a body that never returns; the tasking back end "
    "actually running a scheduled closure (C02).")

LOOP = 'rkcommon::tasking::AsyncLoop'
DATA = LOOP + '::AsyncLoopData'
FILE = 'rkcommon/tasking/AsyncLoop.h'
ALIVE = (DATA, 'threadShouldBeAlive')
RUN = (DATA, 'shouldBeRunning')
INSIDE = (DATA, 'insideLoopBody')
CV = (DATA, 'runningCond')
MTX = (DATA, 'runningMutex')
FLAGS = (ALIVE, RUN, INSIDE)
SCHEDULE = 'rkcommon::tasking::schedule'

R1, R2, R3, R4, R5, R6 = 'R-C03-1', 'R-C03-2', 'R-C03-3', 'R-C03-4', 'R-C03-5', 'R-C03-6'
CLOSURE = 'AsyncLoop::AsyncLoop/loop-closure'


def oname(o):
    return ORDER_NAMES.get(o, 'a non-constant memory order')


class Found:
    """violations / undecided constructs collected during one exploration (de-duplicated by key)"""

    def __init__(self, inl=None):
        self.v = {}
        self.u = {}
        self.inl = inl

    def here(self):
        """(position in the top-level function, helper call chain) of the element being explored"""
        if self.inl is not None and self.inl.stack:
            return self.inl.at, self.inl.chain()
        return None, []

    def viol(self, rule, fn, detail, why, node, at=None, where=None):
        key = '%s|%s|%s|%s' % (rule, FILE, fn, detail)
        chain = []
        if where is not None:
            at, chain = where
        elif at is None:
            at, chain = self.here()
        self.v.setdefault(key, (rule, why, node, at, chain))

    def und(self, rule, why, node):
        self.u.setdefault((rule, why), node)


def render_path(tu, g, keys):
    out = []
    for (b1, _s1), (b2, _s2) in zip(keys, keys[1:]):
        blk = g.blocks[b1]
        if blk.cond and len(blk.succ) == 2 and blk.succ[0] != blk.succ[1]:
            c = tu.node(blk.cond)
            out.append('%s: `%s` is %s' % (tu.loc(c), tu.show(c), 'true' if blk.succ[0] == b2 else 'false'))
    return out


def emit(ctx, tu, g, res, found, instance, rules_ok, loc, okmsg):
    """turn collected findings of one exploration into obligations; one ok line per rule that stayed clean"""
    bad = set()
    und_rules = {rule for (rule, _why) in found.u}
    for key, (rule, why, node, at, chain) in found.v.items():
        if rule in und_rules:
            continue        # an unmodelled construct on the same function: the instance is undecided, not violated
        bad.add(rule)
        path = []
        if at is not None and res is not None:
            path = render_path(tu, g, res.path_to(*at))
        path += chain
        if node is not None:
            path.append('%s: %s' % (tu.loc(node), tu.show(node)))
        ctx.violation(rule, instance, why, tu.loc(node) if node is not None else loc, key=key, path=path)
    for (rule, why), node in found.u.items():
        bad.add(rule)
        ctx.undecided(rule, instance, why, tu.loc(node) if node is not None else loc)
    for rule in rules_ok:
        if rule not in bad:
            ctx.ok(rule, instance, okmsg.get(rule, ''), loc)


class Env:
    def __init__(self, ctx, tu):
        self.ctx = ctx
        self.tu = tu
        self.sy = Sync(tu)
        # calls to functions defined in AsyncLoop.h itself (members, nested-struct members, static helpers, closures that
        # are invoked directly) are followed; everything else (the user body, std::, the tasking layer) is a plain call
        self.inl = Inliner(tu, lambda cf: tu.fn_file(cf) == FILE)
        self.inl.expand = self.sy.expand
        self.park_flags = None    # flags the loop thread has set on every path into wait() and clears only after it: reading one
                                  # false while holding the mutex proves that the thread is not blocked
        self.body_fields = set()  # members of the shared state that hold the user body (std::function)
        self.carriers = {}        # constructor instantiation -> declarations that carry its user functor
        self.gone_flags = set()   # flags the loop thread stores before it gives up its thread while the AsyncLoop lives
        self.deferred = None      # std::function member of AsyncLoop that (re)launches the loop closure
        self.alias_pol = {}       # call expression -> False when it returns the *negation* of the value whose tokens it carries
        self.fids = set()         # declarations that denote the user functor (constructor parameter + helper parameters)
        self.epoch_fields = set() # plain members compared in a wait predicate (sequence numbers / epochs)
        self.need_bump = set()    # ... that start() has to change because the predicate does not look at shouldBeRunning itself
        self.enab = {}            # condition variable -> (field, value) stores that can turn a predicate waited for on it true
        self.pred_conseq = {}
        self.stop_waits = []      # condition-variable waits of stop() that establish insideLoopBody == false
        self.counts = {R1: 0, R2: 0, R3: 0, R4: 0, R5: 0, R6: 0}
        self.launch_kinds = set()
        self.indeterminate_flags = set()   # flags a user-provided AsyncLoopData constructor default-initialises (no value)
        self.locks_published = []   # (node, path) where the loop thread acquires runningMutex while insideLoopBody is published
        self.dtor_locked_blocks = set()   # blocks of the destructor's own CFG entered with runningMutex held

    def count(self, rule, n=1):
        self.counts[rule] += n

    def tok_truth(self, tid, truth):
        return truth if self.alias_pol.get(tid, True) else (not truth)

    def flag_test(self, e):
        """(flag, polarity) if e tests exactly one protocol flag (atomic<bool> load, masked load of the packed word, or a
        one-line helper around either)"""
        return self.sy.flag_test(e, FLAGS) if e is not None else None


# ======================================================================================================
#  anchors
# ======================================================================================================
def find_anchors(E):
    ctx, tu = E.ctx, E.tu
    data = [r for r in tu.records.values() if r.get('q') == DATA]
    loop = [r for r in tu.records.values() if r.get('q') == LOOP]
    if not data or not loop:
        ctx.broken('C03: records %s / %s not found in %s [%s]' % (LOOP, DATA, tu.unit, tu.config))
        return False
    fields = {f['name']: f['ct'] for f in data[0].get('fields', [])}
    want = {ALIVE[1]: 'std::atomic<bool>', RUN[1]: 'std::atomic<bool>', INSIDE[1]: 'std::atomic<bool>',
            CV[1]: 'std::condition_variable', MTX[1]: 'std::mutex'}
    E.indirect = {}       # condition variable / mutex held by reference or pointer instead of by value
    E.packed = None       # member name of the atomic integer word when the flags are bits of it
    flag_names = (ALIVE[1], RUN[1], INSIDE[1])
    if not any(n_ in fields for n_ in flag_names):
        # packed representation: the three flags are enumerators (bit masks) used with an atomic integer member
        def norm(x):
            return x.replace('_', '').lower()
        words = [f for f in data[0].get('fields', []) if f['ct'].startswith('std::atomic<') and f['ct'] != 'std::atomic<bool>'
                 and any(t in f['ct'] for t in ('int', 'long', 'short', 'char'))]
        bits = {}
        for rec_ in (data[0], loop[0]):
            for x in tu.walk(tu.node(rec_['id'])) if tu.node(rec_['id']) is not None else ():
                if x.get('kind') == 'EnumConstantDecl' and norm(x.get('name', '')) in [norm(n_) for n_ in flag_names]:
                    lits = [y.get('value') for y in tu.walk(x) if y.get('kind') in ('ConstantExpr', 'IntegerLiteral') and y.get('value') is not None]
                    vals = [y for y in tu.walk(x) if 'id' in y and tu.sd(y).get('cv') is not None]
                    v = int(tu.sd(vals[0])['cv']) if vals else (int(lits[0]) if lits else None)
                    role = [n_ for n_ in flag_names if norm(n_) == norm(x['name'])][0]
                    if v is not None and v > 0 and v & (v - 1) == 0:
                        bits[v] = (DATA, role)
        if len(words) == 1 and len(bits) == 3 and len(set(bits.values())) == 3:
            E.packed = words[0]['name']
            E.sy.bitwords[(DATA, words[0]['name'])] = bits
            for n_ in flag_names:
                want.pop(n_)
        elif len(words) == 1:
            # the enumerators are not named after the flags: take every single-bit enumerator as a provisional flag; which bit
            # plays which role is inferred from who writes it (infer_packed_roles)
            prov = {}
            for rec_ in (data[0], loop[0]):
                for x in tu.walk(tu.node(rec_['id'])) if tu.node(rec_['id']) is not None else ():
                    if x.get('kind') == 'EnumConstantDecl':
                        vals = [y for y in tu.walk(x) if 'id' in y and tu.sd(y).get('cv') is not None]
                        lits = [y.get('value') for y in tu.walk(x) if y.get('kind') in ('ConstantExpr', 'IntegerLiteral') and y.get('value') is not None]
                        try:
                            v = int(tu.sd(vals[0])['cv']) if vals else (int(lits[0]) if lits else None)
                        except ValueError:
                            v = None
                        if v is not None and v > 0 and v & (v - 1) == 0:
                            prov[v] = (DATA, 'bit:%s' % x.get('name'))
            if len(prov) >= 3:
                E.packed = words[0]['name']
                E.provisional = prov
                E.sy.bitwords[(DATA, words[0]['name'])] = dict(prov)
                for n_ in flag_names:
                    want.pop(n_)
    for name, ty in want.items():
        got = fields.get(name)
        if name in (CV[1], MTX[1]) and got is not None and got != ty and got.rstrip(' &*').strip() == ty:
            E.indirect[name] = got          # same role, reached through a reference / pointer member
            continue
        if got != ty:
            ctx.broken('C03: anchor member %s::%s of type %s not found (found %s)' % (DATA, name, ty, fields.get(name)))
            return False
    E.data_fields = {f['name']: f for f in data[0].get('fields', [])}
    threads = [(LOOP, f['name']) for f in loop[0].get('fields', []) if f['ct'] == 'std::thread']
    for f in loop[0].get('fields', []):
        # the thread may be wrapped in a by-value member of a class of this header (an RAII owner that joins in its destructor)
        hr = tu.records_by_type.get(f['ct'])
        if hr is not None and f['ct'] != 'std::thread' and hr.get('q', '').startswith(LOOP + '::'):
            threads += [(hr['q'], g_['name']) for g_ in hr.get('fields', []) or [] if g_['ct'] == 'std::thread']
    states = [f for f in loop[0].get('fields', []) if f['ct'].startswith('std::shared_ptr<') and DATA in f['ct']]
    if len(threads) != 1 or len(states) != 1:
        ctx.broken('C03: expected exactly one std::thread member and one shared_ptr<AsyncLoopData> member in %s' % LOOP)
        return False
    E.thread_field = threads[0]
    E.state_field = (LOOP, states[0]['name'])
    E.ctors = [f for f in tu.fns(q=LOOP + '::AsyncLoop', dep=False) if f.get('ctor') == 'other' and tu.cfg(f) is not None]
    one = {}
    for nm in ('start', 'stop', '~AsyncLoop'):
        fs = [f for f in tu.fns(q=LOOP + '::' + nm, dep=False) if tu.cfg(f) is not None]
        if len(fs) != 1:
            ctx.broken('C03: anchor function %s::%s not found' % (LOOP, nm))
            return False
        one[nm] = fs[0]
    E.start, E.stop, E.dtor = one['start'], one['stop'], one['~AsyncLoop']
    if not E.ctors:
        ctx.broken('C03: no instantiation of the AsyncLoop constructor template in %s' % tu.unit)
        return False
    return True


def refs_decl(tu, e, decl_ids):
    if not isinstance(decl_ids, (set, frozenset)):
        decl_ids = {decl_ids}
    e = tu.strip(e, casts=True)
    return e is not None and e.get('kind') == 'DeclRefExpr' and e.get('referencedDecl', {}).get('id') in decl_ids


class C03Hooks(Hooks):
    """call hooks of the inlining exploration: bind helper parameters that receive the user functor; hand constant
    boolean return values of helpers to the rule (bind_ret); unfollowable call chains make the instance undecided"""

    def __init__(self, E, found, rule, bind_ret=None, toks_idx=None):
        self.E, self.found, self.rule, self.bind_ret, self.toks_idx = E, found, rule, bind_ret, toks_idx

    def memo_extra(self, n, cf, args):
        return tuple(self.E.sy.int_value(a) for a in args)

    def pre_call(self, n, cf, args, st):
        sy = self.E.sy
        for p, a in zip(cf.get('params', []), args):
            if refs_decl(self.E.tu, sy.unwrap_move(a), self.E.fids):
                self.E.fids.add(p['id'])
            pd_ = self.E.tu.node(p['id'])
            if pd_ is not None and (pd_.get('type', {}).get('qualType') or '').rstrip().endswith('&'):
                sy.ref_alias[p['id']] = a    # reference parameter: stands for its argument (e.g. the closure handed to a launcher)
            v = sy.int_value(a)              # mask constants handed to flag helpers (test / set / clear)
            if v is not None:
                sy.consts[p['id']] = v
            else:
                sy.consts.pop(p['id'], None)
        return [st]

    def post_call(self, n, cf, st, rv):
        if isinstance(rv, bool):
            return [self.bind_ret(st, n['id'], rv)] if self.bind_ret is not None else [st]
        if isinstance(rv, tuple) and rv[0] == 'alias' and self.toks_idx is not None:
            # the helper returned (the negation of) a value that carries tokens: the call expression carries them too
            _k, src, pol = rv
            toks = st[self.toks_idx]
            self.E.alias_pol[n['id']] = pol if self.E.alias_pol.get(src, True) else (not pol)
            toks = addtoks(toks, n['id'], {(n['id'],) + t[1:] for t in toks if t[0] == src})
            return [st[:self.toks_idx] + (toks,) + st[self.toks_idx + 1:]]
        return [st]

    def ret_value(self, e, st):
        cb = self.E.sy.const_bool(e)
        if cb is not None:
            return cb
        pol, atom = self.E.sy.cond_atom(e)
        tid = atom_token(self.E.tu, atom)
        return ('alias', tid, pol) if tid is not None else None

    def problem(self, msg, n):
        self.found.und(self.rule, msg, n)


def carrier_fields(fparam):
    return {x[1:] for x in fparam if isinstance(x, tuple) and x and x[0] == 'F'} if isinstance(fparam, (set, frozenset)) else set()


def is_body_call(tu, n, fparam):
    """a call that receives the user functor (constructor parameter, captured, or a helper parameter bound to it) as
    callee object or as an argument (calls to helpers defined in AsyncLoop.h are followed before this is asked)"""
    if n.get('kind') not in CALLS:
        return False
    if tu.sd(n).get('q') in ('std::move', 'std::forward') or last(tu.sd(n).get('q')) == 'operator=':
        return False                # handing the functor on / storing it is not calling it
    for k in tu.kids(n):
        k0 = tu.strip(k, casts=True)
        if k0 is None:
            continue
        if refs_decl(tu, k0, fparam):
            return True
        if k0.get('kind') == 'MemberExpr' and tu.kids(k0) and refs_decl(tu, tu.kids(k0)[0], fparam):
            return True
        if k0.get('kind') == 'MemberExpr' and 'fi' in tu.sd(k0) and (tu.sd(k0).get('rec'), k0.get('name')) in carrier_fields(fparam):
            return True             # the body lives in a member of the shared state (std::function) and is called through it
    return False


def infer_packed_roles(E, per_ctor):
    """packed flags with free enumerator names: the bit the loop thread sets is insideLoopBody, the bit start() sets (and stop()
    clears) is shouldBeRunning, the other bit the destructor clears is threadShouldBeAlive.  Returns False if not unique."""
    tu, sy = E.tu, E.sy
    word = (DATA, E.packed)

    def writes(top):
        sets, clears = set(), set()
        found = Found(E.inl)

        def transfer(blk, i, e, st):
            ev = sy.event(e)
            if ev is not None and ev[0] == 'store' and ev[1] in E.provisional.values():
                (sets if ev[2] else clears).add(ev[1])
            return [st]
        E.inl.explore(top, [0], transfer, None, C03Hooks(E, found, R1))
        return sets, clears

    loop_sets = set()
    for f, cl in per_ctor:
        for lam, op in cl:
            loop_sets |= writes(op)[0]
    start_sets = writes(E.start)[0]
    stop_clears = writes(E.stop)[1]
    dtor_clears = writes(E.dtor)[1]
    run = start_sets & stop_clears or start_sets
    alive = dtor_clears - run - loop_sets
    if len(loop_sets) != 1 or len(run) != 1 or len(alive) != 1:
        return False
    role = {list(loop_sets)[0]: INSIDE, list(run)[0]: RUN, list(alive)[0]: ALIVE}
    sy.bitwords[word] = {bit: role[fld] for bit, fld in E.provisional.items() if fld in role}
    E.role_names = {v: k[1][4:] for k, v in role.items()}
    return True


def file_functions(E):
    if not hasattr(E, '_file_fns'):
        tu = E.tu
        E._file_fns = [fn for fn in tu.functions.values() if not fn['dep'] and tu.body(fn) is not None and tu.fn_file(fn) == FILE]
    return E._file_fns


def launched_lambdas(E, fns):
    """[(LambdaExpr, call operator, launching function)] for closures handed to std::thread / tasking::schedule in `fns`"""
    tu = E.tu
    out, seen = [], set()
    for fn in fns:
        for n in tu.walk(tu.body(fn)):
            if 'id' not in n:
                continue
            k, q = n.get('kind'), tu.sd(n).get('q')
            arg = None
            if k in ('CXXConstructExpr', 'CXXTemporaryObjectExpr') and q == 'std::thread::thread' and tu.kids(n):
                arg = tu.kids(n)[0]
            elif k == 'CallExpr' and q == SCHEDULE and len(tu.kids(n)) > 1:
                arg = tu.kids(n)[1]
            lam = resolve_lambda(tu, E.sy, arg) if arg is not None else None
            op = tu.functions.get(tu.sd(lam).get('op')) if lam is not None else None
            if lam is not None and op is not None and tu.cfg(op) is not None and lam['id'] not in seen:
                seen.add(lam['id'])
                out.append((lam, op, fn))
    return out


def functor_carriers(E, f):
    """declarations through which the user functor (first constructor parameter) travels inside AsyncLoop.h: parameters of own
    functions that receive it, also wrapped in a closure that just calls it (e.g. converted to std::function); captures refer
    to the captured declaration itself"""
    tu = E.tu
    carriers = {f['params'][0]['id']}
    fns = file_functions(E)
    launched = {lam['id'] for lam, _op, _fn in launched_lambdas(E, fns)}
    for _ in range(6):
        wrappers = set()
        for fn in fns:
            for x in tu.walk(tu.body(fn)):
                if x.get('kind') == 'LambdaExpr' and 'id' in x and x['id'] not in launched:
                    op = tu.functions.get(tu.sd(x).get('op'))
                    if op is not None and tu.body(op) is not None and \
                            any('id' in y and is_body_call(tu, y, carriers) for y in tu.walk(tu.body(op))):
                        wrappers.add(x['id'])
        changed = False
        for fn in fns:
            for x in tu.walk(tu.body(fn)):
                if 'id' not in x:
                    continue
                # `state->body = <the functor>`: a member of the shared state becomes a carrier
                if x.get('kind') in ('CXXOperatorCallExpr', 'BinaryOperator') and (x.get('opcode') == '=' or last(tu.sd(x).get('q')) == 'operator='):
                    ks_ = tu.kids(x)
                    lhs, rhs = (ks_[1], ks_[2]) if x.get('kind') == 'CXXOperatorCallExpr' and len(ks_) == 3 else (ks_[0], ks_[-1]) if len(ks_) >= 2 else (None, None)
                    fl_ = E.sy.field(lhs) if lhs is not None else None
                    if fl_ is not None and fl_[0] == DATA and ('F',) + fl_ not in carriers and rhs is not None and \
                            any((y.get('kind') == 'DeclRefExpr' and y.get('referencedDecl', {}).get('id') in carriers) or
                                (y.get('kind') == 'LambdaExpr' and y.get('id') in wrappers) for y in tu.walk(rhs)):
                        carriers.add(('F',) + fl_)
                        changed = True
                cf = E.inl.callee(x)
                if cf is None:
                    continue
                for p_, a_ in zip(cf.get('params', []), E.inl.args(x, cf)):
                    if p_['id'] in carriers:
                        continue
                    if any((y.get('kind') == 'DeclRefExpr' and y.get('referencedDecl', {}).get('id') in carriers) or
                           (y.get('kind') == 'LambdaExpr' and y.get('id') in wrappers) for y in tu.walk(a_)):
                        carriers.add(p_['id'])
                        changed = True
        if not changed:
            break
    return carriers


def loop_closures(E, f):
    """[(LambdaExpr node, call-operator entry)]: the closures launched (std::thread / tasking::schedule) by constructor f or a
    helper it calls, whose execution (helpers followed) calls the user functor"""
    tu = E.tu
    if not f.get('params'):
        return []
    carriers = functor_carriers(E, f)
    E.carriers[f['id']] = carriers
    out = []
    for lam, op, _fn in launched_lambdas(E, E.inl.reachable_fns(f)):
        if any(is_body_call(tu, s_, carriers) for fn in E.inl.reachable_fns(op) for _b, _i, s_ in tu.cfg(fn).stmts()):
            out.append((lam, op))
    return out


def resolve_lambda(tu, sy, e, depth=0):
    """LambdaExpr node an expression evaluates to (through copies, std::move and local variables), else None"""
    e = sy.unwrap_move(e)
    if e is None or depth > 6:
        return None
    k = e.get('kind')
    if k == 'LambdaExpr':
        return e
    if k in ('CXXConstructExpr', 'CXXTemporaryObjectExpr') and len(tu.kids(e)) == 1:
        return resolve_lambda(tu, sy, tu.kids(e)[0], depth + 1)
    if k == 'DeclRefExpr':
        did = e.get('referencedDecl', {}).get('id')
        if did in sy.ref_alias:
            return resolve_lambda(tu, sy, sy.ref_alias[did], depth + 1)      # parameter of a followed helper
        v = tu.node(did)
        if v is not None and v.get('kind') == 'VarDecl' and tu.kids(v):
            return resolve_lambda(tu, sy, tu.kids(v)[-1], depth + 1)
    return None


# ======================================================================================================
#  wait predicate: read set and polarity
# ======================================================================================================
def pred_tree(E, e):
    tu, sy = E.tu, E.sy
    e = tu.strip(e, casts=True)
    if e is None:
        return None
    k = e.get('kind')
    if k == 'CXXBoolLiteralExpr':
        return ('const', bool(e.get('value')))
    if k == 'UnaryOperator' and e.get('opcode') == '!':
        x = pred_tree(E, tu.kids(e)[0])
        return None if x is None else ('not', x)
    if k == 'BinaryOperator' and e.get('opcode') in ('&&', '||'):
        a, b = (pred_tree(E, x) for x in tu.kids(e))
        return None if a is None or b is None else (e['opcode'], a, b)
    a = sy.atomic_op(e)
    if a is not None and a['op'] == 'load' and a['field'] in FLAGS:
        return ('ld', a['field'])
    ft = E.flag_test(e)
    if ft is not None:
        return ('ld', ft[0]) if ft[1] else ('not', ('ld', ft[0]))
    if k == 'BinaryOperator' and e.get('opcode') in ('==', '!=', '<', '>', '<=', '>='):
        # a comparison that involves a plain (mutex-guarded) member of the shared state, e.g. `wakeEpoch != parkedAt`: an opaque
        # atom of the predicate; any write to that member may change it
        for x in tu.kids(e):
            fl = sy.field(x)
            if fl is not None and fl[0] == DATA and fl not in FLAGS and not (sy.field_type(x) or '').startswith('std::atomic') \
                    and sy.masked_load(tu.strip(x, casts=True)) is None:
                return ('ld', ('$cmp', fl))
    if k == 'BinaryOperator' and e.get('opcode') in ('==', '!='):
        # (snapshot & MASK) != 0 / == 0, written out
        pol, atom = sy.cond_atom(e)
        ml = sy.masked_load(atom) if atom is not None else None
        if ml is not None and ml[0] is not None:
            return ('ld', ml[0]) if pol else ('not', ('ld', ml[0]))
    if k in CALLS:
        # a helper of AsyncLoop.h: [const snapshot = word.load();]* return <combination of flag tests>;
        cf = tu.callee_fn(e)
        body = tu.body(cf) if cf is not None and not cf.get('dep') and tu.fn_file(cf) == FILE else None
        stmts = tu.kids(body) if body is not None else []
        if stmts and stmts[-1].get('kind') == 'ReturnStmt' and tu.kids(stmts[-1]) and \
                all(s_.get('kind') == 'DeclStmt' and all(v_.get('kind') != 'VarDecl' or (tu.kids(v_) and sy.word_load(tu.kids(v_)[-1]) is not None)
                                                       for v_ in tu.kids(s_)) for s_ in stmts[:-1]):
            return pred_tree(E, tu.kids(stmts[-1])[0])
    return None


def ev_tree(t, env):
    if t[0] == 'const':
        return t[1]
    if t[0] == 'not':
        return not ev_tree(t[1], env)
    if t[0] == '&&':
        return ev_tree(t[1], env) and ev_tree(t[2], env)
    if t[0] == '||':
        return ev_tree(t[1], env) or ev_tree(t[2], env)
    return env[t[1]]


def tree_fields(t, acc):
    if t[0] == 'ld':
        acc.add(t[1])
    elif t[0] != 'const':
        for x in t[1:]:
            tree_fields(x, acc)
    return acc


def predicate_enabling(E, pred_expr):
    """set of (field, value) stores that can turn the wait predicate from false to true; None if not understood"""
    tu = E.tu
    lam = resolve_lambda(tu, E.sy, pred_expr)
    if lam is None:
        return None
    op = tu.functions.get(tu.sd(lam).get('op'))
    body = tu.body(op) if op else None
    if body is None:
        return None
    stmts = [s for s in tu.kids(body)]
    if len(stmts) != 1 or stmts[0].get('kind') != 'ReturnStmt' or not tu.kids(stmts[0]):
        return None
    t = pred_tree(E, tu.kids(stmts[0])[0])
    if t is None:
        return None
    fs = sorted(tree_fields(t, set()))
    en = set()
    implied = {(f, v) for f in fs for v in (True, False)}      # (f, v): f == v implies the predicate
    conseq = {(f, v) for f in fs for v in (True, False)}       # (f, v): the predicate implies f == v
    for bits in range(1 << len(fs)):
        env = {f: bool(bits >> i & 1) for i, f in enumerate(fs)}
        if ev_tree(t, env):
            conseq -= {(f, not env[f]) for f in fs}
            continue
        implied -= {(f, env[f]) for f in fs}
        for f in fs:
            for v in (True, False):
                env2 = dict(env)
                env2[f] = v
                if ev_tree(t, env2):
                    en.add((f, v))
    E.pred_conseq[id(pred_expr)] = conseq
    # opaque comparison atoms: every write to the compared member counts as able to turn the predicate true
    opaque = {f_[1] for f_ in fs if f_[0] == '$cmp'}
    E.epoch_fields |= opaque
    en = {p_ for p_ in en if p_[0][0] != '$cmp'} | {(fl, v) for fl in opaque for v in (True, False)}
    return en, implied


# ======================================================================================================
#  R-C03-1 (loop side), R-C03-2, wait sites of R-C03-3: the loop closure
# ======================================================================================================
def unnegate(tu, e):
    """(expression under any number of `!`, odd number of negations?)"""
    e = tu.strip(e, casts=True)
    neg = False
    while e is not None and e.get('kind') == 'UnaryOperator' and e.get('opcode') == '!':
        neg = not neg
        e = tu.strip(tu.kids(e)[0], casts=True)
    return e, neg


def local_copy(tu, n, toks, alias_pol=None):
    """propagate value tokens through `bool r = <load>;` and `r = <load>;` (also `r = !<load>` when alias_pol is given: the
    variable then carries the tokens with inverted truth)"""
    k = n.get('kind')
    if k == 'DeclStmt':
        for v in tu.kids(n):
            if v.get('kind') == 'VarDecl' and tu.kids(v):
                src = tu.strip(tu.kids(v)[-1], casts=True)
                if alias_pol is not None and src is not None:
                    src, neg = unnegate(tu, src)
                    if src is not None and any(t[0] == src.get('id') for t in toks):
                        alias_pol[v['id']] = (not neg) if alias_pol.get(src.get('id'), True) else neg
                if src is not None:
                    add = {(v['id'],) + t[1:] for t in toks if t[0] == src.get('id')}
                    if add:
                        toks = frozenset(set(toks) | add)
        return toks
    if k == 'BinaryOperator' and n.get('opcode') == '=':
        lhs = tu.strip(tu.kids(n)[0], casts=True)
        if lhs is not None and lhs.get('kind') == 'DeclRefExpr':
            var = lhs.get('referencedDecl', {}).get('id')
            src = tu.strip(tu.kids(n)[1], casts=True)
            if alias_pol is not None and src is not None:
                src, neg = unnegate(tu, src)
                if src is not None and any(t[0] == src.get('id') for t in toks):
                    alias_pol[var] = (not neg) if alias_pol.get(src.get('id'), True) else neg
            keep = {t for t in toks if t[0] != var}
            if src is not None:
                keep |= {(var,) + t[1:] for t in toks if t[0] == src.get('id')}
            return frozenset(keep)
    return toks


def bvals_kill(tu, n, bvals):
    """forget what is known about a local bool when it is (re)assigned or declared"""
    k = n.get('kind')
    if not bvals:
        return bvals
    if k == 'DeclStmt':
        ids = {v['id'] for v in tu.kids(n) if v.get('kind') == 'VarDecl'}
        return frozenset(p for p in bvals if p[0] not in ids)
    if k in ('BinaryOperator', 'CompoundAssignOperator') and (n.get('opcode') == '=' or k == 'CompoundAssignOperator'):
        lhs = tu.strip(tu.kids(n)[0], casts=True)
        if lhs is not None and lhs.get('kind') == 'DeclRefExpr':
            var = lhs.get('referencedDecl', {}).get('id')
            return frozenset(p for p in bvals if p[0] != var)
    if k == 'UnaryOperator' and n.get('opcode') in ('++', '--', '&'):
        x = tu.strip(tu.kids(n)[0], casts=True)
        if x is not None and x.get('kind') == 'DeclRefExpr':
            var = x.get('referencedDecl', {}).get('id')
            return frozenset(p for p in bvals if p[0] != var)
    return bvals


def addtoks(toks, tid, new):
    """(re-)executing the load at `tid` replaces whatever was known about its previous execution"""
    return frozenset({t for t in toks if t[0] != tid} | set(new))


def atom_token(tu, atom):
    if atom is None:
        return None
    if atom.get('kind') == 'DeclRefExpr':
        return atom.get('referencedDecl', {}).get('id')
    return atom.get('id')


def check_loop_closure(E, f, lam, op):
    ctx, tu, sy = E.ctx, E.tu, E.sy
    g = tu.cfg(op)
    E.fids = set(E.carriers.get(f['id']) or {f['params'][0]['id']})
    E.body_fields |= carrier_fields(E.fids)
    fparam = E.fids
    found = Found(E.inl)
    cur = {}
    calls = []
    waits = []

    # state: (pub, chk, toks, locks, known, obs, bvals)
    #   obs: (flag, value) pairs observed while runningMutex has been held without interruption; bvals: truth of local bools
    #   (and of helper calls with a constant result) already branched on; toks: (node-or-variable, strength) for loads of
    #   shouldBeRunning made after the publication, (node-or-variable, 'o', flag) for loads made under the mutex;  chk: 0 none / 1 seq_cst re-check / 2 re-check with a weaker order
    def transfer(blk, i, e, st):
        if i == 0:
            cur['at'] = (blk.id, st)
        pub, chk, toks, locks, known, obs, bvals = st
        ev = sy.event(e)
        n = tu.node(e[1]) if e[0] == 'S' else None
        if ev is None:
            if n is not None:
                toks = local_copy(tu, n, toks)
                bvals = bvals_kill(tu, n, bvals)
            return [(pub, chk, toks, locks, known, obs, bvals)]
        kind = ev[0]
        if kind in ('locks', 'unlock-scope', 'lk-unlock', 'lk-lock', 'm-lock', 'm-unlock', 'lk-other', 'm-other'):
            locks2, known, prob = LockState.apply(locks, known, ev)
            if prob:
                found.und(R3, prob, n)
            if pub and LockState.holds(locks2, MTX) and not LockState.holds(locks, MTX):
                E.locks_published.append((n, tu.fn_loc(op)))
            if LockState.holds(locks2, MTX) != LockState.holds(locks, MTX):
                obs = frozenset()
                toks = frozenset(t for t in toks if t[1] != 'o')
            return [(pub, chk, toks, locks2, known, obs, bvals)]
        if kind == 'store':
            _k, fld, val, order, node = ev
            if fld == INSIDE:
                outs = []
                for v in ((True, False) if val is None else (val,)):
                    if v and order != SEQ_CST:
                        found.viol(R1, CLOSURE, 'weak-memory-order', 'insideLoopBody is published with %s; the handshake with '
                                   'stop() needs a seq_cst store' % oname(order), node)
                    if not v and order not in (3, 4, 5):
                        found.viol(R1, CLOSURE, 'weak-memory-order', 'insideLoopBody is retracted with %s; the end of the body '
                                   'must be released to the thread that returns from stop()' % oname(order), node)
                    # pub: 0 retracted, 1 published, 2 published inside a critical section (mutex-based variant)
                    outs.append(((2 if locks else 1) if v else 0, 0, frozenset(), locks, known, obs, bvals))
                if val is None:
                    found.und(R1, 'store of a non-constant value to insideLoopBody', node)
                return outs
            if fld in (RUN, ALIVE):
                found.und(R1, 'the loop thread itself writes %s: not modelled' % fld[1], node)
                return [st]
            if fld is not None and fld[0] == DATA:
                # another flag written by the loop thread (e.g. "parked", "task launched"): remember its last value on this path,
                # and that shouldBeRunning has not been re-read since ('R')
                bvals = frozenset({p for p in bvals if p[0] not in (('P', fld), ('R', fld), ('X', fld))} |
                                  {(('P', fld), val), (('R', fld), False if order == SEQ_CST else None)})
                return [(pub, chk, toks, locks, known, obs, bvals)]
            return [st]
        if kind == 'load':
            _k, fld, order, node = ev
            new = set()
            if fld == RUN and pub:
                new.add((node['id'], 1 if order == SEQ_CST else 2))
            if fld in (RUN, ALIVE) and LockState.holds(locks, MTX):
                new.add((node['id'], 'o', fld))
            if fld in (RUN, ALIVE):
                new.add((node['id'], 'v', fld, order == SEQ_CST))     # last value this path saw (for the exits of the thread)
            toks = addtoks(toks, node['id'], new)
            return [(pub, chk, toks, locks, known, obs, bvals)]
        if kind == 'rmw':
            if ev[1] in FLAGS:
                found.und(R1, 'read-modify-write %s on %s: not modelled' % (ev[2], ev[1][1]), ev[3])
                return [st]
            a_ = sy.atomic_op(ev[3])
            if ev[1] is not None and ev[1][0] == DATA and ev[2] == 'exchange' and a_ is not None and a_.get('value') is True:
                # exchange(true) on another flag: the result says whether it was set before; afterwards it is set
                toks = addtoks(toks, ev[3]['id'], {(ev[3]['id'], 'x', ev[1])})
                bvals = frozenset({p for p in bvals if p[0] != ('P', ev[1])} | {(('P', ev[1]), True)})
                return [(pub, chk, toks, locks, known, obs, bvals)]
            return [st]
        if kind == 'wait':
            waits.append((ev, st, found.here()))
            # the mutex is released while blocked: what was observed before is stale afterwards
            return [(pub, chk, frozenset(t for t in toks if t[1] != 'o'), locks, known, frozenset(), bvals)]
        if kind == 'call':
            node = ev[2]
            if is_body_call(tu, node, fparam):
                if locks:
                    found.und(R1, 'the user body is called while a mutex is held: a different stop protocol than the two-flag '
                              'handshake, not modelled', node)
                calls.append((node, pub, chk, found.here()))
                return [st]
            cf = tu.callee_fn(node)
            if cf is not None and cf.get('rec') == LOOP:
                found.und(R1, 'call of the AsyncLoop member %s from the loop thread: helper calls are not modelled' % cf['q'], node)
        return [st]

    def refine(blk, si, st):
        atom, truth = sy.edge_truth(blk, si)
        tid = atom_token(tu, atom)
        truth = E.tok_truth(tid, truth)
        if tid is None:
            return [st]
        pub, chk, toks, locks, known, obs, bvals = st
        seen = dict(bvals).get(tid)
        if seen is not None and seen != truth:
            return []         # the same unchanged local / the helper's constant result was already found to have the other value
        if atom.get('kind') == 'DeclRefExpr':
            bvals = frozenset(set(bvals) | {(tid, truth)})
        for t in toks:
            if t[0] != tid:
                continue
            if t[1] == 'o':
                obs = frozenset({p for p in obs if p[0] != t[2]} | {(t[2], truth)})
            elif t[1] == 'v':
                bvals = frozenset({p for p in bvals if p[0] != ('V', t[2])} | {(('V', t[2]), truth)})
                if t[2] == RUN and not truth and t[3]:
                    # shouldBeRunning re-read (seq_cst) and found false: flags stored before this point are "published, then checked"
                    bvals = frozenset({p for p in bvals if not (isinstance(p[0], tuple) and p[0][0] == 'R')} |
                                      {(p[0], True) for p in bvals if isinstance(p[0], tuple) and p[0][0] == 'R' and p[1] is False})
            elif t[1] == 'x':
                if truth:
                    bvals = frozenset({p for p in bvals if p[0] != ('X', t[2])} | {(('X', t[2]), True)})
            elif truth:
                chk = 1 if t[1] == 1 else (chk or 2)
        return [(pub, chk, toks, locks, known, obs, bvals)]

    def bind_ret(st, call_id, rv):
        return st[:6] + (frozenset({p_ for p_ in st[6] if p_[0] != call_id} | {(call_id, rv)}),)

    res, _outs = E.inl.explore(op, [(0, 0, frozenset(), frozenset(), frozenset(), frozenset(), frozenset())], transfer, refine,
                               C03Hooks(E, found, R1, bind_ret, toks_idx=2))

    # ---- R-C03-3, exit instead of park: the thread may leave while the AsyncLoop lives (threadShouldBeAlive not seen false) only
    # after "publish, then check": store a flag that start() tests (G), then re-read shouldBeRunning (seq_cst) and find it false -
    # or after learning from an exchange on G that a new runner has already been launched
    for (st, _rv, via) in _outs:
        d = dict(st[6])
        if d.get(('V', ALIVE)) is False:
            continue                            # ordinary exit: the destructor asked for it
        ents = [k for k in res.pred if k[0] == via]
        at = ents[0] if ents else None
        rets = [n_ for (bb, ii, n_) in g.stmts() if bb.id == via and n_.get('kind') == 'ReturnStmt']
        node = rets[0] if rets else None
        stored = [k_[1] for k_ in d if isinstance(k_, tuple) and k_[0] == 'R']
        if any(d.get(('X', fl)) for fl in stored):
            E.gone_flags |= {fl for fl in stored if d.get(('X', fl))}
            continue                            # an exchange told the thread that another runner was launched
        if not stored:
            found.und(R3, 'the loop thread can leave while the AsyncLoop is alive (threadShouldBeAlive not seen false) without '
                      'leaving a mark for start(): restart protocol not recognised', node)
            continue
        unchecked = [fl for fl in stored if d.get(('R', fl)) is not True]
        if unchecked or d.get(('V', RUN)) is not False:
            found.viol(R3, CLOSURE, 'exit-without-recheck', 'the loop thread gives up its thread / task when it finds the loop stopped: it '
                       'stores %s and returns without re-reading shouldBeRunning (seq_cst) *after* that store. start() stores '
                       'shouldBeRunning = true and then tests %s; if it runs between the loop\'s test of shouldBeRunning and the store, '
                       'it still sees the old value of %s, launches nothing, and the thread leaves: the start is lost'
                       % (', '.join(fl[1] for fl in (unchecked or stored)), ', '.join(fl[1] for fl in (unchecked or stored)),
                          ', '.join(fl[1] for fl in (unchecked or stored))), node, at)
        else:
            E.gone_flags |= set(stored)

    # ---- R-C03-1, loop side
    inst = 'loop closure of %s %s [%s]' % (f['q'].replace('rkcommon::tasking::', ''), f['fty'], tu.config)
    E.count(R1)
    if not calls:
        ctx.broken('R-C03-1: no call of the user body found in the loop closure (%s)' % tu.fn_loc(op))
    for node, pub, chk, where in calls:
        if pub and chk == 1:
            continue
        if not pub:
            found.viol(R1, CLOSURE, 'body-call-unpublished', 'the user body is called on a path where insideLoopBody is not '
                       'published (true): stop() reads false and returns while the body runs', node, where=where)
        elif chk == 2:
            found.viol(R1, CLOSURE, 'weak-memory-order', 'shouldBeRunning is re-read after the publication, but not with a seq_cst '
                       'load: the store/load pairs of the handshake are then not totally ordered', node, where=where)
        elif pub == 2:
            found.und(R1, 'insideLoopBody is published inside a critical section without a later re-check of shouldBeRunning: a '
                      'mutex-based stop protocol, not modelled', node)
        else:
            found.viol(R1, CLOSURE, 'body-call-before-recheck', 'at the call of the user body insideLoopBody is published, but '
                       'shouldBeRunning was not read (true) *after* the publication: the loop checks, then publishes. stop() can '
                       'store shouldBeRunning = false, read insideLoopBody == false and return in between; the body then starts '
                       'after stop() has returned', node, where=where)

    # ---- wait sites: R-C03-2 and R-C03-3
    nsites = len({w[0][5]['id'] for w in waits})
    E.count(R2, nsites)
    E.count(R3, 2 * nsites)
    if not waits:
        ctx.broken('R-C03-3: the loop closure contains no condition_variable wait (%s)' % tu.fn_loc(op))
    for ev, st, where in waits:
        _k, cv, lv, pred, flavour, node = ev
        pub, chk, toks, locks, known, obs, bvals = st
        parked_here = {k_[1] for (k_, v) in bvals if isinstance(k_, tuple) and k_[0] == 'P' and v is True and k_[1] not in FLAGS}
        E.park_flags = parked_here if E.park_flags is None else (E.park_flags & parked_here)
        if pub:
            found.viol(R2, CLOSURE, 'waits-while-published', 'the loop thread can block in %s() while insideLoopBody is still true: '
                       'stop() then spins until the next start()' % flavour, node, where=where)
        if cv != CV:
            found.und(R3, 'wait on a condition variable other than %s' % CV[1], node)
            continue
        m = LockState.holder_of(locks, lv)
        if m != MTX:
            found.viol(R3, CLOSURE, 'wait-lock-mismatch', 'wait() is called with a lock that does not hold %s at that point (holds: %s); '
                       'the stores that wake the loop are made under %s' % (MTX[1], m[1] if m else 'nothing', MTX[1]), node, where=where)
            continue
        if pred is None:
            # hand-expanded predicate: the thread blocks only on paths where, holding the mutex without interruption, it
            # has seen shouldBeRunning == false and threadShouldBeAlive == true (`while (!pred) wait(lock)` is one such form;
            # what happens after the wake-up is irrelevant for a lost wake-up, the surrounding loop re-tests)
            if flavour != 'wait':
                found.und(R3, 'timed wait without predicate: not modelled', node)
            elif not obs:
                found.viol(R3, CLOSURE, 'wait-without-predicate', 'wait(lock) without a predicate, and the flags are not re-tested '
                           'under the mutex before blocking: a start() or destructor that runs between the loop\'s unlocked '
                           'check and the wait is lost', node, where=where)
            else:
                if (RUN, False) not in obs:
                    found.viol(R3, CLOSURE, 'predicate-ignores-' + RUN[1], 'the thread can block in wait(lock) without having seen '
                               'shouldBeRunning == false under the mutex: a start() that already happened is not noticed',
                               node, where=where)
                if (ALIVE, True) not in obs:
                    found.viol(R3, CLOSURE, 'predicate-ignores-' + ALIVE[1], 'the thread can block in wait(lock) without having seen '
                               'threadShouldBeAlive == true under the mutex: a destructor that already ran is not noticed and '
                               'join never returns', node, where=where)
                E.enab.setdefault(cv, set()).update({(fl, not v) for (fl, v) in obs if fl in FLAGS})
            continue
        pe = predicate_enabling(E, pred)
        if pe is None:
            found.und(R3, 'wait predicate is not a single return of a boolean combination of atomic flag loads', node)
            continue
        en, implied = pe
        E.enab.setdefault(cv, set()).update(en)
        en = implied
        if (RUN, True) not in en:
            if (RUN, False) in obs and E.epoch_fields:
                # the decision to sleep was re-made under the mutex (shouldBeRunning seen false while holding it without
                # interruption), and the thread then waits for a change of a guarded sequence number: start() has to change it
                E.need_bump |= E.epoch_fields
            else:
                found.viol(R3, CLOSURE, 'predicate-ignores-' + RUN[1], 'shouldBeRunning == true does not imply the wait predicate, and '
                           'shouldBeRunning was not re-tested under %s before blocking: a start() that completes between the loop\'s '
                           'unlocked test of the flag and the wait is not noticed (the thread sleeps although the flag is set; later '
                           'start() calls see the flag set and do nothing)' % MTX[1], node, where=where)
        if (ALIVE, False) not in en and not ((ALIVE, True) in obs and E.epoch_fields):
            found.viol(R3, CLOSURE, 'predicate-ignores-' + ALIVE[1], 'threadShouldBeAlive == false does not imply the wait predicate: '
                       'the destructor cannot (always) wake the loop and join never returns', node, where=where)
    emit(ctx, tu, g, res, found, inst, (R1, R2, R3), tu.fn_loc(op),
         {R1: 'body called only after store(insideLoopBody,true) followed by load(shouldBeRunning)==true, all seq_cst',
          R2: 'insideLoopBody is false at every wait()',
          R3: 'waits on a unique_lock of runningMutex; blocks only if !shouldBeRunning && threadShouldBeAlive was evaluated under it'})
    return found


# ======================================================================================================
#  R-C03-1 stop side
# ======================================================================================================
def check_stop(E):
    ctx, tu, sy = E.ctx, E.tu, E.sy
    f = E.stop
    g = tu.cfg(f)
    found = Found(E.inl)
    cur = {}
    FN = 'AsyncLoop::stop'

    # state: (runv, cleared, q, toks)    toks: (token, 'run'|'inside', strength)
    def transfer(blk, i, e, st):
        if i == 0:
            cur['at'] = (blk.id, st)
        runv, cleared, q, toks = st
        ev = sy.event(e)
        n = tu.node(e[1]) if e[0] == 'S' else None
        if ev is None:
            if n is not None:
                toks = local_copy(tu, n, toks)
            return [(runv, cleared, q, toks)]
        kind = ev[0]
        if kind == 'store':
            _k, fld, val, order, node = ev
            if fld == RUN:
                if val is None:
                    found.und(R1, 'store of a non-constant value to shouldBeRunning in stop()', node)
                    return [st]
                if val:
                    found.viol(R1, FN, 'sets-running', 'stop() stores shouldBeRunning = true', node)
                    return [(None, False, 0, frozenset())]
                if order != SEQ_CST:
                    found.viol(R1, FN, 'weak-memory-order', 'stop() clears shouldBeRunning with %s; the handshake needs a seq_cst '
                               'store' % oname(order), node)
                return [(None, True, 0, frozenset())]
            if fld == INSIDE:
                found.viol(R1, FN, 'writes-insideLoopBody', 'stop() writes insideLoopBody, which belongs to the loop thread', node)
            return [st]
        if kind == 'load':
            _k, fld, order, node = ev
            s = 1 if order == SEQ_CST else 2
            if fld == RUN:
                toks = addtoks(toks, node['id'], {(node['id'], 'run', s)})
            elif fld == INSIDE and cleared:
                toks = addtoks(toks, node['id'], {(node['id'], 'inside', s)})
            else:
                toks = addtoks(toks, node['id'], ())
            return [(runv, cleared, q, toks)]
        if kind == 'rmw' and ev[1] == RUN and ev[2] == 'exchange' and (sy.atomic_op(ev[3]) or {}).get('value') is False:
            # exchange(false): an atomic store of false (it takes the place of the plain store in the handshake) whose result is
            # the previous value - false means the loop was not running and nothing changed
            a_ = sy.atomic_op(ev[3])
            if a_.get('order') != SEQ_CST:
                found.viol(R1, FN, 'weak-memory-order', 'stop() clears shouldBeRunning with exchange(false, %s); the handshake needs '
                           'seq_cst' % oname(a_.get('order')), ev[3])
            return [(None, True, 0, addtoks(frozenset(), ev[3]['id'], {(ev[3]['id'], 'xrun', 1)}))]
        if kind == 'rmw' and ev[1] in FLAGS:
            found.und(R1, 'read-modify-write %s on %s: not modelled' % (ev[2], ev[1][1]), ev[3])
        if kind == 'wait':
            # stop() sleeps instead of spinning: wait(lock, pred) returns only with pred true, evaluated under the mutex; if pred
            # implies insideLoopBody == false this is the observation the handshake needs (its wake-ups are R-C03-3's business)
            _k, cv, lv, pred, flavour, node = ev
            d = tu.node(lv) if lv is not None else None
            decl = tu.par(d) if d is not None else None
            okl = decl is not None and decl.get('kind') == 'DeclStmt' and any(v_ == lv and m_ == MTX and h_ for v_, m_, h_, _x in sy.lock_decl(decl))
            pe = predicate_enabling(E, pred) if pred is not None else None
            if flavour != 'wait' or pe is None or not okl or cv is None or cv[0] != DATA:
                found.und(R1, 'stop() waits on a condition variable in a form that is not modelled (timed / no predicate / lock not on %s)'
                          % MTX[1], node)
                return [st]
            E.enab.setdefault(cv, set()).update(pe[0])
            if (INSIDE, False) in E.pred_conseq.get(id(pred), ()) and cleared:
                E.stop_waits.append(node)
                return [(runv, cleared, 1, toks)]
            return [st]
        if kind in ('m-lock', 'lk-other', 'm-other'):
            found.und(R1, 'stop() locks a mutex by hand: not modelled', n)
        if kind == 'call':
            cf = tu.callee_fn(ev[2])
            if cf is not None and cf.get('rec') == LOOP:
                found.und(R1, 'call of the AsyncLoop member %s: helper calls are not modelled' % cf['q'], ev[2])
        return [st]

    def refine(blk, si, st):
        atom, truth = sy.edge_truth(blk, si)
        tid = atom_token(tu, atom)
        truth = E.tok_truth(tid, truth)
        if tid is None:
            return [st]
        runv, cleared, q, toks = st
        for t in toks:
            if t[0] != tid:
                continue
            if t[1] == 'run':
                runv = truth
            elif t[1] == 'xrun':
                runv = truth
                if not truth:
                    cleared = False         # the flag was already false: this stop() changed nothing (redundant stop)
            elif t[1] == 'inside' and not truth:
                q = 1 if t[2] == 1 else (q or 2)
        return [(runv, cleared, q, toks)]

    res, outs = E.inl.explore(f, [(None, False, 0, frozenset())], transfer, refine, C03Hooks(E, found, R1, toks_idx=3))
    E.count(R1)
    for (st, _rv, via) in outs:
        runv, cleared, q, toks = st
        if g.blocks[via].noret:
            continue
        at = (via, None)
        # a witness state at block entry for the path: any recorded entry state of `via`
        ents = [k for k in res.pred if k[0] == via]
        at = ents[0] if ents else None
        if cleared and q == 1:
            continue
        if not cleared and runv is False:
            continue
        if cleared and q == 2:
            found.viol(R1, FN, 'weak-memory-order', 'stop() reads insideLoopBody with a load weaker than seq_cst after clearing '
                       'shouldBeRunning', None, at)
        elif cleared:
            found.viol(R1, FN, 'return-without-quiescence', 'stop() can return after storing shouldBeRunning = false without having '
                       'observed insideLoopBody == false afterwards: the body may still be running (or about to run) when stop() '
                       'returns', None, at)
        else:
            found.viol(R1, FN, 'flag-not-cleared', 'stop() can return on a path where shouldBeRunning was neither stored false nor '
                       'observed false', None, at)
    emit(ctx, tu, g, res, found, 'AsyncLoop::stop [%s]' % tu.config, (R1,), tu.fn_loc(f),
         {R1: 'every return: store(shouldBeRunning,false) then load(insideLoopBody)==false (seq_cst), or flag observed false'})


# ======================================================================================================
#  R-C03-3: predicate-enabling stores are locked and notified (all functions); start() sets the flag
# ======================================================================================================
def check_signals(E, f, label, fnkey):
    ctx, tu, sy = E.ctx, E.tu, E.sy
    g = tu.cfg(f)
    found = Found(E.inl)
    cur = {}
    nstores = set()
    park = E.park_flags or set()

    # state: (locks, known, owe, nscope, cs, toks, bv)     bv: local bools with a known constant value
    #   owe: (flag name, critical section number, condition variable) of predicate-enabling stores still waiting for their
    #   notify on that condition variable; nscope: condition variables notified in the current critical section; cs: number of
    #   the current / last critical section of runningMutex; toks: (load node or local, park flag, cs) = value of a "parked"
    #   flag (set by the loop thread under the mutex before every wait) read in that critical section
    def transfer(blk, i, e, st):
        if i == 0:
            cur['at'] = (blk.id, st)
        locks, known, owe, nscope, cs, toks, bv = st
        ev = sy.event(e)
        n = tu.node(e[1]) if e[0] == 'S' else None
        if ev is None:
            if n is not None:
                toks = local_copy(tu, n, toks, E.alias_pol)
                if n.get('kind') == 'DeclStmt':
                    for v_ in tu.kids(n):
                        if v_.get('kind') == 'VarDecl' and tu.kids(v_) and sy.const_bool(tu.kids(v_)[-1]) is not None and \
                                (v_.get('type', {}).get('qualType') or '').replace('const ', '') == 'bool':
                            bv = frozenset({p_ for p_ in bv if p_[0] != v_['id']} | {(v_['id'], sy.const_bool(tu.kids(v_)[-1]))})
                elif n.get('kind') == 'BinaryOperator' and n.get('opcode') == '=' and sy.local_var(tu.kids(n)[0]) is not None:
                    var = sy.local_var(tu.kids(n)[0])
                    cb = sy.const_bool(tu.kids(n)[1])
                    bv = frozenset({p_ for p_ in bv if p_[0] != var} | ({(var, cb)} if cb is not None else set()))
            return [(locks, known, owe, nscope, cs, toks, bv)]
        kind = ev[0]
        if kind == 'rmw' and ev[2] == 'exchange' and (sy.atomic_op(ev[3]) or {}).get('value') is not None and ev[1] in FLAGS:
            a_ = sy.atomic_op(ev[3])
            ev = ('store', ev[1], a_['value'], a_.get('order'), ev[3])     # exchange(constant): a store as far as waiters go
            kind = 'store'
            # ... whose result tells whether anything changed: if the old value equals the new one the store was a no-op
            toks = addtoks(toks, ev[4]['id'], {(ev[4]['id'], ('xold', ev[1][1], a_['value']), cs)})
            st = (locks, known, owe, nscope, cs, toks, bv)
        if kind in ('locks', 'unlock-scope', 'lk-unlock', 'lk-lock', 'm-lock', 'm-unlock', 'lk-other', 'm-other'):
            locks2, known, prob = LockState.apply(locks, known, ev)
            if prob:
                found.und(R3, prob, tu.node(e[1]) if e[0] == 'S' else None)
            if LockState.holds(locks2, MTX) != LockState.holds(locks, MTX):
                nscope = frozenset()
                if LockState.holds(locks2, MTX):
                    cs = min(cs + 1, 6)
            return [(locks2, known, owe, nscope, cs, toks, bv)]
        if kind == 'load' and ev[1] in park and LockState.holds(locks, MTX):
            return [(locks, known, owe, nscope, cs, addtoks(toks, ev[3]['id'], {(ev[3]['id'], ev[1], cs)}), bv)]
        if kind == 'store':
            _k, fld, val, order, node = ev
            vals = (True, False) if val is None else (val,)
            cvs = sorted(c for c, en in E.enab.items() if any((fld, v) in en for v in vals))
            if cvs:
                nstores.add(node['id'])
                if not LockState.holds(locks, MTX):
                    found.viol(R3, fnkey, 'store-%s-outside-lock' % fld[1], 'the store %s = %s can turn the predicate of a wait on %s '
                               'true but is made outside a lock scope of %s: it can fall between the waiter\'s predicate test and its '
                               'blocking, and the waiter (%s) sleeps on' % (fld[1], str(val).lower(), '/'.join(c[1] for c in cvs), MTX[1],
                                                                          'the loop thread' if cvs == [CV] else 'stop() / the destructor'),
                               node)
                for c in cvs:
                    if not (c in nscope and LockState.holds(locks, MTX)):
                        owe = frozenset(set(owe) | {(fld[1], cs if LockState.holds(locks, MTX) else -1, c)})
            return [(locks, known, owe, nscope, cs, toks, bv)]
        if kind == 'notify':
            if ev[1] != CV and ev[1] in E.enab:
                return [(locks, known, frozenset(o for o in owe if o[2] != ev[1]),
                         frozenset(set(nscope) | {ev[1]}) if LockState.holds(locks, MTX) else nscope, cs, toks, bv)]
            if ev[1] == CV:
                if getattr(E, 'cv_shared', False) is True and last(tu.sd(ev[2]).get('q')) == 'notify_one':
                    found.viol(R3, fnkey, 'notify-one-on-shared-condvar', 'notify_one() on a condition variable that all AsyncLoop '
                               'instances share (static storage): with several parked loops the single wake-up can go to another '
                               'instance\'s thread, which re-checks its own predicate and sleeps again; this loop is not woken - '
                               'start() is not seen within bounded time, the destructor hangs in join(). Use notify_all() or '
                               'per-instance state', ev[2])
                return [(locks, known, frozenset(o for o in owe if o[2] != CV),
                         frozenset(set(nscope) | {CV}) if LockState.holds(locks, MTX) else nscope, cs, toks, bv)]
            return [st]
        return [st]

    def refine(blk, si, st):
        atom, truth = sy.edge_truth(blk, si)
        tid = atom_token(tu, atom)
        if tid is None:
            return [st]
        truth = E.tok_truth(tid, truth)
        locks, known, owe, nscope, cs, toks, bv = st
        if atom.get('kind') == 'DeclRefExpr' and dict(bv).get(tid) is not None and dict(bv)[tid] != truth:
            return []               # a local bool with a known constant value cannot take the other branch
        for t in toks:
            if t[0] == tid and isinstance(t[1], tuple) and t[1][0] == 'xold':
                if truth == t[1][2]:
                    owe = frozenset(o for o in owe if o[0] != t[1][1])      # the exchange did not change the flag
                continue
            if t[0] == tid and not truth:
                # "nobody is parked", read in critical section t[2]: a store made in that same critical section needs no notify -
                # a waiter that has not blocked yet evaluates its predicate under the mutex after this section and sees the store
                owe = frozenset(o for o in owe if not (o[1] == t[2] and o[2] == CV))
        return [(locks, known, owe, nscope, cs, toks, bv)]

    res, outs = E.inl.explore(f, [(frozenset(), frozenset(), frozenset(), frozenset(), 0, frozenset(), frozenset())], transfer, refine,
                              C03Hooks(E, found, R3, toks_idx=5))
    for (st, _rv, via) in outs:
        if g.blocks[via].noret:
            continue
        for fld, c in sorted({(o[0], o[2]) for o in st[2]}):
            ents = [k for k in res.pred if k[0] == via]
            found.viol(R3, fnkey, 'no-notify-after-' + fld, 'a path stores %s (which can turn the predicate of a wait on %s true) and '
                       'returns without notify on %s: the sleeping %s is not woken'
                       % (fld, c[1], c[1], 'loop thread' if c == CV else 'caller of stop() / destructor'), None, ents[0] if ents else None)
    if nstores or found.v or found.u:
        E.count(R3, max(1, len(nstores)))
        emit(ctx, tu, g, res, found, '%s [%s]' % (label, tu.config), (R3,), tu.fn_loc(f),
             {R3: '%d predicate-enabling store(s), each under %s and notified%s'
                  % (len(nstores), MTX[1], ' (or skipped only after reading %s == false in the same critical section)'
                     % '/'.join(sorted(p_[1] for p_ in park)) if park else '')})
    return len(nstores)


def check_start(E):
    ctx, tu, sy = E.ctx, E.tu, E.sy
    f = E.start
    g = tu.cfg(f)
    found = Found(E.inl)
    FN = 'AsyncLoop::start'
    gone = set(E.gone_flags)        # flags the loop thread stores before giving up its thread: start() has to test them

    def is_deferred_call(n, name):
        """call of <name> on the std::function member that relaunches the loop closure"""
        if E.deferred is None or n is None or n.get('kind') not in ('CXXOperatorCallExpr', 'CXXMemberCallExpr'):
            return False
        s_, obj, _a = tu.call_parts(n)
        return obj is not None and sy.field(obj) == E.deferred and last(s_.get('q')) == name

    # state: (runv, setflag, toks, tested, needs, did)
    #   tested: after the store shouldBeRunning = true the path has examined the loop thread's "gone" mark (or found that there is
    #   no deferred launcher); needs: the mark said the thread is gone; did: the launcher was called
    def transfer(blk, i, e, st):
        runv, setf, toks, tested, needs, did = st
        ev = sy.event(e)
        n = tu.node(e[1]) if e[0] == 'S' else None
        if n is not None and is_deferred_call(n, 'operator bool'):
            return [(runv, setf, addtoks(toks, n['id'], {(n['id'], 'df')}), tested, needs, did)]
        if n is not None and is_deferred_call(n, 'operator()'):
            return [(runv, setf, toks, tested, needs, True)]
        if ev is None:
            if n is not None:
                toks = local_copy(tu, n, toks)
            return [(runv, setf, toks, tested, needs, did)]
        if ev[0] == 'store':
            _k, fld, val, order, node = ev
            if fld in E.need_bump:
                return [(runv, setf, frozenset(set(toks) | {('$bumped',)}), tested, needs, did)]
            if fld == RUN:
                if val is None:
                    found.und(R3, 'store of a non-constant value to shouldBeRunning in start()', node)
                return [(None, bool(val), frozenset(t for t in toks if t[0] == '$bumped'), False, False, False)]
            if fld == INSIDE:
                found.viol(R1, FN, 'writes-insideLoopBody', 'start() writes insideLoopBody, which belongs to the loop thread', node)
            return [st]
        if ev[0] == 'rmw' and ev[1] == RUN and ev[2] == 'exchange' and (sy.atomic_op(ev[3]) or {}).get('value') is True:
            # exchange(true): sets the flag; the result is the previous value
            return [(None, True, frozenset(t for t in toks if t[0] == '$bumped'), False, False, False)]
        if ev[0] == 'load' and ev[1] == RUN:
            return [(runv, setf, addtoks(toks, ev[3]['id'], {(ev[3]['id'], 'run')}), tested, needs, did)]
        if ev[0] == 'load':
            new = {(ev[3]['id'], 'g', True)} if (ev[1] in gone and setf and ev[2] == SEQ_CST) else ()
            return [(runv, setf, addtoks(toks, ev[3]['id'], new), tested, needs, did)]
        if ev[0] == 'rmw' and ev[1] in gone and setf:
            a_ = sy.atomic_op(ev[3])
            if ev[2] == 'exchange' and a_ is not None and a_.get('value') is True and a_.get('order') == SEQ_CST:
                return [(runv, setf, addtoks(toks, ev[3]['id'], {(ev[3]['id'], 'g', True)}), tested, needs, did)]
            found.und(R3, 'start() examines %s with %s: not modelled' % (ev[1][1], ev[2]), ev[3])
            return [st]
        if ev[0] == 'call':
            cf = tu.callee_fn(ev[2])
            if cf is not None and cf.get('rec') == LOOP:
                found.und(R3, 'call of the AsyncLoop member %s: helper calls are not modelled' % cf['q'], ev[2])
        return [st]

    def refine(blk, si, st):
        atom, truth = sy.edge_truth(blk, si)
        tid = atom_token(tu, atom)
        truth = E.tok_truth(tid, truth)
        runv, setf, toks, tested, needs, did = st
        for t in toks:
            if tid is None or t[0] != tid:
                continue
            if t[1] == 'run':
                runv = truth
            elif t[1] == 'g':
                tested = True
                if not truth:
                    needs = True            # the mark was clear: the loop thread is gone (and the exchange set it again)
            elif t[1] == 'df' and not truth:
                tested = True               # no deferred launcher (the loop owns a parked thread): nothing to relaunch
        return [(runv, setf, toks, tested, needs, did)]

    res, outs = E.inl.explore(f, [(None, False, frozenset(), False, False, False)], transfer, refine, C03Hooks(E, found, R3, toks_idx=2))
    E.count(R3)
    for (st, _rv, via) in outs:
        runv, setf, toks, tested, needs, did = st
        if g.blocks[via].noret:
            continue
        ents = [k for k in res.pred if k[0] == via]
        at = ents[0] if ents else None
        if not (setf or runv is True):
            found.viol(R3, FN, 'flag-not-set', 'start() can return on a path where shouldBeRunning was neither stored true nor observed '
                       'true: the loop is never resumed', None, at)
        if E.need_bump and setf and ('$bumped',) not in toks:
            found.viol(R3, FN, 'start-does-not-advance-' + '-'.join(sorted(x[1] for x in E.need_bump)), 'the parked loop thread waits for '
                       'a change of %s; start() stores shouldBeRunning = true but does not change it: the thread is not woken'
                       % ', '.join(sorted(x[1] for x in E.need_bump)), None, at)
        if gone and setf and not tested:
            found.viol(R3, FN, 'start-does-not-test-' + '-'.join(sorted(x[1] for x in gone)), 'the loop thread gives up its thread while '
                       'stopped (after storing %s); start() stores shouldBeRunning = true but returns without examining that flag '
                       '(seq_cst, after the store): nobody runs the loop any more' % ', '.join(sorted(x[1] for x in gone)), None, at)
        if needs and not did:
            found.viol(R3, FN, 'start-does-not-relaunch', 'start() learns that the loop thread is gone but returns without calling the '
                       'launcher', None, at)
    emit(ctx, tu, g, res, found, 'AsyncLoop::start sets the flag [%s]' % tu.config, (R3,), tu.fn_loc(f),
         {R3: 'every return: shouldBeRunning stored true or observed true' +
              ('; after the store the mark %s of a loop thread that gave up is examined and the launcher called'
               % '/'.join(sorted(x[1] for x in gone)) if gone else '')})


# ======================================================================================================
#  R-C03-4: destructor, launch, closure ownership
# ======================================================================================================
def check_dtor(E):
    ctx, tu, sy = E.ctx, E.tu, E.sy
    f = E.dtor
    g = tu.cfg(f)
    found = Found(E.inl)
    cur = {}
    FN = 'AsyncLoop::~AsyncLoop'
    TH = E.thread_field

    # state: (locks, known, cleared, owe, nscope, j, toks)   j: '?' unknown, 'Y' joinable, 'N' not joinable, 'J' joined
    def transfer(blk, i, e, st):
        if i == 0:
            cur['at'] = (blk.id, st)
        locks, known, cleared, owe, nscope, j, toks = st
        if i == 0 and LockState.holds(locks, MTX) and blk is g.blocks.get(blk.id):
            E.dtor_locked_blocks.add(blk.id)
        ev = sy.event(e)
        n = tu.node(e[1]) if e[0] == 'S' else None
        if ev is None:
            if n is not None:
                toks = local_copy(tu, n, toks)
            return [(locks, known, cleared, owe, nscope, j, toks)]
        kind = ev[0]
        if kind in ('locks', 'unlock-scope', 'lk-unlock', 'lk-lock', 'm-lock', 'm-unlock', 'lk-other', 'm-other'):
            locks2, known, prob = LockState.apply(locks, known, ev)
            if LockState.holds(locks2, MTX) != LockState.holds(locks, MTX):
                nscope = False
            return [(locks2, known, cleared, owe, nscope, j, toks)]
        if kind == 'store':
            _k, fld, val, order, node = ev
            if fld == ALIVE:
                if val is None:
                    found.und(R4, 'store of a non-constant value to threadShouldBeAlive', node)
                    return [st]
                if val:
                    return [(locks, known, False, owe, nscope, j, toks)]
                return [(locks, known, True, not (nscope and LockState.holds(locks, MTX)), nscope, j, toks)]
            if fld == INSIDE:
                found.viol(R1, FN, 'writes-insideLoopBody', 'the destructor writes insideLoopBody, which belongs to the loop thread',
                           node)
            if fld in E.body_fields and j != 'J':
                found.viol(R4, FN, 'body-released-while-loop-may-run', 'the destructor overwrites / releases %s - the callable the loop '
                           'thread invokes - on a path where that thread was not joined (TASK launch: nothing to join): the task may '
                           'be inside the body, or about to call it, while the std::function and everything it captured are destroyed '
                           '(use after free). The shared state is kept alive by the task precisely so that it can finish'
                           % fld[1], node)
            return [st]
        if kind == 'notify' and ev[1] == CV:
            return [(locks, known, cleared, False, nscope or LockState.holds(locks, MTX), j, toks)]
        if kind == 'call':
            node = ev[2]
            s, obj, args = tu.call_parts(node)
            if s.get('rec') == 'std::thread' and obj is not None and sy.field(obj) == TH:
                name = last(s.get('q'))
                if name == 'joinable':
                    return [(locks, known, cleared, owe, nscope, j, frozenset(set(toks) | {(node['id'], 'joinable')}))]
                if name == 'join':
                    if j != 'Y':
                        found.viol(R4, FN, 'join-unguarded', 'join() is called on a path where joinable() was not observed true; with '
                                   'the TASK launch the thread member is empty and join() throws inside the (noexcept) destructor',
                                   node)
                    if not cleared or owe:
                        found.viol(R4, FN, 'join-before-signal', 'join() is reached before threadShouldBeAlive was cleared and the '
                                   'waiter notified: the loop thread never leaves its loop and the destructor never returns',
                                   node)
                    return [(locks, known, cleared, owe, nscope, 'J', toks)]
                if name == 'detach':
                    found.viol(R4, FN, 'detach', 'the destructor detaches the loop thread instead of joining it: a body invocation can '
                               'run or begin after the AsyncLoop is destroyed', node)
                    return [(locks, known, cleared, owe, nscope, 'J', toks)]
                found.und(R4, 'operation %s on the thread member: not modelled' % name, node)
                return [st]
            cf = tu.callee_fn(node)
            if cf is not None and cf.get('rec') == LOOP:
                found.und(R4, 'call of the AsyncLoop member %s: helper calls are not modelled' % cf['q'], node)
        return [st]

    def refine(blk, si, st):
        atom, truth = sy.edge_truth(blk, si)
        tid = atom_token(tu, atom)
        truth = E.tok_truth(tid, truth)
        if tid is None:
            return [st]
        locks, known, cleared, owe, nscope, j, toks = st
        if any(t[0] == tid for t in toks) and j in ('?', 'Y', 'N'):
            j = 'Y' if truth else 'N'
        return [(locks, known, cleared, owe, nscope, j, toks)]

    res, outs = E.inl.explore(f, [(frozenset(), frozenset(), False, False, False, '?', frozenset())], transfer, refine,
                               C03Hooks(E, found, R4, toks_idx=6))
    E.count(R4)
    for (st, _rv, via) in outs:
        if g.blocks[via].noret:
            continue
        locks, known, cleared, owe, nscope, j, toks = st
        ents = [k for k in res.pred if k[0] == via]
        at = ents[0] if ents else None
        if not cleared:
            found.viol(R4, FN, 'alive-not-cleared', 'the destructor can return without clearing threadShouldBeAlive: the loop thread '
                       'keeps running on state it shares with a destroyed object, and an owned thread is never asked to exit', None, at)
        if j not in ('N', 'J'):
            found.viol(R4, FN, 'no-join', 'the destructor can return on a path where the thread member may still be joinable and was '
                       'not joined: a body invocation can run or begin after destruction (and ~thread terminates the program)', None, at)
    emit(ctx, tu, g, res, found, 'AsyncLoop::~AsyncLoop [%s]' % tu.config, (R4,), tu.fn_loc(f),
         {R4: 'threadShouldBeAlive cleared on every path, waiter notified, join() exactly when joinable()'})


def check_ctor(E, f, closures):
    ctx, tu, sy = E.ctx, E.tu, E.sy
    g = tu.cfg(f)
    found = Found(E.inl)
    cur = {}
    FN = 'AsyncLoop::AsyncLoop'
    lam_ids = {lam['id'] for lam, _op in closures}
    kinds = set()

    def is_loop(e):
        lam = resolve_lambda(tu, sy, e)
        return lam is not None and lam['id'] in lam_ids

    # the launch-method parameter: possible values along the path (universe = the enumerators of its type), so that the
    # combinations of tests the constructor makes on it are followed exactly
    mparam = f['params'][1]['id'] if len(f.get('params', [])) > 1 else None
    mvars = {mparam} if mparam is not None else set()
    universe = None
    auto_val = [None]
    if mparam is not None:
        ename = f['params'][1]['ct'].split('::')[-1]
        lrec = [r for r in tu.records.values() if r.get('q') == LOOP]
        for x in tu.walk(tu.node(lrec[0]['id'])) if lrec and tu.node(lrec[0]['id']) is not None else ():
            if x.get('kind') == 'EnumDecl' and x.get('name') == ename:
                vals, nxt = [], 0
                for c in tu.kids(x):
                    if c.get('kind') != 'EnumConstantDecl':
                        continue
                    lits = [y.get('value') for y in tu.walk(c) if y.get('kind') in ('IntegerLiteral', 'ConstantExpr') and y.get('value') is not None]
                    v = int(lits[0]) if lits else nxt
                    vals.append(v)
                    if c.get('name') == 'AUTO':
                        auto_val[0] = v
                    nxt = v + 1
                universe = frozenset(vals)

    def const_int(e):
        cv = tu.sd(tu.strip(e, casts=True)).get('cv') if e is not None else None
        try:
            return int(cv) if cv is not None else None
        except ValueError:
            return None

    def launch(st, kind, node=None):
        kinds.add(kind)
        if kind == 'task' and st[1] is not None and auto_val[0] in st[1] and dict(st[2]).get('$pool') == 'small' and \
                dict(st[2]).get('$autocmp'):
            found.viol(R4, FN, 'auto-small-pool-launched-as-task', 'the loop is launched as a task on a path where the launch method is '
                       'still AUTO and numTaskingThreads() was just found *small*: AUTO is resolved to TASK only for a large pool; on a '
                       'small one the loop has to get (and the destructor has to join) its own thread - as a task it parks inside '
                       'one of the few workers and nothing is joined on destruction', node)
        return [('twice' if st[0] is not None else kind,) + st[1:]]

    # state: (launched, possible values of the launch-method parameter | None, truth of local bools already branched on)
    def transfer(blk, i, e, st):
        if i == 0:
            cur['at'] = (blk.id, st)
        if e[0] != 'S':
            return [st]
        n = tu.node(e[1])
        if n is None:
            return [st]
        k = n.get('kind')
        s = tu.sd(n)
        if k == 'BinaryOperator' and n.get('opcode') == '=' and mparam is not None and sy.local_var(tu.kids(n)[0]) in mvars:
            rhs = tu.strip(tu.kids(n)[1], casts=True)
            vals = None
            if const_int(rhs) is not None:
                vals = frozenset({const_int(rhs)})
            elif rhs is not None and rhs.get('kind') == 'ConditionalOperator':
                arms = [const_int(x) for x in tu.kids(rhs)[1:3]]
                if None not in arms:
                    vals = frozenset(arms)
            return [(st[0], vals if vals is not None else universe, st[2])]
        if k in ('DeclStmt', 'BinaryOperator', 'CompoundAssignOperator', 'UnaryOperator'):
            b2 = bvals_kill(tu, n, st[2])
            if b2 != st[2]:
                return [(st[0], st[1], b2)]
        if k == 'CallExpr' and s.get('q') == SCHEDULE:
            args = tu.kids(n)[1:]
            if args and is_loop(args[0]):
                return launch(st, 'task', n)
        if k in ('CXXConstructExpr', 'CXXTemporaryObjectExpr') and s.get('q') == 'std::thread::thread' and tu.kids(n):
            if is_loop(tu.kids(n)[0]):
                # must be the right-hand side of `threadMember = std::thread(closure)`
                p = tu.par(n)
                hops = 0
                while p is not None and hops < 8 and p.get('kind') in ('CXXBindTemporaryExpr', 'MaterializeTemporaryExpr',
                                                                        'CXXFunctionalCastExpr', 'ImplicitCastExpr', 'ParenExpr',
                                                                        'ExprWithCleanups', 'CallExpr') and \
                        (p.get('kind') != 'CallExpr' or tu.sd(p).get('q') == 'std::move'):
                    p = tu.par(p)
                    hops += 1
                okp = False
                if p is not None and p.get('kind') == 'CXXOperatorCallExpr' and tu.sd(p).get('q') == 'std::thread::operator=':
                    _s, obj, _a = tu.call_parts(p)
                    okp = obj is not None and sy.field(obj) == E.thread_field and sy.base_is_this(obj)
                if not okp:
                    found.und(R4, 'a std::thread running the loop closure is not assigned directly to the thread member', n)
                return launch(st, 'thread')
        if k == 'CXXOperatorCallExpr' and last(s.get('q')) == 'operator=' and (s.get('rec') or '').startswith('std::function'):
            _s, obj, args = tu.call_parts(n)
            fld_ = sy.field(obj) if obj is not None else None
            lam2 = resolve_lambda(tu, sy, args[0]) if args else None
            if fld_ is not None and fld_[0] == LOOP and sy.base_is_this(obj) and lam2 is not None:
                inner = [x for x in tu.walk(lam2) if 'id' in x and x.get('kind') == 'CallExpr' and tu.sd(x).get('q') == SCHEDULE
                         and len(tu.kids(x)) > 1 and is_loop(tu.kids(x)[1])]
                if inner:
                    # the member holds a callable that schedules the loop closure: launched later, by whoever calls it
                    E.deferred = fld_
                    kinds.add('task')
                    return [('deferred' if st[0] is None else 'twice',) + st[1:]]
        if is_body_call(tu, n, E.carriers.get(f['id']) or {f['params'][0]['id']}):
            found.viol(R1, FN, 'body-called-by-constructor', 'the constructor itself invokes the user body, outside the loop thread and '
                       'its handshake', n)
        if k in ('CXXMemberCallExpr', 'CXXOperatorCallExpr'):
            a = sy.atomic_op(n)
            if a is not None and a['op'] in ('store', 'rmw') and a['field'] == INSIDE:
                found.viol(R1, FN, 'writes-insideLoopBody', 'the constructor writes insideLoopBody, which belongs to the loop thread', n)
        if k == 'CXXMemberCallExpr' and s.get('rec') == 'std::thread':
            _s, obj, _a = tu.call_parts(n)
            if obj is not None and sy.field(obj) == E.thread_field and last(s.get('q')) in ('detach', 'join'):
                found.viol(R4, FN, 'thread-' + last(s.get('q')), 'the constructor calls %s() on the thread member: the destructor can no '
                           'longer join the loop thread' % last(s.get('q')), n)
        if k in CALLS:
            cf = tu.callee_fn(n)
            if cf is not None and cf.get('rec') == LOOP:
                found.und(R4, 'call of the AsyncLoop member %s: helper calls are not modelled' % cf['q'], n)
        return [st]

    def refine(blk, si, st):
        if blk.cond is None or len(blk.succ) != 2:
            return [st]
        pol, atom = sy.cond_atom(tu.node(blk.cond))
        if atom is None:
            return [st]
        truth = pol if si == 0 else (not pol)
        launched, mv, bv = st
        if atom.get('kind') == 'BinaryOperator' and atom.get('opcode') in ('<', '>', '<=', '>='):
            # numTaskingThreads() compared with a constant: which way did the pool-size test go on this path?
            a0, b0 = tu.kids(atom)
            for x, y, flip in ((a0, b0, False), (b0, a0, True)):
                xs = tu.strip(x, casts=True)
                if xs is not None and xs.get('kind') == 'CallExpr' and tu.sd(xs).get('q', '').endswith('numTaskingThreads') and \
                        const_int(y) is not None:
                    greater = atom['opcode'] in ('>', '>=')
                    if flip:
                        greater = not greater
                    large = truth if greater else (not truth)
                    bv = frozenset({p_ for p_ in bv if p_[0] != '$pool'} | {('$pool', 'large' if large else 'small')})
                    return [(launched, mv, bv)]
        if atom.get('kind') == 'BinaryOperator' and atom.get('opcode') in ('==', '!=') and mparam is not None and mv is not None:
            a0, b0 = tu.kids(atom)
            for x, y in ((a0, b0), (b0, a0)):
                if sy.local_var(x) in mvars and const_int(y) is not None:
                    if dict(bv).get('$pool') == 'small' and auto_val[0] in mv:
                        # the launch is being decided by comparing the (still possibly AUTO) method after the pool was found small
                        bv = frozenset(set(bv) | {('$autocmp', True)})
                    eq = truth if atom['opcode'] == '==' else (not truth)
                    mv2 = (mv & {const_int(y)}) if eq else (mv - {const_int(y)})
                    return [(launched, mv2, bv)] if mv2 else []
        var = sy.local_var(atom)
        if var is not None and var not in mvars:
            seen = dict(bv).get(var)
            if seen is not None and seen != truth:
                return []
            return [(launched, mv, frozenset(set(bv) | {(var, truth)}))]
        return [st]

    class CtorHooks(C03Hooks):
        def pre_call(self, n, cf, args, st):
            for p_, a_ in zip(cf.get('params', []), args):
                if sy.local_var(a_) in mvars:
                    mvars.add(p_['id'])         # the launch method handed on to a helper (launch(body, m))
            return C03Hooks.pre_call(self, n, cf, args, st)

    res, outs = E.inl.explore(f, [(None, universe, frozenset())], transfer, refine, CtorHooks(E, found, R4))
    E.count(R4)
    for (st, _rv, via) in outs:
        if g.blocks[via].noret:
            continue
        ents = [k for k in res.pred if k[0] == via]
        at = ents[0] if ents else None
        if st[0] is None:
            found.viol(R4, FN, 'not-launched', 'a path through the constructor launches the loop closure neither on a thread nor as a '
                       'task', None, at)
        elif st[0] == 'twice':
            found.viol(R4, FN, 'launched-twice', 'a path through the constructor launches the loop closure twice (as a thread and as a '
                       'task, or two of a kind): two runners execute the same loop over one AsyncLoopData - they share the single '
                       'insideLoopBody flag that stop() waits on (one runner clears it while the other is inside the body) and one '
                       'notify_one() wakes only one of them', None, at)
    E.launch_kinds |= kinds
    inst = '%s %s launch [%s]' % (f['q'].replace('rkcommon::tasking::', ''), f['fty'], tu.config)
    emit(ctx, tu, g, res, found, inst, (R4, R1), tu.fn_loc(f),
         {R4: 'loop closure launched exactly once per path (%s)' % ', '.join(sorted(kinds)),
          R1: 'constructor neither calls the body nor writes insideLoopBody'})

    # closure ownership
    for lam, op in closures:
        E.count(R4)
        inst = 'captures of the loop closure of %s %s [%s]' % (f['q'].replace('rkcommon::tasking::', ''), f['fty'], tu.config)
        rec = [k for k in tu.kids(lam) if k.get('kind') == 'CXXRecordDecl']
        if not rec:
            ctx.undecided(R4, inst, 'closure class not found in the AST', tu.loc(lam))
            continue
        caps = [k.get('type', {}) for k in tu.kids(rec[0]) if k.get('kind') == 'FieldDecl']
        bad = False
        shared = 0
        for t in caps:
            qt = t.get('desugaredQualType') or t.get('qualType', '')
            q0 = qt.replace('const ', '').strip()
            if q0.endswith('&'):
                bad = True
                ctx.violation(R4, inst, 'the loop closure captures `%s` by reference; the closure outlives the constructor (and, '
                              'launched as a task, the AsyncLoop): dangling reference' % qt, tu.loc(lam),
                              key='%s|%s|%s|closure-captures-by-reference' % (R4, FILE, FN))
            elif q0.endswith('*') and 'AsyncLoop' in q0:
                bad = True
                what = 'this' if 'AsyncLoopData' not in q0 else 'a raw pointer to the shared state'
                ctx.violation(R4, inst, 'the loop closure captures %s (`%s`); launched as a task it outlives the AsyncLoop: '
                              'use after free' % (what, qt), tu.loc(lam),
                              key='%s|%s|%s|closure-captures-%s' % (R4, FILE, FN, 'this' if what == 'this' else 'raw-state'))
            elif q0.startswith('std::shared_ptr<') and 'AsyncLoopData' in q0:
                shared += 1
        if not bad and shared != 1:
            bad = True
            ctx.violation(R4, inst, 'the loop closure does not hold a shared_ptr to the AsyncLoopData by value (captures: %s)'
                          % [t.get('qualType') for t in caps], tu.loc(lam),
                          key='%s|%s|%s|closure-no-shared-state' % (R4, FILE, FN))
        if not bad:
            ctx.ok(R4, inst, 'captures by value: %s' % [t.get('qualType') for t in caps], tu.loc(lam))


def dtor_always_stores(E, field, value):
    """does every path through the destructor store `value` to `field`?"""
    tu, sy = E.tu, E.sy
    g = tu.cfg(E.dtor)

    def transfer(blk, i, e, st):
        ev = sy.event(e)
        if ev is not None and ev[0] == 'store' and ev[1] == field:
            return [ev[2] is value]
        return [st]

    _res, outs = E.inl.explore(E.dtor, [False], transfer, None, Hooks())
    return all(st for (st, _rv, _via) in outs)


def check_loop_exit(E, f, lam, op):
    """R-C03-4 (termination of the owned thread): once the destructor has cleared threadShouldBeAlive (and shouldBeRunning, if
    it does on every path), the loop closure reaches its end: no cycle survives in its CFG when the branches on those flags
    are resolved accordingly (the body and wait() are assumed to return; the predicate is true by R-C03-3)."""
    ctx, tu, sy = E.ctx, E.tu, E.sy
    fixed = {ALIVE: False}
    if dtor_always_stores(E, RUN, False):
        fixed[RUN] = False

    def flag_of(atom):
        a = sy.atomic_op(atom) if atom is not None else None
        if a is not None and a['op'] == 'load' and a['field'] in FLAGS:
            return a['field']
        v = sy.local_var(atom) if atom is not None else None
        if v is not None:
            d = tu.node(v)
            if d is not None and d.get('kind') == 'VarDecl' and tu.kids(d):
                a = sy.atomic_op(tu.strip(tu.kids(d)[-1], casts=True))
                if a is not None and a['op'] == 'load' and a['field'] in FLAGS:
                    return a['field']
        return None

    def edge_allowed(b, si):
        """(may this edge be taken once the flags have their final values?, does the branch depend on something else?)"""
        atom, truth = sy.edge_truth(b, si)
        fl = flag_of(atom)
        if fl is None and atom is not None:
            ft = E.flag_test(atom)
            if ft is not None:
                fl, truth = ft[0], (truth if ft[1] else (not truth))
        if fl in fixed:
            return truth == fixed[fl], False
        if fl is None and atom is not None and len(b.succ) == 2 and None not in b.succ and b.cond:
            c = helper_constant(atom)
            if c is not None:
                return truth == c, False
            return True, True
        return True, False

    hc_memo = {}

    def helper_constant(atom, depth=0):
        """the loop is steered by the result of a helper of AsyncLoop.h (`while (data->runIteration(fcn))`): if, with the flags at
        their final values, every return the helper can still reach yields the same boolean constant, the call is that constant"""
        cf = E.inl.callee(atom) if atom is not None and atom.get('kind') in CALLS else None
        if cf is None or depth > 3:
            return None
        if cf['id'] in hc_memo:
            return hc_memo[cf['id']]
        hc_memo[cf['id']] = None
        gh = tu.cfg(cf)
        seen, todo, vals = {gh.entry}, [gh.entry], set()
        while todo:
            x = todo.pop()
            blk = gh.blocks[x]
            for e_ in blk.el:
                n_ = tu.node(e_[1]) if e_[0] == 'S' else None
                if n_ is not None and n_.get('kind') == 'ReturnStmt':
                    vals.add(sy.const_bool(tu.kids(n_)[0]) if tu.kids(n_) else None)
            for si, t in enumerate(blk.succ):
                if t is None or t in seen:
                    continue
                ok_, _o = edge_allowed(blk, si)
                if ok_:
                    seen.add(t)
                    todo.append(t)
        hc_memo[cf['id']] = vals.pop() if len(vals) == 1 and None not in vals else None
        return hc_memo[cf['id']]

    def find_cycle(g):
        succ = {}
        opaque = set()      # blocks whose branch does not depend on the flags at all
        for b in g.blocks.values():
            outs = []
            for si, t in enumerate(b.succ):
                if t is None:
                    continue
                ok_, op_ = edge_allowed(b, si)
                if not ok_:
                    continue
                if op_:
                    opaque.add(b.id)
                outs.append(t)
            succ[b.id] = outs
        # reachable part and its cycles (iterative DFS with colours)
        colour, stack, cyc = {}, [(g.entry, iter(succ[g.entry]))], None
        colour[g.entry] = 1
        order = [g.entry]
        while stack and cyc is None:
            b, it = stack[-1]
            for t in it:
                if colour.get(t) == 1:
                    cyc = order[order.index(t):]
                    break
                if t not in colour:
                    colour[t] = 1
                    order.append(t)
                    stack.append((t, iter(succ[t])))
                    break
            else:
                colour[b] = 2
                order.pop()
                stack.pop()
        return cyc, opaque

    E.count(R4)
    inst = 'termination of the loop closure of %s %s [%s]' % (f['q'].replace('rkcommon::tasking::', ''), f['fty'], tu.config)
    # the closure and every helper of AsyncLoop.h it calls (followed calls); a cycle through a call chain would be recursion,
    # which the inlining exploration of R-C03-1 already reports as undecided
    fns = E.inl.reachable_fns(op)
    bad = False
    for fn in fns:
        g = tu.cfg(fn)
        cyc, opaque = find_cycle(g)
        if cyc is None:
            continue
        bad = True
        where = [b for b in cyc if g.blocks[b].cond]
        loc = tu.loc(tu.node(g.blocks[where[0]].cond)) if where else tu.fn_loc(fn)
        if any(b in opaque for b in cyc):
            ctx.undecided(R4, inst, 'the loop thread (%s) contains a cycle controlled by a condition that is not a flag test: '
                          'termination not decided' % fn['q'], loc)
            continue
        ctx.violation(R4, inst, 'after the destructor has cleared threadShouldBeAlive%s the loop thread can still cycle forever (blocks '
                      '%s of the CFG of %s never test a cleared flag on the way round): join() never returns / the task never ends'
                      % (' and shouldBeRunning' if RUN in fixed else '', sorted(cyc), fn['q'].split('::')[-1]), loc,
                      key='%s|%s|%s|loop-does-not-exit' % (R4, FILE, CLOSURE),
                      path=['%s: `%s`' % (tu.loc(tu.node(g.blocks[b].cond)), tu.show(tu.node(g.blocks[b].cond))) for b in where])
    if not bad:
        ctx.ok(R4, inst, 'with %s the loop thread (%d function(s)) reaches its end on every path' %
               (', '.join('%s == %s' % (k[1], str(v).lower()) for k, v in sorted(fixed.items())), len(fns)), tu.fn_loc(op))


def initial_flag_value(E, name):
    """value of the boolean-literal default member initialiser of AsyncLoopData::<name>, else None"""
    tu = E.tu
    val = None
    if E.packed is not None and (DATA, name) in E.sy.bitwords[(DATA, E.packed)].values():
        fd = tu.node(E.data_fields[E.packed]['id'])
        word = None
        for x in tu.walk(fd) if fd is not None else ():
            if 'id' in x and x.get('kind') != 'FieldDecl':
                word = E.sy.int_value(x)
                if word is not None:
                    break
        if word is None:
            return None
        bit = [b_ for b_, f_ in E.sy.bitwords[(DATA, E.packed)].items() if f_ == (DATA, name)][0]
        return bool(word & bit)
    for c in tu.fns(q=DATA + '::AsyncLoopData', dep=False):
        g = tu.cfg(c)
        if g is None or c.get('ctor') != 'default':
            continue
        prev = None
        for b, i, e in g.elements():
            if e[0] == 'I' and e[3] == name:
                fd = tu.node(e[2])
                lits = [x for x in tu.walk(fd) if x.get('kind') == 'CXXBoolLiteralExpr'] if fd is not None else []
                if not lits and prev is not None and prev[0] == 'S':
                    # no default member initialiser: the value comes from the constructor's own initialiser (the element before)
                    pn = tu.node(prev[1])
                    lits = [x for x in tu.walk(pn) if x.get('kind') == 'CXXBoolLiteralExpr'] if pn is not None else []
                    if not lits and pn is not None and pn.get('kind') == 'CXXConstructExpr' and not tu.kids(pn) and \
                            not c.get('implicit') and tu.body(c) is not None:
                        E.indeterminate_flags.add(name)     # atomic() of C++11..17 leaves the value indeterminate
                if len(lits) == 1:
                    val = bool(lits[0].get('value'))
            prev = e
    return val


def find_spins(E, f):
    """busy-wait loops in f and the helpers it calls: [(function, block, alternatives, escapes)].
    A spin is a cycle of the CFG whose header branches on a load of an atomic AsyncLoopData member; `alternatives` are the
    (member, value) pairs that let the thread leave the cycle; `escapes` is True when some edge leaves the cycle on a condition
    that is not such a flag test (the wait has another way out)."""
    tu, sy = E.tu, E.sy

    def loaded_field(e):
        a = sy.atomic_op(tu.strip(e, casts=True)) if e is not None else None
        if a is not None and a['op'] == 'load' and a['field'] is not None and a['field'][0] == DATA and \
                a['field'] not in sy.bitwords:
            return a['field']
        return None

    def flag_edge(b, si, fn=None):
        atom, truth = sy.edge_truth(b, si)
        fl = loaded_field(atom)
        if fl is not None:
            return fl, truth
        ft = E.flag_test(atom) if atom is not None else None
        if ft is not None:
            return ft[0], (truth if ft[1] else (not truth))
        # a local that only ever holds loads of one flag (`bool inside = flag; while (inside) { ...; inside = flag.load(); }`)
        var = sy.local_var(atom) if atom is not None else None
        d = tu.node(var) if var is not None else None
        if d is not None and d.get('kind') == 'VarDecl' and fn is not None and tu.body(fn) is not None:
            defs = [tu.kids(d)[-1]] if tu.kids(d) else []
            for x in tu.walk(tu.body(fn)):
                if x.get('kind') == 'BinaryOperator' and x.get('opcode') == '=' and sy.local_var(tu.kids(x)[0]) == var:
                    defs.append(tu.kids(x)[1])
                elif x.get('kind') in ('CompoundAssignOperator', 'UnaryOperator') and x.get('opcode') not in ('!', '-', '+', '*') \
                        and tu.kids(x) and sy.local_var(tu.kids(x)[0]) == var:
                    return None, None
            fls = {loaded_field(x) for x in defs}
            if len(fls) == 1 and None not in fls:
                return fls.pop(), truth
        return None, None

    out = []
    for fn in E.inl.reachable_fns(f):
        g = tu.cfg(fn)
        succ = {b.id: [t for t in b.succ if t is not None] for b in g.blocks.values()}

        def reach_from(start):
            seen, todo = {start}, [start]
            while todo:
                x = todo.pop()
                for t in succ[x]:
                    if t not in seen:
                        seen.add(t)
                        todo.append(t)
            return seen

        for b in g.blocks.values():
            if not b.cond or len(b.succ) != 2 or None in b.succ:
                continue
            fld, _t = flag_edge(b, 0, fn)
            if fld is None:
                continue
            stay = [si for si in (0, 1) if b.id in reach_from(b.succ[si])]
            if len(stay) != 1:
                continue            # not a loop header (0) or nested in an outer loop such that both sides come back (2)
            inside = {x for x in reach_from(b.succ[stay[0]]) if b.id in reach_from(x)} | {b.id}
            alts, escapes = set(), False
            for x in inside:
                blk = g.blocks[x]
                for si, t in enumerate(blk.succ):
                    if t is None or t in inside:
                        continue
                    fl, truth = flag_edge(blk, si, fn) if (blk.cond and len(blk.succ) == 2) else (None, None)
                    if fl is None:
                        escapes = True
                    else:
                        alts.add((fl, truth))
            out.append((fn, b, alts, escapes))
    return out


def check_acks(E, closures):
    """R-C03-5: every flag the destructor busy-waits on is given by the loop thread on each of its exit paths."""
    ctx, tu, sy = E.ctx, E.tu, E.sy
    # stop(): the spin on insideLoopBody is discharged by R-C03-1 / R-C03-2
    for fn, b, alts, escapes in find_spins(E, E.stop):
        E.count(R5)
        inst = 'busy-wait in %s [%s]' % (fn['q'].replace('rkcommon::tasking::', ''), tu.config)
        loc = tu.loc(tu.node(b.cond))
        if escapes or alts == {(INSIDE, False)}:
            ctx.ok(R5, inst, 'waits for insideLoopBody == false: the loop thread never sleeps with the flag set (R-C03-2)', loc)
        else:
            ctx.undecided(R5, inst, 'stop() busy-waits on %s: not modelled' % sorted('%s == %s' % (a[0][1], a[1]) for a in alts), loc)
    if E.stop_waits and not find_spins(E, E.stop):
        E.count(R5)
        ctx.ok(R5, 'wait of stop() for the body to end [%s]' % tu.config, 'stop() sleeps on a condition variable until '
               'insideLoopBody == false; that it is woken is R-C03-3 (every store that makes the predicate true is under the mutex '
               'and notified)', tu.loc(E.stop_waits[0]))
    for fn, b, alts, escapes in find_spins(E, E.dtor):
        E.count(R5)
        what = ' or '.join(sorted('%s == %s' % (a[0][1], str(a[1]).lower()) for a in alts))
        inst = 'busy-wait of the destructor on %s [%s]' % (what, tu.config)
        loc = tu.loc(tu.node(b.cond))
        if escapes:
            ctx.ok(R5, inst, 'the wait has another way out (an exit that does not depend on a flag)', loc)
            continue
        if fn['id'] == E.dtor['id'] and b.id in E.dtor_locked_blocks and (INSIDE, False) in alts and E.locks_published:
            # wait-for cycle: the destructor holds runningMutex and waits for the flag; the loop thread holds the flag and waits
            # for the mutex.  Each half is harmless alone (the loop thread of today retracts the flag before it locks).
            ln, lfn = E.locks_published[0]
            E.count(R5)
            ctx.violation(R5, inst, 'the destructor busy-waits for insideLoopBody == false while it holds runningMutex, and the '
                          'loop thread acquires runningMutex with insideLoopBody still published (%s): when the destructor takes '
                          'the mutex between the publication and that acquisition, the loop thread blocks on the mutex with the '
                          'flag set and the destructor spins forever - destroying the AsyncLoop does not terminate'
                          % (tu.loc(ln) if ln is not None else lfn), loc,
                          key='%s|%s|%s|spin-under-mutex-while-loop-locks-published' % (R5, FILE, 'AsyncLoop::~AsyncLoop'))
            continue
        fields = {a[0] for a in alts}
        # who writes these flags?
        loop_fns = set()
        for f, cl in closures:
            for lam, op in cl:
                loop_fns |= {x['id'] for x in E.inl.reachable_fns(op)}
        other = False
        for fn2 in tu.functions.values():
            if fn2['dep'] or tu.cfg(fn2) is None or tu.fn_file(fn2) != FILE or fn2['id'] in loop_fns:
                continue
            for _b, _i, n in tu.cfg(fn2).stmts():
                a = sy.atomic_op(n)
                if a is not None and a['op'] in ('store', 'rmw') and a['field'] in fields and (a['value'] is None or (a['field'], a['value']) in alts):
                    other = True
        if other:
            ctx.undecided(R5, inst, 'the awaited flag is also given by code outside the loop thread: not modelled', loc)
            continue
        for f, cl in closures:
            for lam, op in cl:
                found = Found(E.inl)
                init = frozenset((fl, initial_flag_value(E, fl[1])) for fl in fields)

                def transfer(blk, i, e, st):
                    if e[0] == 'AD' and ('AsyncLoop' in (e[3] or '') or (e[3] or '').startswith('rkcommon::')):
                        found.und(R5, 'a local object of the class type %s is destroyed in the loop thread: its destructor is not '
                                  'followed' % e[3], None)
                    ev = sy.event(e)
                    if ev is not None and ev[0] == 'store' and ev[1] in fields:
                        return [frozenset({p for p in st if p[0] != ev[1]} | {(ev[1], ev[2])})]
                    if ev is not None and ev[0] == 'rmw' and ev[1] in fields:
                        found.und(R5, 'read-modify-write on the awaited flag %s: not modelled' % ev[1][1], ev[3])
                    return [st]

                res, outs = E.inl.explore(op, [init], transfer, None, C03Hooks(E, found, R5))
                for (st, _rv, via) in outs:
                    vals = dict(st)
                    if any(vals.get(fl) == v for (fl, v) in alts):
                        continue
                    if any(vals.get(fl) is None for (fl, _v) in alts):
                        found.und(R5, 'value of the awaited flag at an exit of the loop thread is not a constant', None)
                        continue
                    ents = [k for k in res.pred if k[0] == via]
                    rets = [n for (bb, ii, n) in tu.cfg(op).stmts() if bb.id == via and n.get('kind') == 'ReturnStmt']
                    found.viol(R5, CLOSURE, 'exit-without-' + '-'.join(sorted(fl[1] for fl in fields)),
                               'the destructor busy-waits until %s, but the loop thread can leave through this exit with %s: the '
                               'acknowledgement is never given and the destructor never returns'
                               % (what, ', '.join('%s == %s' % (fl[1], str(v).lower()) for fl, v in sorted(vals.items()))),
                               rets[0] if rets else None, ents[0] if ents else None)
                inst2 = '%s; exits of the loop closure of %s' % (inst, f['fty'])
                emit(ctx, tu, tu.cfg(op), res, found, inst2, (R5,), loc,
                     {R5: 'every exit of the loop thread leaves the awaited flag set as awaited'})


def static_rooted(E, e, depth=0):
    """does the expression designate (a part of) an object with static storage duration?  True / False (per-instance: part of
    *this, freshly allocated) / None (not known)"""
    tu = E.tu
    e = tu.strip(e, casts=True) if e is not None else None
    if e is None or depth > 8:
        return None
    k = e.get('kind')
    if k in ('InitListExpr', 'CXXDefaultInitExpr', 'ExprWithCleanups') and tu.kids(e):
        return static_rooted(E, tu.kids(e)[0], depth + 1)
    if k == 'MemberExpr':
        if 'fi' not in tu.sd(e):
            return None
        return static_rooted(E, tu.kids(e)[0], depth + 1) if tu.kids(e) else False      # implicit this
    if k == 'UnaryOperator' and e.get('opcode') in ('*', '&'):
        return static_rooted(E, tu.kids(e)[0], depth + 1)
    if k == 'CXXThisExpr' or k == 'CXXNewExpr':
        return False
    if k == 'DeclRefExpr':
        rd = e.get('referencedDecl', {})
        if rd.get('kind') != 'VarDecl':
            return None
        d = tu.node(rd.get('id'))
        if d is None:
            return None
        if d.get('storageClass') == 'static':
            return True
        par = tu.par(d)
        if par is not None and par.get('kind') in ('NamespaceDecl', 'TranslationUnitDecl'):
            return True
        if par is not None and par.get('kind') == 'CXXRecordDecl':
            return True             # static data member
        return None
    if k in ('CallExpr', 'CXXMemberCallExpr', 'CXXOperatorCallExpr'):
        cf = tu.callee_fn(e)
        body = tu.body(cf) if cf is not None else None
        if body is None:
            return None
        rets = [x for x in tu.walk(body) if x.get('kind') == 'ReturnStmt' and tu.kids(x)]
        vals = {static_rooted(E, tu.kids(x)[0], depth + 1) for x in rets}
        if vals == {True}:
            return True
        if vals == {False}:
            return False
        return None
    return None


def check_sync_ownership(E):
    """R-C03-3: the condition variable a loop thread sleeps on belongs to its own instance - or, when it is shared between
    instances (static storage), every notification is a notify_all (checked at the notifications)."""
    ctx, tu = E.ctx, E.tu
    E.count(R3)
    inst = 'AsyncLoopData::%s ownership [%s]' % (CV[1], tu.config)
    E.cv_shared = False
    if CV[1] not in E.indirect:
        ctx.ok(R3, inst, 'the condition variable is a by-value member of the per-instance state', FILE)
        return
    fd = tu.node(E.data_fields[CV[1]]['id'])
    inits = [x for x in tu.kids(fd)] if fd is not None else []
    v = static_rooted(E, inits[-1]) if inits else None
    if v is None:
        # initialised in a constructor's initialiser list?
        for c in tu.fns(q=DATA + '::AsyncLoopData', dep=False):
            g = tu.cfg(c)
            for b, i, e in (g.elements() if g is not None else ()):
                if e[0] == 'I' and e[3] == CV[1] and e[4]:
                    v = static_rooted(E, tu.node(e[1]))
    E.cv_shared = v
    if v is True:
        ctx.ok(R3, inst, 'the condition variable (%s) is shared by all instances: every notification has to be notify_all '
               '(checked where the notifications are made)' % E.indirect[CV[1]], FILE, nontrivial=True)
    elif v is False:
        ctx.ok(R3, inst, 'the condition variable is reached through %s, bound to per-instance storage' % E.indirect[CV[1]], FILE)
    else:
        ctx.undecided(R3, inst, 'the condition variable is reached through a %s whose target is not recognised as per-instance or '
                      'static storage' % E.indirect[CV[1]], FILE)


def check_shared_words(E, closures):
    """R-C03-6: a shared atomic word that more than one thread writes is only updated by stores of fresh values or by atomic
    read-modify-writes; a store of a value computed from an earlier load of the same word (load-modify-store) overwrites
    what the other thread wrote in between.  Words = every atomic member of AsyncLoopData (a std::atomic<bool> flag, or the
    integer word holding the flags as bits)."""
    ctx, tu, sy = E.ctx, E.tu, E.sy
    E.count(R6)
    loop_fns, ctl_fns = {}, {}
    for f, cl in closures:
        for lam, op in cl:
            for x in E.inl.reachable_fns(op):
                loop_fns[x['id']] = x
    for top in (E.start, E.stop, E.dtor):
        for x in E.inl.reachable_fns(top):
            ctl_fns[x['id']] = x
    writers = {}        # word -> {'loop': bool, 'ctl': bool}
    lms = []            # (word, function, node)
    for side, fns in (('loop', loop_fns), ('ctl', ctl_fns)):
        for fn in fns.values():
            for _b, _i, n in tu.cfg(fn).stmts():
                a = sy.atomic_op(n)
                if a is None or a['field'] is None or a['field'][0] != DATA or a['op'] not in ('store', 'rmw'):
                    continue
                word = a['field']
                writers.setdefault(word, set()).add(side)
                if a['op'] == 'store':
                    _s, _obj, args = tu.call_parts(n)
                    val = args[0] if args else None
                    if val is not None and any(sy.atomic_op(x) is not None and sy.atomic_op(x)['op'] == 'load' and
                                               sy.atomic_op(x)['field'] == word for x in tu.walk(val) if 'id' in x):
                        lms.append((word, fn, n))
    bad = False
    for word, fn, n in lms:
        if writers.get(word) != {'loop', 'ctl'}:
            continue
        bad = True
        fname = fn['q'].replace('rkcommon::tasking::AsyncLoop::', '')
        ctx.violation(R6, '%s in %s [%s]' % (word[1], fname, tu.config),
                      'the word `%s` is written both by the loop thread and by the controlling thread, and here it is updated by a '
                      'load followed by a separate store of a value computed from it (load-modify-store, not fetch_or / fetch_and / '
                      'exchange / compare_exchange): a write of the other thread that falls between the load and the store is '
                      'overwritten with its stale value - e.g. stop() clears the running flag, the loop thread stores the word it '
                      'loaded before (running still set) and the body keeps running after stop() returned' % word[1],
                      tu.loc(n), key='%s|%s|%s|load-modify-store-%s' % (R6, FILE, fname, word[1]),
                      path=['%s: %s' % (tu.loc(n), tu.show(n))])
    if not bad:
        shared = sorted(w[1] for w, sides in writers.items() if sides == {'loop', 'ctl'})
        ctx.ok(R6, 'atomic words of AsyncLoopData [%s]' % tu.config,
               'words written by both threads: %s; none is updated by a load-modify-store (%d written word(s) scanned)'
               % (shared or 'none', len(writers)), FILE)


def check_schedule_backend(E):
    """R-C03-4 (TASK launch): the closure AsyncLoop hands to tasking::schedule does not return while the loop lives (it runs the
    body or parks).  The back end must therefore not funnel all scheduled closures through an execution resource of fixed small
    capacity: a tbb::task_arena with static storage duration and an explicit constant max_concurrency is the recognised-wrong
    form (with capacity c, the (c+1)-th TASK loop never runs: start() is never honoured)."""
    ctx, tu, sy = E.ctx, E.tu, E.sy
    impls = [f for f in tu.functions.values() if not f['dep'] and tu.cfg(f) is not None and
             f['q'].startswith('rkcommon::tasking::detail::schedule_impl')]
    if not impls:
        return
    inl = Inliner(tu, lambda cf: tu.fn_file(cf).startswith('rkcommon/tasking/'))

    def static_var(e, depth=0):
        e = tu.strip(e, casts=True) if e is not None else None
        if e is None or depth > 6:
            return None
        k = e.get('kind')
        if k == 'DeclRefExpr':
            d = tu.node(e.get('referencedDecl', {}).get('id'))
            if d is not None and d.get('kind') == 'VarDecl':
                par = tu.par(d)
                if d.get('storageClass') == 'static' or (par is not None and par.get('kind') in ('NamespaceDecl', 'TranslationUnitDecl')):
                    return d
            return None
        if k == 'MemberExpr' and tu.kids(e):
            return static_var(tu.kids(e)[0], depth + 1)
        if k in CALLS:
            cf = tu.callee_fn(e)
            body = tu.body(cf) if cf is not None else None
            rets = [x for x in tu.walk(body) if x.get('kind') == 'ReturnStmt' and tu.kids(x)] if body is not None else []
            vs = [static_var(tu.kids(x)[0], depth + 1) for x in rets]
            return vs[0] if vs and all(v is not None for v in vs) else None
        return None

    seen = set()
    for f in impls:
        for fn in inl.reachable_fns(f):
            for _b, _i, n in tu.cfg(fn).stmts():
                if n.get('kind') != 'CXXMemberCallExpr' or not (tu.sd(n).get('q') or '').endswith('task_arena::enqueue') or n['id'] in seen:
                    continue
                seen.add(n['id'])
                E.count(R4)
                _s, obj, _a = tu.call_parts(n)
                d = static_var(obj) if obj is not None else None
                inst = 'tasking::schedule back end: %s [%s]' % (tu.show(n)[:60], tu.config)
                cap = None
                if d is not None and tu.kids(d):
                    ce = tu.strip(tu.kids(d)[-1])
                    args = [a for a in tu.kids(ce) if (tu.strip(a) or {}).get('kind') != 'CXXDefaultArgExpr'] if ce is not None else []
                    if ce is not None and ce.get('kind') in ('CXXConstructExpr', 'CXXTemporaryObjectExpr') and args:
                        try:
                            cap = int(tu.sd(tu.strip(args[0], casts=True)).get('cv'))
                        except (TypeError, ValueError):
                            cap = None
                if d is not None and cap is not None and cap > 0:
                    ctx.violation(R4, inst, 'every scheduled closure is enqueued into the one arena `%s`, which has static storage duration '
                                  'and max_concurrency %d. The closure AsyncLoop schedules does not return while its loop lives (it runs '
                                  'the body or parks), so it occupies a slot for good: with more than %d TASK-launched loops alive the '
                                  'later ones are never run - their start() is never honoured' % (d.get('name'), cap, cap), tu.loc(n),
                                  key='%s|%s|schedule_impl|shared-arena-of-fixed-capacity' % (R4, tu.fn_file(fn)),
                                  path=['%s: %s' % (tu.loc(n), tu.show(n))])
                else:
                    ctx.ok(R4, inst, 'enqueued into %s' % ('the caller\'s / a per-call arena' if d is None else
                                                          'a shared arena without a fixed small capacity'), tu.loc(n))


def check_initial(E):
    """R-C03-3: threadShouldBeAlive starts true (otherwise the loop thread exits at once and start() never resumes anything)"""
    ctx, tu, sy = E.ctx, E.tu, E.sy
    E.count(R3)
    inst = 'AsyncLoopData::threadShouldBeAlive initial value [%s]' % tu.config
    val = initial_flag_value(E, ALIVE[1])
    if val is None:
        ctx.undecided(R3, inst, 'initial value of threadShouldBeAlive not found as a boolean literal initialiser', FILE)
    elif val:
        ctx.ok(R3, inst, 'default member initialiser is true', FILE)
    else:
        ctx.violation(R3, inst, 'threadShouldBeAlive is initialised to false: the loop thread leaves its loop immediately and start() '
                      'never runs the body', FILE, key='%s|%s|AsyncLoopData|alive-initially-false' % (R3, FILE))
    # the other two flags: a value the constructor does not give is indeterminate (a user-provided constructor also switches off the
    # zero-initialisation that make_shared<AsyncLoopData>() performs for an implicit one)
    for fl in (RUN, INSIDE):
        if E.packed is not None:
            break
        E.count(R3)
        inst = 'AsyncLoopData::%s initial value [%s]' % (fl[1], tu.config)
        v = initial_flag_value(E, fl[1])
        if fl[1] in E.indeterminate_flags:
            ctx.violation(R3, inst, '%s has no default member initialiser and the user-provided constructor of AsyncLoopData does '
                          'not initialise it: a default-constructed std::atomic<bool> holds an indeterminate value, so a loop that '
                          'was never started can find %s set - the body runs before start() / stop() waits for a body that is not '
                          'running' % (fl[1], fl[1]), FILE, key='%s|%s|AsyncLoopData|%s-indeterminate' % (R3, FILE, fl[1]))
        elif v is False:
            ctx.ok(R3, inst, 'initialised to false', FILE)
        elif v is True and fl == RUN:
            ctx.ok(R3, inst, 'initialised to true (a new loop runs at once; whether that is intended is not this rule)', FILE)
        else:
            ctx.undecided(R3, inst, 'initial value of %s not found as a boolean literal initialiser' % fl[1], FILE)


# ======================================================================================================
def check_tu(ctx, tu):
    E = Env(ctx, tu)
    if not find_anchors(E):
        return
    per_ctor = []
    for f in E.ctors:
        cl = loop_closures(E, f)
        if len(cl) != 1:
            ctx.broken('C03: expected exactly one closure calling the user body in %s (%s), found %d'
                       % (f['q'], tu.fn_loc(f), len(cl)))
            continue
        launched = {lam['id'] for lam, _op, _fn in launched_lambdas(E, E.inl.reachable_fns(f))}
        if launched != {lam['id'] for lam, _op in cl}:
            ctx.undecided(R1, '%s %s [%s]' % (f['q'].replace('rkcommon::tasking::', ''), f['fty'], tu.config),
                          'the closure handed to std::thread / tasking::schedule is not the one that calls the user body directly '
                          '(nested closure or helper): not modelled', tu.fn_loc(f))
            continue
        per_ctor.append((f, cl))
    if getattr(E, 'provisional', None):
        if not per_ctor or not infer_packed_roles(E, per_ctor):
            ctx.broken('C03: the flags are bits of %s::%s, but which bit is insideLoopBody / shouldBeRunning / threadShouldBeAlive '
                       'cannot be inferred from who sets and clears them' % (DATA, E.packed))
            return E
        ctx.note('packed flags [%s]: %s' % (tu.config, ', '.join('%s = %s' % (k[1], v) for k, v in sorted(E.role_names.items()))))
    check_sync_ownership(E)
    # 1. loop closures first: they define the predicate-enabling stores
    for f, cl in per_ctor:
        for lam, op in cl:
            check_loop_closure(E, f, lam, op)
    check_stop(E)
    if E.park_flags:
        loop_ids = set()
        for f, cl in per_ctor:
            for lam, op in cl:
                loop_ids |= {x['id'] for x in E.inl.reachable_fns(op)}
        for fn2 in tu.functions.values():
            if fn2['dep'] or tu.cfg(fn2) is None or tu.fn_file(fn2) != FILE or fn2['id'] in loop_ids:
                continue
            for _b, _i, n in tu.cfg(fn2).stmts():
                a = E.sy.atomic_op(n)
                if a is not None and a['op'] in ('store', 'rmw') and a['field'] in E.park_flags:
                    E.park_flags = E.park_flags - {a['field']}     # also written by the controller: says nothing about the waiter
    # 2. predicate-enabling stores, everywhere
    n = 0
    n += check_signals(E, E.start, 'AsyncLoop::start', 'AsyncLoop::start')
    n += check_signals(E, E.dtor, 'AsyncLoop::~AsyncLoop', 'AsyncLoop::~AsyncLoop')
    n += check_signals(E, E.stop, 'AsyncLoop::stop', 'AsyncLoop::stop')
    for f, cl in per_ctor:
        n += check_signals(E, f, 'AsyncLoop::AsyncLoop', 'AsyncLoop::AsyncLoop')
        for lam, op in cl:
            n += check_signals(E, op, 'loop closure', CLOSURE)
    for f, cl in per_ctor:
        check_ctor(E, f, cl)        # also finds a deferred launcher, which start() is then expected to use
    check_start(E)
    check_initial(E)
    check_dtor(E)
    for f, cl in per_ctor:
        for lam, op in cl:
            check_loop_exit(E, f, lam, op)
    check_acks(E, per_ctor)
    check_schedule_backend(E)
    check_shared_words(E, per_ctor)
    if per_ctor and E.launch_kinds != {'thread', 'task'}:
        ctx.broken('R-C03-4: expected both launch methods (std::thread member and tasking::schedule) in the constructor, found %s'
                   % sorted(E.launch_kinds))
    return E


def run(ctx):
    ctx.describe(R1, 'handshake: loop stores insideLoopBody=true then loads shouldBeRunning==true before calling the body; stop() '
                     'stores shouldBeRunning=false then loads insideLoopBody==false before returning; all seq_cst')
    ctx.describe(R2, 'the loop thread never blocks in wait() while insideLoopBody is published')
    ctx.describe(R3, 'predicate wait on a unique_lock of runningMutex; the predicate is implied by shouldBeRunning and by '
                     '!threadShouldBeAlive; predicate-enabling stores are under that mutex and notified; start() leaves with the '
                     'flag set; threadShouldBeAlive starts true')
    ctx.describe(R4, 'destructor clears threadShouldBeAlive, notifies, joins iff joinable; the loop closure then reaches its end; '
                     'constructor launches the closure once and never detaches; the closure owns its state (no this, no references)')
    ctx.describe(R5, 'acknowledgement flags: every flag value the destructor busy-waits for is stored by the loop thread on each of '
                     'its exit paths (or the wait has another way out); stop()\'s wait on insideLoopBody is covered by R-C03-2')
    ctx.describe(R6, 'an atomic word of the shared state that both the loop thread and the controlling thread write is updated only '
                     'by stores of fresh values or atomic read-modify-writes, never by a load followed by a store of a derived value')
    ctx.assume('start(), stop() and the destructor are called from one controlling thread at a time (the class documents no '
               'concurrent control)')
    ctx.assume('every AsyncLoopData member access inside AsyncLoop and its closures designates the one shared state object created '
               'in the constructor')
    ctx.assume('tasking::schedule eventually runs the closure on another thread (decided by C02, not here)')
    jobs = [dict(unit='drivers/c03_asyncloop.cpp', config='TBB')]
    if ctx.tier == 'thorough':
        jobs += [dict(unit='drivers/c03_asyncloop.cpp', config=c) for c in ('INTERNAL', 'OMP', 'DEBUG')]
        jobs += [dict(unit='drivers/c03_asyncloop.cpp', config='TBB', std='gnu++17')]
    tus = ctx.front.parse_many(jobs)
    totals = {R1: 0, R2: 0, R3: 0, R4: 0, R5: 0, R6: 0}
    for tu in tus:
        E = check_tu(ctx, tu)
        if E is not None:
            for r, c in E.counts.items():
                totals[r] += c
    k = len(tus)
    ctx.floor(R1, totals[R1], 3 * k, 'per configuration: 2 loop-closure instantiations + stop() (+ 2 constructors: no body call)')
    ctx.floor(R2, totals[R2], 2 * k, 'per configuration: one wait site in each of the 2 loop-closure instantiations')
    ctx.floor(R3, totals[R3], 9 * k, 'per configuration: 2 wait sites x (lock, predicate) + enabling stores in start() and the '
                                     'destructor + start() sets the flag + initial value of threadShouldBeAlive + ownership of the condition variable')
    ctx.floor(R4, totals[R4], 7 * k, 'per configuration: destructor + 2 x (constructor launch, closure capture list, closure '
                                     'termination)')
    ctx.floor(R5, totals[R5], k, 'per configuration: the busy-wait of stop() on insideLoopBody (found through its helpers)')
    ctx.floor(R6, totals[R6], k, 'per configuration: the scan of the atomic members of AsyncLoopData')
    from rkstatic import selftest
    selftest.run(ctx)
