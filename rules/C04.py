"""C04 - every vec_t operator is the component-wise lifting of its scalar definition.

Decided statically on rkcommon/math/vec.h (see DESIGN.md section 5, C04).  Every function of vec.h is put into a
family by its *name and signature*; the family fixes what the body must be.  The rules run on the template
patterns (dependent AST: one verdict for all element types, by parametricity - vec_t<T> requires arithmetic T,
whose operators cannot be overloaded) and again on the typed instantiations of drivers/c04_vec.cpp, where
callees are resolved by the real overload resolution.

  R-C04-1  uniformity: the N result components are one expression up to the component letter, slot k reads .k
  R-C04-2  operator table: that expression is the operation the function's name denotes, operands in order
  R-C04-3  folds / derived functions: sum, product, reduce_*, dot, ==, !=, anyLessThan, std::less, cross,
           length, normalize, safe_normalize, interpolate_uv, arg_max
  R-C04-4  mixed element types: convert both operands to the common vector type, apply the same-type operator
  R-C04-5  layout and views: constructors, converting constructors/operators, operator[], pointer view,
           stream output, field order/offsets (records + static_assert witnesses)
  R-C04-6  IR cross-check: identity drivers (drivers/c04_alg_vec.cpp) compiled to LLVM IR; the value graph of
           each operation through the API equals the per-component scalar definition (rkstatic.irnorm)
"""
import collections
import re

from rkstatic.x_vecexpr import (straightline, COMPS, FnView, Formula, Inliner, Poly, calls_in, commute, ctor_fields, fold_consts, map_terms, select_to_minmax, subst_params, unroll, flatten, poly, show, strip_casts, subst,
                                tclean, tkey, tparse, unknowns, vecshape)

LEVEL = 'other'
EXPLANATION = (
    "Every function defined in rkcommon/math/vec.h is classified by name and signature into a family (lifted "
    "operator/functor, compound assignment, mixed-element-type overload, fold, comparison, constructor, view, "
    "stream) and its body - normalised from clang's AST to a term with locals inlined - is compared with the "
    "term the family prescribes: per-component uniformity and the operator table on the dependent template "
    "pattern (all element types at once), comparison folds and std::less by canonical truth table over the "
    "per-component order relation, cross/interpolate by exact polynomial normal form, and the same rules again "
    "on typed instantiations (int, unsigned, long, float, double x shapes 2/3/3a/4) with resolved callees; "
    "layout by clang's record layout and static_assert witnesses for 10 element types x 4 shapes; and a second, "
    "independent decision on LLVM IR: 422 identity drivers (int, long, float, double x 4 shapes) whose value graph "
    "through the API must equal the written-out per-component definition. "
    "Not decided: floating-point rounding of sums/products (any association order is accepted), NaN operands, "
    "signed overflow, the scalar functions themselves (rcp, rsqrt, madd, divRoundUp: C07).")

VEC_H = 'rkcommon/math/vec.h'
R1, R2, R3, R4, R5 = 'R-C04-1', 'R-C04-2', 'R-C04-3', 'R-C04-4', 'R-C04-5'

BINOPS = {'operator+': '+', 'operator-': '-', 'operator*': '*', 'operator/': '/', 'operator%': '%'}
COMPOUND = {'operator+=': '+=', 'operator-=': '-=', 'operator*=': '*=', 'operator/=': '/=', 'operator%=': '%='}
LIFTED_CALLS = {'rcp': 1, 'rcp_safe': 1, 'abs': 1, 'sin': 1, 'cos': 1, 'min': 2, 'max': 2, 'divRoundUp': 2, 'madd': 3}
# scalar callees a lifted functor may resolve to in a typed instantiation
SCALAR_HOMES = ('std::', 'rkcommon::math::', '')
NOT_VEC_OPERATORS = {'linear_to_srgba', 'cvt_uint32', 'linear_to_srgba8'}


# ============================================================================================
#  signatures
# ============================================================================================
class Sig:
    pass


def _match_angle(s, start):
    depth = 0
    for i in range(start, len(s)):
        if s[i] == '<':
            depth += 1
        elif s[i] == '>':
            depth -= 1
            if depth == 0:
                return i
    return -1


def member_shape(q):
    """shape of the vec_t / std::less<vec_t> specialisation a member belongs to, from its qualified name"""
    i = q.find('vec_t<')
    if i < 0:
        return None
    j = _match_angle(q, i + 5)
    if j < 0:
        return None
    return vecshape(q[i:j + 1])


def ret_type(fty):
    if ' -> ' in fty and fty.startswith('auto'):
        return fty.split(' -> ', 1)[1].strip()
    depth = 0
    for i, ch in enumerate(fty):
        if ch in '<[':
            depth += 1
        elif ch in '>]':
            depth -= 1
        elif ch == '(' and depth == 0:
            return fty[:i].strip()
    return fty


def signature(tu, f):
    s = Sig()
    d = tu.node(f['id']) or {}
    s.name = d.get('name') or f['q'].split('::')[-1]
    s.kind = d.get('kind', '')
    s.rec = f.get('rec')
    s.shape = None
    if s.rec in ('rkcommon::math::vec_t', 'std::less'):
        s.shape = vecshape(f['rect']) if f.get('rect') and 'vec_t' in f['rect'] and s.rec.endswith('vec_t') else member_shape(f['q'])
    s.params = []
    for p in f['params']:
        ct = p['ct']
        sh = vecshape(ct)
        c = tclean(ct)
        if sh:
            s.params.append({'k': 'vec', 'sh': sh, 'ct': ct})
        elif c.endswith('*'):
            s.params.append({'k': 'ptr', 'ct': ct})
        elif 'basic_ostream' in c:
            s.params.append({'k': 'ostream', 'ct': ct})
        else:
            s.params.append({'k': 'scalar', 'ct': ct, 't': c})
    s.ret = ret_type(f['fty'])
    s.retshape = vecshape(s.ret)
    s.names = [p['name'] or 'arg%d' % i for i, p in enumerate(f['params'])]
    # element / scalar type of each parameter under both spellings (canonical and as written in the declaration)
    written = [(c.get('type') or {}).get('qualType') for c in d.get('inner', ()) if c.get('kind') == 'ParmVarDecl']
    s.ptypes = []
    for i, p in enumerate(s.params):
        names = set()
        for ct in (p['ct'], written[i] if i < len(written) else None):
            if not ct:
                continue
            sh = vecshape(ct)
            names.add(tkey(sh['elem']) if sh else tkey(ct))
        s.ptypes.append(names)
    return s


def form(p, align=True):
    if p['k'] == 'vec':
        a = p['sh']['a']
        suf = ('a' if a is True else '' if a is False else '[%s]' % a) if align else ''
        return 'vec%s%s' % (p['sh']['n'], suf)
    return p['k']


def keysig(tu, f, s):
    if s.rec:
        sh = s.shape or {}
        rn = 'less<vec%s%s>' if s.rec == 'std::less' else 'vec%s%s'
        rn = rn % (sh.get('n', '?'), 'a' if sh.get('a') is True else '')
        nm = s.name.split('<')[0] if s.kind == 'CXXConstructorDecl' else s.name
        if s.kind == 'CXXConversionDecl':
            nm = 'operator ' + ('vec' if s.retshape else 'pointer' if s.ret.endswith('*') else 'other') + (' const' if f.get('const') else '')
        elif s.name == 'operator[]':
            nm = 'operator[]' + (' const' if f.get('const') else '')
        return '%s::%s(%s)' % (rn, nm, ','.join(form(p, False) for p in s.params))
    return '%s(%s)' % (s.name, ','.join(form(p) for p in s.params))


# ============================================================================================
#  term helpers
# ============================================================================================
def tdiff(a, b, out):
    """smallest differing sub-terms of two terms, classified: comp / param / op / order / other"""
    if a == b:
        return
    ta, tb = isinstance(a, tuple), isinstance(b, tuple)
    if ta and tb and a and b and isinstance(a[0], str) and isinstance(b[0], str):
        if a[0] == b[0] and len(a) == len(b):
            k = a[0]
            if k in ('b', 'asg') and a[1] == b[1] and a[2] == b[3] and a[3] == b[2]:
                out.append(('order', a, b)); return
            if k == 'm' and a[1] == b[1]:
                out.append(('comp', a, b)); return
            if k == 'p':
                out.append(('param', a, b)); return
            if k == 'idx' and a[1] == b[1] and a[2][0] == 'lit' and b[2][0] == 'lit':
                out.append(('index', a, b)); return
            if k in ('b', 'u', 'asg', 'call') and a[1] != b[1]:
                out.append(('op', a[1], b[1]))
                for x, y in zip(a[2:], b[2:]):
                    tdiff(x, y, out)
                return
            if k in ('lit', 'g', 'str', 'tp', 'v', '?'):
                out.append(('other', a, b)); return
            if k == 'ctor' and a[1] != b[1]:
                out.append(('other', a, b)); return
            for x, y in zip(a[1:], b[1:]):
                if isinstance(x, tuple) or isinstance(y, tuple):
                    tdiff(x, y, out)
                elif x != y:
                    out.append(('other', a, b))
            return
        out.append(('other', a, b)); return
    if ta and tb and len(a) == len(b):
        for x, y in zip(a, b):
            tdiff(x, y, out)
        return
    out.append(('other', a, b))


def describe_diffs(ds, names):
    out = []
    for d in ds:
        if d[0] == 'comp':
            out.append('reads `%s` where `%s` is required' % (show(d[1], names), show(d[2], names)))
        elif d[0] == 'index':
            out.append('reads element `%s` where `%s` is required' % (show(d[1], names), show(d[2], names)))
        elif d[0] == 'param':
            out.append('uses operand `%s` where `%s` is required' % (show(d[1], names), show(d[2], names)))
        elif d[0] == 'op':
            out.append('applies `%s` where `%s` is required' % (d[1], d[2]))
        elif d[0] == 'order':
            out.append('operands in the wrong order: `%s` instead of `%s`' % (show(d[1], names), show(d[2], names)))
        else:
            out.append('`%s` instead of `%s`' % (show(d[1], names), show(d[2], names)))
    return '; '.join(out)


def canon(t):
    return commute(strip_casts(t), ops=('+', '*', '==', '!=', '&&', '||'), calls=())


def compare(actual, expected, names):
    """None if equal (modulo commutativity / scalar casts); else (decidable?, description, kinds)"""
    a, e = canon(actual), canon(expected)
    if a == e:
        return None
    ds = []
    tdiff(a, e, ds)
    kinds = {d[0] for d in ds}
    return (not (kinds & {'other'}) and not unknowns(a), describe_diffs(ds, names), '+'.join(sorted(kinds)))


class Res:
    """collector of per-function results"""

    def __init__(self):
        self.items = []

    def ok(self, rule, detail):
        self.items.append(('ok', rule, detail, None))

    def bad(self, rule, why, kd):
        self.items.append(('violation', rule, why, kd))

    def und(self, rule, why):
        self.items.append(('undecided', rule, why, None))


def single_return(v):
    b = v.body()
    if len(b) == 1 and b[0][0] == 'ret' and b[0][1] is not None:
        return b[0][1]
    if len(b) > 1 and b[-1][0] == 'ret' and all(st[0] in ('decl', 'expr') for st in b[:-1]):
        # a result built up in a local (`V r(e0); r += e1; ...; return r;`): the returned value by forward substitution.
        # `r op= e` is read as `r = r op e`, which is what R-C04-2 establishes for the compound operators of vec_t.
        t = straightline(b, getattr(v, 'fields_of', None), v.byref)
        if t is not None:
            return t
    if len(b) > 1 and b[-1][0] == 'ret' and any(st[0] in ('for', 'expr') for st in b[:-1]):
        return componentwise(v)
    return None


def componentwise(v):
    """the value returned by a body that fills a local vec_t component by component - a constant-trip loop over `r[i] = e(i)`, or
    `std::transform(p, p + N, q, f)` over the pointer views of an operand and of the local - as `V(e_x, e_y, ...)`; None if the
    body is not of that kind.  v[k] and ((T *)v)[k], k < N, denote component k (operator[] and the pointer view are the subject of
    R-C04-5 index-base / pointer-base, the contiguity of the fields of the layout witness)."""
    from fractions import Fraction
    f = v.f

    def shape_of(base):
        if base[0] == 'p' and base[1] < len(f['params']):
            return vecshape(f['params'][base[1]]['ct'])
        if base[0] == 'v':
            return vecshape(types.get(base[1]) or '')
        return None
    types = {}
    body = []
    for st in v.body():
        if st[0] == 'decl' and st[2] is not None and st[2][0] == 'ctor' and not st[2][2] and vecshape(st[2][1] or ''):
            st = ('decl', st[1], st[2], st[2][1])          # the type as resolved, not the local alias it was written with
        if st[0] == 'decl' and len(st) > 3:
            types[st[1]] = st[3]
        body.append(st)

    def view(x):
        while x[0] == 'ctor' and (x[1] or '').endswith('*') and len(x[2]) == 1:
            x = x[2][0]
        return x
    out = []
    for st in body:
        c = st[1] if st[0] == 'expr' else None
        if c is not None and c[0] == 'call' and c[1] == 'transform' and len(c[2]) == 4 and c[2][3][0] == 'lambda' and c[2][3][1] == 1:
            first, last, dst, fn = c[2]
            last = fold_consts(last)
            if not (last[0] == 'b' and last[1] == '+' and last[2] == first and last[3][0] == 'lit' and last[3][1].denominator == 1):
                return None
            src, dstv = view(first), view(dst)
            shs, shd = shape_of(src), shape_of(dstv)
            cnt = int(last[3][1])
            if src == first or dstv == dst or shs is None or shd is None or shs['n'] != cnt or shd['n'] != cnt:
                return None         # the range is exactly the N components of the source, the destination has N components too
            for k in range(cnt):
                arg = ('idx', src, ('lit', Fraction(k)))
                val = map_terms(fn[2], lambda y, a=arg: a if y == ('lp', 0) else y)
                out.append(('expr', ('asg', '=', ('idx', dstv, ('lit', Fraction(k))), val)))
            continue
        out.append(st)
    out = unroll(out)
    if any(st[0] not in ('decl', 'expr', 'ret') for st in out):
        return None

    def comp(x):
        if x[0] == 'idx' and x[2][0] == 'lit' and x[2][1].denominator == 1:
            base = x[1]
            sh = shape_of(base) if base[0] in ('p', 'v') else None
            if sh is not None and isinstance(sh['n'], int) and 0 <= int(x[2][1]) < sh['n']:
                return ('m', base, COMPS[int(x[2][1])])
        return x
    out = [map_terms(st, comp) for st in out]

    def fields_of(ty):
        sh = vecshape(ty or '')
        return tuple(COMPS[:sh['n']]) if (sh is not None and isinstance(sh['n'], int)) else None
    t = straightline(out, fields_of, v.byref)
    if t is None or t[0] != 'ctor' or fields_of(t[1]) is None or len(t[2]) != len(fields_of(t[1])):
        return None
    if any(x[0] == 'm' and x[1][0] == 'ctor' and not x[1][2] for x in t[2]):
        return None                 # a component that was never assigned
    return t


def vec_operands(s, with_this=False):
    ops = {('p', i) for i, p in enumerate(s.params) if p['k'] == 'vec'}
    if with_this:
        ops.add(('this',))
    return ops


def abstract(t, comp, vops):
    """replace `.comp` on vec operands by `.#`"""
    def f(x):
        if x[0] == 'm' and x[1] in vops and x[2] == comp:
            return ('m', x[1], '#')
        return None
    return subst(t, f)


def operand(s, i, comp='#'):
    return ('m', ('p', i), comp) if s.params[i]['k'] == 'vec' else ('p', i)


# ============================================================================================
#  families
# ============================================================================================
ONE = ('lit', __import__('fractions').Fraction(1))


def reciprocal_multiply(actual, expected):
    """expected is the single division X / Y (or X /= Y); actual computes X * (1 / Y) (or X *= 1 / Y, or with rcp(Y)).
    Equal as real numbers, but two rounded operations instead of one (and 1/Y truncates to 0 for integers)."""
    a, e = canon(actual), canon(expected)
    if e[0] == 'b' and e[1] == '/' and a[0] == 'b' and a[1] == '*':
        X, Y = e[2], e[3]
        fs = [a[2], a[3]]
    elif e[0] == 'asg' and e[1] == '/=' and a[0] == 'asg' and a[1] == '*=' and a[2] == e[2]:
        X, Y = None, e[3]
        fs = [a[3]]
    else:
        return False
    rec = [('b', '/', ONE, Y), ('call', 'rcp', (Y,))]
    if X is None:
        return fs[0] in rec
    return (fs[0] == X and fs[1] in rec) or (fs[1] == X and fs[0] in rec)


def check_slots(res, s, slots, vops, expected_abs, what):
    """slots: [(component letter, term)] ; R-C04-1 uniformity + R-C04-2 table (expected_abs may be None)"""
    names = s.names
    abss = [canon(abstract(t, c, vops)) for c, t in slots]
    cnt = collections.Counter(abss)
    top = max(cnt.values())
    ref = abss[0] if cnt[abss[0]] == top else [a for a in abss if cnt[a] == top][0]
    if expected_abs is not None and canon(expected_abs) in cnt:
        ref = canon(expected_abs)
    bad = False
    for (c, t), a in zip(slots, abss):
        if a == ref:
            continue
        bad = True
        ds = []
        tdiff(a, ref, ds)
        kinds = {d[0] for d in ds}
        msg = 'component %s of the result %s: %s' % (c, what, describe_diffs(ds, names).replace('.#', '.' + c))
        if 'other' in kinds or unknowns(a):
            res.und(R1, msg + ' (not a recognised slip)')
        else:
            res.bad(R1, msg + '; the other components compute `%s`' % show(ref, names).replace('.#', '.<k>'), 'slot-' + c)
    if not bad:
        res.ok(R1, '%d components uniform: %s' % (len(slots), show(ref, names).replace('.#', '.<k>')))
    if expected_abs is not None:
        r = compare(ref, expected_abs, names)
        if r is None:
            res.ok(R2, 'per-component operation is %s' % show(expected_abs, names).replace('.#', '.<k>'))
        else:
            dec, desc, kinds = r
            if reciprocal_multiply(ref, expected_abs):
                res.bad(R2, 'the per-component operation is `%s`: the division the name denotes (`%s`) is replaced by a '
                            'multiplication with the reciprocal - two rounded operations instead of the single scalar division '
                            '(differs from a.k / b by an ulp for many operands, overflows where the quotient is finite, and is 0 '
                            'for integer element types)' % (show(ref, names).replace('.#', '.<k>'),
                                                           show(expected_abs, names).replace('.#', '.<k>')), 'reciprocal-multiply')
                return
            if 'applies `fabs` where `abs`' in desc:
                desc += ' (std::fabs converts integer components to double: 64-bit values beyond 2^53 lose their low bits)'
            msg = 'the per-component operation is `%s` but the name and signature denote `%s`: %s' % (
                show(ref, names).replace('.#', '.<k>'), show(expected_abs, names).replace('.#', '.<k>'), desc.replace('.#', '.<k>'))
            if dec:
                res.bad(R2, msg, 'operation')
            else:
                res.und(R2, msg)


def ctor_slots(res, s, v, n_expected, rule):
    """[(comp, term)] of `return V(e_x, ...)`; None (and a result) if the body is not of that shape"""
    t = single_return(v)
    if t is None:
        res.und(rule, 'body is not a single `return <expression>` (after inlining constant locals)')
        return None
    if t[0] != 'ctor':
        res.und(rule, 'result is not built by a per-component constructor expression: %s' % show(t, s.names))
        return None
    sh = vecshape(t[1]) if t[1] else s.retshape
    if sh is None:
        res.und(rule, 'constructed type %s is not a vec_t' % t[1])
        return None
    args = t[2]
    if not isinstance(sh['n'], int):
        res.und(rule, 'constructed vec_t has a dependent component count')
        return None
    if len(args) != sh['n']:
        if len(args) == 1:
            res.und(rule, 'result built from a single expression, not per component: %s' % show(t, s.names))
            return None
        res.bad(rule, 'result vec_t has %d components but %d expressions are given' % (sh['n'], len(args)), 'arity')
        return None
    if n_expected is not None and sh['n'] != n_expected:
        res.bad(rule, 'operands have %s components but the result is built with %d' % (n_expected, sh['n']), 'arity')
        return None
    return [(COMPS[k], a) for k, a in enumerate(args)]


def operand_n(s):
    ns = {p['sh']['n'] for p in s.params if p['k'] == 'vec'}
    if len(ns) == 1:
        n = ns.pop()
        return n if isinstance(n, int) else None
    return None


def follow_broadcast_forward(s, v):
    """`return name(a, vec_t<T,N>(b));`: a scalar-operand overload that broadcasts the scalar and calls the vec-vec overload of
    the same name.  Rewrites the body to the callee's per-component expression with the arguments bound (component k of a
    broadcast vec_t<T,N>(b) is b, by the broadcast constructor that R-C04-5 decides)."""
    tu, f = v.tu, v.f
    t = single_return(v)
    if t is None:
        return
    t0 = unwrap_vec(t) if t[0] == 'ctor' and len(t[2]) == 1 else t
    if t0[0] == 'b' and 'operator' + t0[1] == s.name:
        args = (t0[2], t0[3])
    elif t0[0] == 'call' and t0[1] == s.name and len(t0[2]) == len(s.params):
        args = t0[2]
    else:
        return
    def bcast(x):
        return x[0] == 'ctor' and x[1] and x[1].startswith('vec_t<') and len(x[2]) == 1 and x[2][0][0] == 'p' \
            and s.params[x[2][0][1]]['k'] == 'scalar'
    if not any(bcast(a) for a in args) or not all(bcast(a) or (a[0] == 'p' and s.params[a[1]]['k'] == 'vec') for a in args):
        return
    g = None
    for nm, q, node in v.callees:
        if nm == s.name:
            cand = tu.callee_fn(node)
            if cand is not None and cand['id'] != f['id'] and tu.fn_file(cand) == VEC_H:
                g = cand
    if g is None and f['dep']:
        n = operand_n(s)
        cands = []
        for c in tu.functions.values():
            if c['dep'] and not c.get('rec') and c['id'] != f['id'] and tu.fn_file(c) == VEC_H and len(c['params']) == len(args) \
                    and (tu.node(c['id']) or {}).get('name') == s.name:
                cs = signature(tu, c)
                if all(p['k'] == 'vec' and p['sh']['n'] == n for p in cs.params) and len(cs.ptypes[0] & cs.ptypes[-1]) > 0:
                    cands.append(c)
        g = cands[0] if len(cands) == 1 else None
    if g is None:
        return
    gv = FnView(tu, g)
    body = single_return(gv)
    if body is None:
        return
    body = subst_params(body, tuple(args))
    v.callees = list(gv.callees)      # the component-level callees are now those of the overload forwarded to

    def comp_of_bcast(x):
        if x[0] == 'm' and x[2] in COMPS and bcast(x[1]):
            return x[1][2][0]
        return x
    v._body = [('ret', map_terms(body, comp_of_bcast))]


def fam_lifted(res, s, v, apply_):
    """unary/binary operator or functor lifted per component; apply_(operands) -> expected term"""
    follow_broadcast_forward(s, v)
    n = operand_n(s)
    if n is None:
        res.und(R1, 'operands do not have one fixed component count')
        return
    slots = ctor_slots(res, s, v, n, R1)
    if slots is None:
        return
    exp = apply_([operand(s, i) for i in range(len(s.params))])
    check_slots(res, s, slots, vec_operands(s), exp, 'of `%s`' % s.name)


SMALL_INT = {'char', 'signed char', 'unsigned char', 'short', 'unsigned short', 'bool'}


def reexpressed_scalar(res, s, v, tu, f, name):
    """a lifted functor written as the scalar definition's expression over whole vectors (`(a + b - T(1)) / b` for divRoundUp):
    every vec_t operator returns vec_t<T>, so each intermediate is narrowed to T, whereas the scalar function evaluates the same
    expression after the integer promotions and converts only the final result.  True if a verdict was recorded."""
    t = single_return(v)
    if t is not None:
        t = unwrap_vec(t)
    if t is None or t[0] == 'ctor':
        return False
    cands = []
    for g in tu.functions.values():
        if g.get('rec') or g['id'] == f['id'] or len(g['params']) != len(s.params):
            continue
        if (tu.node(g['id']) or {}).get('name') != name:
            continue
        gs = signature(tu, g)
        if all(p['k'] == 'scalar' for p in gs.params) and (g['dep'] or not g.get('pat')):
            cands.append(g)
    if len(cands) != 1:
        return False
    sb = single_return(FnView(tu, cands[0]))
    if sb is None:
        return False
    norm = lambda x: commute(strip_casts(x, pred=lambda ty: True), ops=('+', '*'))
    if norm(t) != norm(sb):
        return False
    nops = []
    map_terms(norm(t), lambda x: (nops.append(1), x)[1] if x[0] == 'b' and x[1] in ('+', '-', '*', '/', '%') else x)
    if len(nops) < 2:
        return False
    elem = s.params[0]['sh']['elem']
    if not f['dep'] and elem not in SMALL_INT:
        res.ok(R2, '%s written as the scalar definition `%s` over whole vectors: identical for element type %s (no integer promotion '
                   'between the operations)' % (name, show(sb, s.names), elem))
        res.ok(R1, 'component-wise through the lifted operators of vec.h')
        res.vector_level = True
        return True
    res.bad(R2, '%s is written as the scalar definition\'s expression `%s` over whole vectors: each vec_t operator narrows its result to '
                'the element type, whereas the scalar %s evaluates the %d operations after the integer promotions and converts only the '
                'result - for 8/16-bit elements the intermediate wraps (divRoundUp(vec2uc(200,250), vec2uc(100,7)) -> (0,0) instead of '
                '(2,36)); the lifting must apply the scalar function per component' % (name, show(t, s.names), name, len(nops)),
            'functor-reexpressed')
    return True


def norm_compound(t):
    """a.k = a.k op R  ->  a.k op= R"""
    if t[0] == 'asg' and t[1] == '=' and t[3][0] == 'b' and t[3][1] in ('+', '-', '*', '/', '%'):
        op, l, r = t[3][1], t[3][2], t[3][3]
        if l == t[2]:
            return ('asg', op + '=', t[2], r)
        if r == t[2] and op in ('+', '*'):
            return ('asg', op + '=', t[2], l)
    return t


def fam_compound(res, s, v):
    n = s.params[0]['sh']['n']
    if not isinstance(n, int):
        res.und(R1, 'dependent component count')
        return
    if s.params[1]['k'] == 'vec' and s.params[1]['sh']['n'] != n:
        res.und(R1, 'operands of different component counts')
        return
    def comp_of_index(x):
        if x[0] == 'idx' and x[1][0] == 'p' and s.params[x[1][1]]['k'] == 'vec' and x[2][0] == 'lit' and x[2][1].denominator == 1 \
                and 0 <= x[2][1] < 4:
            return ('m', x[1], COMPS[int(x[2][1])])      # operator[] / pointer view address x,y,z,w in order (R-C04-5)
        return x
    body = [map_terms(st, comp_of_index) for st in unroll(list(v.body()))]
    slots, ret = [], None
    for st in body:
        if st[0] == 'expr':
            t = norm_compound(st[1])
            if t[0] == 'asg' and t[2][0] == 'm' and t[2][1] == ('p', 0) and t[2][2] in COMPS:
                slots.append((t[2][2], t))
                continue
            res.und(R1, 'statement not recognised as a per-component update: %s' % show(st[1], s.names))
            return
        if st[0] == 'ret':
            ret = st[1]
            continue
        res.und(R1, 'statement kind `%s` not recognised in a compound assignment' % st[0])
        return
    want = list(COMPS[:n])
    got = [c for c, _ in slots]
    bad = False
    for c in want:
        if got.count(c) == 0:
            res.bad(R1, 'component %s of the left operand is never updated (updated: %s)' % (c, ','.join(got) or 'none'), 'slot-' + c)
            bad = True
        elif got.count(c) > 1:
            res.bad(R1, 'component %s of the left operand is updated %d times' % (c, got.count(c)), 'slot-' + c)
            bad = True
    for c in got:
        if c not in want:
            res.bad(R1, 'component %s does not exist in a %d-component vector' % (c, n), 'slot-' + c)
            bad = True
    if ret != ('p', 0):
        res.und(R2, 'does not return its left operand: %s' % (show(ret, s.names) if ret else 'nothing'))
    elif not s.ret.rstrip().endswith('&') or s.ret.rstrip().endswith('&&'):
        res.bad(R2, '`%s` returns `%s`: a copy of the left operand, not the left operand itself - the scalar compound assignment '
                    'yields the assigned object (an lvalue), so `(a %s b) %s c` or `auto &r = (a %s b)` updates / refers to a '
                    'detached temporary' % (s.name, s.ret, COMPOUND[s.name], COMPOUND[s.name], COMPOUND[s.name]), 'returns-copy')
    if bad or not slots:
        return
    # R-C04-4 (compound form): where the element types differ, the right operand takes part in its own type; `a.k op= T(b)`
    # narrows the operand before the operation instead of converting the result
    T_, U_ = s.ptypes[0], s.ptypes[1]
    mixed = not (T_ & U_)
    conv_bad = False
    for c, t in slots:
        rhs = t[3]
        if rhs[0] == 'ctor' and len(rhs[2]) == 1 and rhs[1] is not None and strip_casts(rhs[2][0]) == operand(s, 1, c):
            ty = rhs[1]
            if not mixed or ty in U_:
                continue
            if ty in T_:
                res.bad(R4, 'component %s: the right operand `%s` is converted to the element type %s of the left operand before `%s` '
                            'is applied (`%s`); the scalar definition applies the operation in the common type and converts the '
                            'result' % (c, show(rhs[2][0], s.names), ty, COMPOUND[s.name], show(t, s.names)), 'operand-narrowed')
            else:
                res.und(R4, 'component %s: right operand converted to %s before the operation: `%s`' % (c, ty, show(t, s.names)))
            conv_bad = True
            break
    if mixed and not conv_bad:
        res.ok(R4, 'right operand reaches `%s` in its own type' % COMPOUND[s.name])
    exp = ('asg', COMPOUND[s.name], operand(s, 0), operand(s, 1))
    check_slots(res, s, slots, vec_operands(s), exp, 'of `%s`' % s.name)


def unwrap(t, V):
    while t[0] == 'ctor' and t[1] == V and len(t[2]) == 1:
        t = t[2][0]
    return t


def fam_mixed(res, s, v, tu, f):
    """vec<T> op vec<U> / vec<T> op U / T op vec<U>"""
    op = BINOPS[s.name]
    t = single_return(v)
    if t is None:
        res.und(R4, 'body is not a single return')
        return
    if f['dep']:
        V = tkey(s.ret)
    else:
        V = None
        for n in tu.walk(tu.body(f)):
            if n.get('kind') == 'ReturnStmt' and tu.kids(n):
                V = tkey(tu.sd(tu.kids(n)[0]).get('ct') or '')
        if V is None:
            res.und(R4, 'cannot determine the result type')
            return
    vs = vecshape(V)
    if vs is None:
        res.und(R4, 'result type %s is not a vec_t' % V)
        return
    vp = [p for p in s.params if p['k'] == 'vec']
    if any(p['sh']['n'] != vs['n'] or p['sh']['a'] != vs['a'] for p in vp):
        res.bad(R4, 'result type %s does not have the shape of the vector operand(s)' % V, 'shape')
        return
    S = vs['elem']
    core = unwrap(t, V)
    if core[0] == 'ctor' and core[1] == V and isinstance(vs['n'], int) and vs['n'] > 1 and len(core[2]) == vs['n']:
        # the promoted result computed component by component: slot k must be S(a.k) op S(b.k) (a scalar operand: S(b)), the
        # operation applied to operands that were converted to the common element type first
        aliases = {S}
        for nd in tu.walk(tu.body(f)):
            if nd.get('kind') in ('TypeAliasDecl', 'TypedefDecl'):
                ty = nd.get('type') or {}
                if tkey(ty.get('desugaredQualType') or ty.get('qualType') or '') == S or tkey(ty.get('qualType') or '') == S:
                    aliases.add(nd.get('name'))
        for k, slot in enumerate(core[2]):
            c = COMPS[k]
            x = slot
            while x[0] == 'ctor' and x[1] in aliases and len(x[2]) == 1:
                x = x[2][0]
            if x[0] != 'b':
                res.und(R4, 'component %s of the result is not `convert(a.%s) %s convert(b.%s)`: %s' % (c, c, op, c, show(slot, s.names)))
                return
            sides = []
            for i, side in enumerate((x[2], x[3])):
                y, converted = side, False
                while y[0] == 'ctor' and y[1] in aliases and len(y[2]) == 1:
                    y, converted = y[2][0], True
                if not f['dep'] and not converted:
                    have = s.params[i]['sh']['elem'] if s.params[i]['k'] == 'vec' else tkey(s.params[i]['ct'])
                    converted = (tclean(have) == S)
                if y[0] == 'm' and y[1][0] == 'p' and y[1][1] < len(s.params) and s.params[y[1][1]]['k'] == 'vec' and y[2] in COMPS:
                    if y[2] != c:
                        res.bad(R4, 'component %s of the result reads component %s of operand `%s`' % (c, y[2], s.names[y[1][1]]),
                                'operation')
                        return
                    y = y[1]
                sides.append((y, converted))
            exp = ('b', op, ('p', 0), ('p', 1))
            got = ('b', x[1], sides[0][0], sides[1][0])
            r = compare(got, exp, s.names)
            if r is not None:
                dec, desc, kinds = r
                msg = 'mixed-type `%s`: component %s computes `%s` on the converted operands instead of `%s`: %s' % (
                    s.name, c, show(got, s.names), show(exp, s.names), desc)
                (res.bad(R4, msg, 'operation') if dec else res.und(R4, msg))
                return
            # (an operand left unconverted is not an error here: the built-in operator on components of types T and U computes in
            #  decltype(T() op U()) = S by the usual arithmetic conversions, with or without the explicit S(...))
        res.vector_level = False
        res.ok(R4, 'per component: %s(a.<k>) %s %s(b%s), k over the %d components in order' % (
            S, op, S, '.<k>' if s.params[1]['k'] == 'vec' else '', vs['n']))
        return
    if core[0] != 'b':
        res.und(R4, 'result is not `convert(a) %s convert(b)`: %s' % (op, show(t, s.names)))
        return
    conv = []
    for i, side in enumerate((core[2], core[3])):
        want_ty = V if s.params[i]['k'] == 'vec' else S
        x = side
        converted = False
        while x[0] == 'ctor' and len(x[2]) == 1 and x[1] in (want_ty,):
            x = x[2][0]
            converted = True
        if not f['dep'] and not converted:
            # typed AST: conversion may be a no-op (operand already has the common type)
            have = tkey(s.params[i]['ct'])
            converted = (have == want_ty)
        conv.append((x, converted))
    exp = ('b', op, ('p', 0), ('p', 1))
    got = ('b', core[1], conv[0][0], conv[1][0])
    r = compare(got, exp, s.names)
    if r is not None:
        dec, desc, kinds = r
        msg = 'mixed-type `%s` computes `%s` on the converted operands instead of `%s`: %s' % (
            s.name, show(got, s.names), show(exp, s.names), desc)
        (res.bad(R4, msg, 'operation') if dec else res.und(R4, msg))
        return
    for i, (x, c) in enumerate(conv):
        if not c:
            res.bad(R4, 'operand `%s` is not converted to the common type %s before `%s` is applied' % (
                s.names[i], V if s.params[i]['k'] == 'vec' else S, op), 'unconverted-%d' % i)
            return
    if not f['dep']:
        # the operator applied to the converted operands must be vec.h's same-type overload
        okc = False
        for name, q, node in v.callees:
            if name == s.name and q == 'rkcommon::math::' + s.name:
                cf = tu.callee_fn(node)
                if cf is not None:
                    es = set()
                    for p in cf['params']:
                        sh = vecshape(p['ct'])
                        es.add(sh['elem'] if sh else tclean(p['ct']))
                    if es == {S}:
                        okc = True
        if not okc:
            res.und(R4, 'the operator applied to the converted operands does not resolve to the same-type vec.h overload on %s' % S)
            return
    res.ok(R4, '%s(%s(a) %s %s(b))' % (V, V if s.params[0]['k'] == 'vec' else S, op, V if s.params[1]['k'] == 'vec' else S))


# ---------------------------------------------------------------------------------- folds
def fold_check(res, s, term, op, leaf, n, what, calls=False):
    """term must be a tree of `op` whose leaves are leaf(k) for each component exactly once"""
    names = s.names
    leaves = [canon(x) for x in flatten(term, op)]
    want = {c: canon(leaf(c)) for c in COMPS[:n]}
    absw = canon(leaf('#'))
    vops = vec_operands(s, with_this=True)
    got = []
    for lf in leaves:
        hit = [c for c, w in want.items() if w == lf]
        if hit:
            got.append(hit[0])
            continue
        if op in ('min', 'max') and lf[0] == 'call' and lf[1] in ('min', 'max') and lf[1] != op and \
                all(x[0] == 'm' and x[1] in vops for x in flatten(lf, lf[1])):
            res.bad(R3, '%s: the fold mixes min and max: `%s` inside a fold over `%s`' % (what, show(lf, names), op), 'fold-mixed')
            return False
        # recognised wrong leaf: right shape, components mixed up / foreign component
        comps = set(_comps_of(lf, vops))
        absl = canon(abstract_all(lf, vops))
        if absl == absw:
            res.bad(R3, '%s: term `%s` mixes components or reads one outside the shape (each term must be `%s` for one '
                        'component k of %s)' % (what, show(lf, names), show(leaf('<k>'), names), ','.join(COMPS[:n])),
                    'leaf-' + ''.join(sorted(comps)))
        else:
            ds = []
            tdiff(absl, absw, ds)
            kinds = {d[0] for d in ds}
            if 'other' in kinds or unknowns(lf):
                res.und(R3, '%s: term `%s` not recognised (expected `%s`)' % (what, show(lf, names), show(leaf('<k>'), names)))
            else:
                res.bad(R3, '%s: term `%s` is not `%s`: %s' % (what, show(lf, names), show(leaf('<k>'), names),
                                                              describe_diffs(ds, names)), 'leaf-op')
        return False
    bad = False
    for c in COMPS[:n]:
        if got.count(c) != 1:
            res.bad(R3, '%s: component %s occurs %d times in the fold over `%s` (must be exactly once; found %s)' % (
                what, c, got.count(c), op, ','.join(got)), 'fold-' + c)
            bad = True
    if not bad:
        res.ok(R3, '%s = fold of `%s` over %s, k in %s' % (what, op, show(leaf('<k>'), names), ','.join(COMPS[:n])))
    return not bad


def _comps_of(t, vops):
    out = []

    def f(x):
        if x[0] == 'm' and x[1] in vops and x[2] in COMPS:
            out.append(x[2])
        return None
    subst(t, f)
    return out


def abstract_all(t, vops):
    def f(x):
        if x[0] == 'm' and x[1] in vops and x[2] in COMPS:
            return ('m', x[1], '#')
        return None
    return subst(t, f)


def expand_vec_cmp(t, s, n):
    """a == b / a != b on whole vec operands -> component formula (meaning fixed by operator== itself)"""
    def f(x):
        if x[0] == 'b' and x[1] in ('==', '!=') and x[2][0] == 'p' and x[3][0] == 'p':
            c = None
            for k in COMPS[:n]:
                a = ('b', '==', ('m', x[2], k), ('m', x[3], k))
                c = a if c is None else ('b', '&&', c, a)
            return c if x[1] == '==' else ('u', '!', c)
        return None
    return subst(t, f)


def fam_compare(res, s, v, spec, what):
    n = operand_n(s) if not s.rec else s.shape['n']
    if not isinstance(n, int):
        res.und(R3, 'dependent component count')
        return
    from rkstatic.x_vecexpr import bool_of_stmts
    t = bool_of_stmts(v.body())
    if t is None:
        res.und(R3, 'body is not a Boolean expression / if-return chain')
        return
    # one comparison of packed keys `(u64(u32(a.x)) << 32) | u32(a.y)`: the lexicographic order of the components *as converted
    # to uint32*; that is the order of the components only where the conversion is monotone (unsigned elements of <= 32 bits)
    U32 = ('uint32_t', 'unsigned int', 'std::uint32_t')
    U64 = ('uint64_t', 'unsigned long', 'unsigned long long', 'std::uint64_t', 'size_t')

    def key_of(x):
        while x[0] == 'ctor' and x[1] in U64 and len(x[2]) == 1:
            x = x[2][0]
        if not (x[0] == 'b' and x[1] in ('|', '+')):
            return None
        for hi, lo in ((x[2], x[3]), (x[3], x[2])):
            if hi[0] == 'b' and hi[1] == '<<' and hi[3] == ('lit', __import__('fractions').Fraction(32)):
                h = hi[2]
                wide = False
                while h[0] == 'ctor' and h[1] in U64 and len(h[2]) == 1:
                    h, wide = h[2][0], True
                if wide and h[0] == 'ctor' and h[1] in U32 and len(h[2]) == 1 and lo[0] == 'ctor' and lo[1] in U32 and len(lo[2]) == 1:
                    ch, cl = h[2][0], lo[2][0]
                    if ch[0] == 'm' and cl[0] == 'm' and ch[1] == cl[1] and ch[1][0] == 'p':
                        return ch[1], ch[2], cl[2]
        return None
    packed = []

    def unpack(x):
        if x[0] == 'b' and x[1] in ('<', '>', '<=', '>=', '==', '!='):
            ka, kb = key_of(x[2]), key_of(x[3])
            if ka is not None and kb is not None and ka[1:] == kb[1:] and ka[0] != kb[0]:
                packed.append(show(x, s.names))
                A_, B_, hi, lo = ka[0], kb[0], ka[1], ka[2]
                eq = ('b', '==', ('m', A_, hi), ('m', B_, hi))
                if x[1] in ('==', '!='):
                    e = ('b', '&&', eq, ('b', '==', ('m', A_, lo), ('m', B_, lo)))
                    return e if x[1] == '==' else ('u', '!', e)
                strict = '<' if x[1] in ('<', '<=') else '>'
                return ('b', '||', ('b', strict, ('m', A_, hi), ('m', B_, hi)), ('b', '&&', eq, ('b', x[1], ('m', A_, lo), ('m', B_, lo))))
        return x
    t2 = map_terms(t, unpack)
    if packed:
        elem = (s.params[0].get('sh') or {}).get('elem') or ''
        if elem in ('unsigned int', 'unsigned short', 'unsigned char', 'uint32_t', 'uint16_t', 'uint8_t'):
            t = t2          # zero extension is monotone and injective: the key order is the lexicographic order of the components
        elif elem in ('int', 'short', 'signed char', 'char', 'long', 'long long', 'unsigned long', 'unsigned long long', 'float', 'double'):
            res.bad(R3, '%s compares packed 64-bit keys (`%s`) built from the components converted to uint32: for element type %s '
                        'that conversion is not monotone (%s), so the order of the keys is not the lexicographic order of the '
                        'components given by the scalar `<`' % (what, packed[0][:150], elem,
                                                                'a negative component wraps to a value >= 2^31 and sorts after every non-negative one'
                                                                if elem in ('int', 'short', 'signed char', 'char', 'long', 'long long') else
                                                                'values are truncated to 32 bits / to integers'), 'packed-key-order')
            return
        else:
            res.und(R3, '%s compares packed keys of the components converted to uint32 (`%s`); whether that conversion preserves the '
                        'order depends on the element type (%s)' % (what, packed[0][:120], elem or 'dependent'))
            return
    t = strip_casts(expand_vec_cmp(t, s, n))
    g = spec(n)
    bytewise, computed = [], []

    def scan_atoms(x):
        if x[0] == 'b' and x[1] in ('<', '>', '<=', '>=', '==', '!='):
            for side in (x[2], x[3]):
                cs = calls_in(side)
                if cs & {'memcmp', 'bcmp', '__builtin_memcmp'}:
                    bytewise.append(show(x, s.names))
                elif cs:
                    computed.append(show(x, s.names))
        elif x[0] == 'u' and x[1] == '!' and x[2][0] == 'call' and x[2][1] in ('memcmp', 'bcmp', '__builtin_memcmp'):
            bytewise.append(show(x, s.names))
        return x
    map_terms(t, scan_atoms)
    difference = []

    def is_zero_(x):
        x = strip_casts(x, pred=lambda ty: True)
        return x == ('lit', __import__('fractions').Fraction(0)) or (x[0] == 'ctor' and not x[2])

    def scan_diff(x):
        if x[0] == 'b' and x[1] in ('<', '>', '<=', '>=') and (is_zero_(x[2]) or is_zero_(x[3])):
            other = x[3] if is_zero_(x[2]) else x[2]
            subs = []
            map_terms(other, lambda y: (subs.append(y), y)[1] if (y[0] == 'b' and y[1] == '-' and y[2] != y[3] and all(
                z[0] == 'p' or (z[0] == 'm' and z[1][0] == 'p') for z in (strip_casts(y[2]), strip_casts(y[3])))) else y)
            if subs:
                difference.append(show(x, s.names))
        return x
    map_terms(t, scan_diff)
    if difference:
        res.bad(R3, '%s tests the sign of a difference of the operands (`%s`) instead of comparing the components: for unsigned element '
                    'types the difference wraps and is never negative, for 8/16-bit elements it leaves the type, and for infinities of '
                    'the same sign it is inf - inf = NaN' % (what, difference[0][:120]), 'difference-compare')
        return
    if bytewise:
        res.bad(R3, '%s compares the object representation (`%s`) instead of the component values: for floating-point elements '
                    '-0.0 == +0.0 by value but their bytes differ (and equal NaN bit patterns compare equal), so the result is not the '
                    'conjunction/ordering of the scalar comparisons' % (what, bytewise[0][:120]), 'bytewise-compare')
        return
    if computed:
        res.und(R3, '%s: compares a computed value (%s); not an order atom over components' % (what, computed[0][:120]))
        return
    fm = Formula(names=s.names)
    fm.scan(t)
    fm.scan(g)
    if fm.bad:
        res.und(R3, '%s: atom(s) not recognised as component comparisons: %s' % (what, ', '.join(fm.bad[:3])))
        return
    # every atom must compare components of the operands
    for a, b in fm.pairs:
        pass
    d = fm.compare(t, g)
    if d is None:
        res.ok(R3, '%s: canonical form equals %s' % (what, show(g, s.names)))
    else:
        res.bad(R3, '%s is not `%s`: for %s' % (what, show(g, s.names), d), 'truth-table')


def A(i, k):
    return ('m', ('p', i), k)


def spec_eq(n):
    c = None
    for k in COMPS[:n]:
        a = ('b', '==', A(0, k), A(1, k))
        c = a if c is None else ('b', '&&', c, a)
    return c


def spec_ne(n):
    return ('u', '!', spec_eq(n))


def spec_anylt(n):
    c = None
    for k in COMPS[:n]:
        a = ('b', '<', A(0, k), A(1, k))
        c = a if c is None else ('b', '||', c, a)
    return c


def spec_lex(n):
    def L(i):
        lt = ('b', '<', A(0, COMPS[i]), A(1, COMPS[i]))
        if i == n - 1:
            return lt
        return ('b', '||', lt, ('b', '&&', ('b', '==', A(0, COMPS[i]), A(1, COMPS[i])), L(i + 1)))
    return L(0)


def vec_atom_poly(s, n):
    """atom hook for poly(): vec operand components and scalar parameters as atoms"""
    return None


def fam_cross(res, s, v):
    slots = ctor_slots(res, s, v, 3, R3)
    if slots is None:
        return
    a = lambda k: A(0, k)
    b = lambda k: A(1, k)
    mul = lambda x, y: ('b', '*', x, y)
    exp = {'x': ('b', '-', mul(a('y'), b('z')), mul(a('z'), b('y'))),
           'y': ('b', '-', mul(a('z'), b('x')), mul(a('x'), b('z'))),
           'z': ('b', '-', mul(a('x'), b('y')), mul(a('y'), b('x')))}
    bad = False
    for c, t in slots:
        if unknowns(t):
            res.und(R3, 'cross: component %s not understood: %s' % (c, show(t, s.names)))
            bad = True
            continue
        pa, pe = poly(strip_casts(t), names=s.names), poly(exp[c], names=s.names)
        allowed = {show(A(i, k), s.names) for i in (0, 1) for k in 'xyz'}
        if not pa.atoms() <= allowed:
            res.und(R3, 'cross: component %s contains terms outside the polynomial fragment: %s' % (c, show(t, s.names)))
            bad = True
        elif pa != pe:
            res.bad(R3, 'cross: component %s is `%r`, the determinant formula gives `%r`' % (c, pa, pe), 'cross-' + c)
            bad = True
    if not bad:
        res.ok(R3, 'cross = (a.y*b.z - a.z*b.y, a.z*b.x - a.x*b.z, a.x*b.y - a.y*b.x) by polynomial normal form')


def unwrap_vec(t):
    """V(e) with a single vec-valued argument: conversion between vec_t shapes/element types (component-wise, R-C04-5)"""
    while t[0] == 'ctor' and t[1] and t[1].startswith('vec_t<') and len(t[2]) == 1 and t[2][0][0] in ('b', 'ctor'):
        t = t[2][0]
    return t


def fam_term(res, s, v, expected, what, calls=()):
    t = single_return(v)
    if t is None:
        res.und(R3, '%s: body is not a single return' % what)
        return
    t = select_to_minmax(unwrap_vec(t))
    cm = lambda x: commute(strip_casts(x, pred=lambda ty: False), ops=('+', '*'), calls=calls)
    a, e = cm(t), cm(expected)
    if a == e:
        res.ok(R3, '%s = %s' % (what, show(expected, s.names)))
        return
    if what == 'safe_normalize':
        raw = ('call', 'dot', (('p', 0), ('p', 0)))
        hits = []
        map_terms(a, lambda x: (hits.append(x), x)[1] if x[0] == 'call' and x[1] in ('rsqrt', 'rcp', 'sqrt') and x[2] == (raw,) else x)
        if hits:
            res.bad(R3, 'safe_normalize applies `%s` to the unguarded squared length (`%s`): the guard max(T(ulp), dot(v,v)) must bound '
                        'the argument of rsqrt - rsqrt(0) / rsqrt(subnormal) is inf*0 = NaN in the SIMD configuration and a later '
                        'min/max does not remove a NaN, so exactly the near-zero vectors the function exists for become NaN' % (
                            hits[0][1], show(t, s.names)), 'unguarded-rsqrt')
            return
    ds = []
    tdiff(a, e, ds)
    kinds = {d[0] for d in ds}
    msg = '%s is `%s`, required `%s`: %s' % (what, show(t, s.names), show(expected, s.names), describe_diffs(ds, s.names))
    if 'other' in kinds or unknowns(a):
        res.und(R3, msg)
    else:
        res.bad(R3, msg, 'definition')


def fam_interpolate(res, s, v):
    t = single_return(v)
    if t is None or unknowns(t):
        res.und(R3, 'interpolate_uv: body is not a single understood return')
        return
    t = unwrap_vec(t)
    # a partial sum held in a local of the result type: vec_t<T,3,true>(e) of a vec_t<T,3> value e converts between paddings
    # of the same element type, component by component (R-C04-5), and is the identity on x, y, z
    elem = (s.params[1].get('sh') or {}).get('elem')

    def same_elem_conv(x):
        if x[0] == 'ctor' and x[1] and x[1].startswith('vec_t<') and len(x[2]) == 1 and x[2][0][0] in ('b', 'ctor'):
            sh = vecshape(x[1])
            if sh is not None and elem is not None and sh['elem'] == elem:
                return x[2][0]
        return x
    t = map_terms(t, same_elem_conv)
    exp = ('b', '+', ('b', '+', ('b', '*', A(0, 'x'), ('p', 1)), ('b', '*', A(0, 'y'), ('p', 2))), ('b', '*', A(0, 'z'), ('p', 3)))
    pa, pe = poly(strip_casts(t), names=s.names), poly(exp, names=s.names)
    allowed = pe.atoms()
    if not pa.atoms() <= allowed | {show(A(0, 'w'), s.names)}:
        res.und(R3, 'interpolate_uv: terms outside the polynomial fragment: %s' % show(t, s.names))
    elif pa != pe:
        res.bad(R3, 'interpolate_uv computes `%r`, the barycentric definition is `%r`' % (pa, pe), 'definition')
    else:
        res.ok(R3, 'interpolate_uv = f.x*a + f.y*b + f.z*c by polynomial normal form')


def fam_argmax(res, s, v, typed_n=None):
    b = v.body()
    names = s.names
    t = single_return(v)
    if t is not None:
        # `size_t(std::max_element(p, p + N) - p)` with p the pointer view of v: the first position of the largest component
        # (max_element keeps the first of equal maxima and compares with <, as the loop `v[i] > v[best]` does)
        x = strip_casts(t, pred=lambda ty: True)
        n = s.params[0]['sh']['n']
        bound = ('lit', __import__('fractions').Fraction(n)) if isinstance(n, int) else ('tp', n)
        P = ('p', 0)
        me = ('call', 'max_element', (P, ('b', '+', P, bound)))
        if x == ('b', '-', me, P):
            res.ok(R3, 'arg_max = std::max_element over the %s components of the pointer view, as an index' % (n,))
            return
        if x[0] == 'b' and x[1] == '-' and x[2][0] == 'call' and x[2][1] in ('max_element', 'min_element') and x[3] == P:
            c = x[2]
            if c[1] == 'min_element' and c[2] == me[2]:
                res.bad(R3, 'arg_max uses std::min_element: it returns the position of the smallest component', 'argmax-cmp')
                return
            if c[1] == 'max_element' and len(c[2]) == 2 and c[2][0] == P and c[2][1][0] == 'b' and c[2][1][1] == '+' and c[2][1][2] == P \
                    and c[2][1][3][0] in ('lit',) and bound[0] == 'lit' and c[2][1][3][1] < bound[1]:
                res.bad(R3, 'arg_max scans only the first %s of the %s components' % (c[2][1][3][1], n), 'argmax-bound')
                return
        if x[0] != 'v':
            res.und(R3, 'arg_max: expression not recognised: %s' % show(t, names))
            return
    shown = '; '.join(str(x[0]) for x in b)
    if not (len(b) == 3 and b[0][0] == 'decl' and b[1][0] == 'for' and b[2][0] == 'ret'):
        res.und(R3, 'arg_max: body shape not recognised (%s)' % shown)
        return
    best = b[0][1]
    init = strip_casts(b[0][2])
    loop = b[1]
    ini, cond, inc, lb = loop[1], loop[2], loop[3], loop[4]
    if b[2][1] != ('v', best):
        res.und(R3, 'arg_max: does not return its running index')
        return
    if not (len(ini) == 1 and ini[0][0] == 'decl'):
        res.und(R3, 'arg_max: loop initialisation not recognised')
        return
    iv = ini[0][1]
    start = strip_casts(ini[0][2])
    I, B = ('v', iv), ('v', best)
    n = s.params[0]['sh']['n']
    bound = ('lit', __import__('fractions').Fraction(n)) if isinstance(n, int) else ('tp', n)
    problems = []
    if init != ('lit', 0):
        problems.append(('init', 'running index starts at %s, not 0' % show(init, names)))
    if start not in (('lit', 0), ('lit', 1)):
        problems.append(('start', 'loop starts at %s (components below it are never examined)' % show(start, names)))
    c = commute(strip_casts(cond), ops=())
    if c != ('b', '<', I, bound):
        if c[0] == 'b' and c[1] in ('<', '<=', '!=') and c[2] == I:
            problems.append(('bound', 'loop condition is `%s`, required `%s < %s`' % (show(cond, names), iv, show(bound, names))))
        else:
            res.und(R3, 'arg_max: loop condition not recognised: %s' % show(cond, names))
            return
    if inc not in (('u', 'post++', I), ('u', '++', I), ('asg', '+=', I, ('lit', 1))):
        res.und(R3, 'arg_max: loop increment not recognised: %s' % show(inc, names))
        return
    if not (len(lb) == 1 and lb[0][0] == 'if' and not lb[0][3] and len(lb[0][2]) == 1 and lb[0][2][0] == ('expr', ('asg', '=', B, I))):
        res.und(R3, 'arg_max: loop body is not `if (cmp) %s = %s;`' % (best, iv))
        return
    cmp_ = commute(lb[0][1], ops=())
    vi, vb = ('idx', ('p', 0), I), ('idx', ('p', 0), B)
    if cmp_ == ('b', '<', vb, vi):
        pass
    elif cmp_ in (('b', '<', vi, vb), ('b', '<=', vi, vb)):
        problems.append(('cmp', 'comparison `%s` selects the smallest component' % show(lb[0][1], names)))
    elif cmp_ == ('b', '<=', vb, vi):
        res.und(R3, 'arg_max: `>=` returns the last of equal maxima (tie-breaking is not part of the property)')
        return
    else:
        res.und(R3, 'arg_max: comparison not recognised: %s' % show(lb[0][1], names))
        return
    if problems:
        for kd, p in problems:
            res.bad(R3, 'arg_max: ' + p, 'argmax-' + kd)
    else:
        res.ok(R3, 'arg_max: running index 0, scan of all components with v[i] > v[best]')


# ---------------------------------------------------------------------------------- R-C04-5
def delegation_target(tu, f, v, args):
    """the constructor a delegating initialiser `vec_t(args...)` selects: resolved callee in a typed instantiation; in a
    template pattern the unique other constructor of the same class with that many parameters, all of them scalars"""
    node = getattr(v, 'delegate_node', None)
    if node is not None:
        g = tu.callee_fn(tu.strip(node)) or tu.callee_fn(node)
        if g is not None:
            return g
    if not f['dep']:
        return None
    cands = []
    for g in tu.functions.values():
        if g['dep'] and g.get('ctor') and g.get('recid') == f.get('recid') and g['id'] != f['id'] and len(g['params']) == len(args) \
                and not g.get('implicit'):
            gs = signature(tu, g)
            if all(p['k'] == 'scalar' for p in gs.params):
                cands.append(g)
    return cands[0] if len(cands) == 1 else None


def fam_ctor(res, s, v):
    n = s.shape['n']
    names = s.names
    got, why = ctor_fields(v.tu, v.f, v, lambda f_, v_, args: delegation_target(v.tu, f_, v_, args))
    if got is None:
        res.und(R5, 'constructor: %s' % why)
        return
    bulk = None

    def field_of_elem(x):
        # (&v.x)[k], k < N, is component k of v: the fields are contiguous in x, y, z, w order (R-C04-5 contiguity, layout witness)
        if x[0] == 'idx' and x[2][0] == 'lit' and x[1][0] == 'u' and x[1][1] == '&' and x[1][2][0] == 'm' and x[1][2][2] == 'x' \
                and x[2][1].denominator == 1 and 0 <= int(x[2][1]) < n:
            return ('m', x[1][2][1], COMPS[int(x[2][1])])
        return x

    def first_field_ptr(x):
        x = strip_casts(x, pred=lambda ty: True)
        if x[0] == 'u' and x[1] == '&' and x[2][0] == 'm' and x[2][2] == 'x':
            return x[2][1]
        return None
    # packed 4 x 32 bit conversions: lane-wise value of the intrinsic (default rounding mode)
    LANE_CONV = {'_mm_cvtepi32_ps': ('float', None),     # int32 -> float, rounds to nearest like the conversion
                 '_mm_cvttps_epi32': ('int', None),      # float -> int32 with truncation: the conversion of the language
                 '_mm_cvtps_epi32': ('int', 'rounds to the nearest integer (ties to even, MXCSR rounding mode)')}
    for st in map_terms(tuple(v.body()), field_of_elem):
        if st[0] == 'expr' and st[1][0] == 'call' and st[1][1] in ('_mm_storeu_ps', '_mm_storeu_si128', '_mm_store_ps', '_mm_store_si128') \
                and len(st[1][2]) == 2 and n == 4 and first_field_ptr(st[1][2][0]) == ('this',):
            val = strip_casts(st[1][2][1], pred=lambda ty: True)
            if val[0] == 'call' and val[1] in LANE_CONV and len(val[2]) == 1:
                ld = strip_casts(val[2][0], pred=lambda ty: True)
                srcv = first_field_ptr(ld[2][0]) if (ld[0] == 'call' and ld[1] in ('_mm_loadu_ps', '_mm_loadu_si128', '_mm_load_ps',
                                                                                   '_mm_load_si128') and len(ld[2]) == 1) else None
                if srcv is not None:
                    ty, wrong = LANE_CONV[val[1]]
                    if wrong is not None:
                        res.bad(R5, 'converting constructor: the 4 components are converted with `%s`, which %s; the element conversion '
                                    'T(o.<k>) of a floating-point value to an integer type truncates toward zero (1.5 -> 1, -2.7 -> -2), '
                                    'so every component with a fractional part >= .5 differs from the per-component conversion '
                                    '(_mm_cvttps_epi32 is the truncating form)' % (val[1], wrong), 'conv-rounds')
                        return
                    for kk in COMPS[:4]:
                        got[kk] = ('ctor', ty, (('m', srcv, kk),))
                    continue
        if st[0] == 'expr' and st[1][0] == 'asg' and st[1][1] == '=' and st[1][2][0] == 'm' and st[1][2][1] == ('this',):
            got[st[1][2][2]] = st[1][3]
        elif st[0] == 'expr' and st[1][0] == 'call' and st[1][1] in ('memcpy', 'memmove', '__builtin_memcpy') and len(st[1][2]) == 3 \
                and len(s.params) == 1 and s.params[0]['k'] == 'ptr':
            dst, src, size = (strip_casts(x, pred=lambda ty: True) for x in st[1][2])
            size = fold_consts(size)
            if dst not in (('this',), ('u', '&', ('m', ('this',), 'x'))) or src != ('p', 0):
                res.und(R5, 'constructor: bulk copy with unrecognised source/destination: %s' % show(st[1], names))
                return
            bulk = (size, st[1])
        else:
            res.und(R5, 'constructor body statement not recognised: %s' % (show(st[1], names) if len(st) > 1 and isinstance(st[1], tuple) else str(st[0])))
            return
    if bulk is not None:
        # construction from a pointer reads exactly the N source elements [0, N)
        size, call = bulk
        padded = s.shape['a'] is True
        whole = size in (('traitof', 'sizeof', ('this',)), ('traitof', 'sizeof', ('u', '*', ('this',))))
        if not whole and size[0] == 'traitof' and size[2][0] == 'type':
            sh = vecshape(size[2][1])
            whole = bool(sh) and sh['n'] == n and sh['a'] == s.shape['a']
        exact = None
        if whole:
            exact = not padded
        elif size[0] == 'lit' and getattr(v, 'elem_size', None):
            exact = (size[1] == n * v.elem_size) if size[1] >= n * v.elem_size else None
            if size[1] > n * v.elem_size:
                exact = False
        elif size[0] == 'b' and size[1] == '*':
            fs = {size[2], size[3]}
            lits = [x for x in fs if x[0] == 'lit']
            others = [x for x in fs if x[0] == 'traitof' and x[1] == 'sizeof']
            if len(lits) == 1 and len(others) == 1 and others[0][2] in (('type', 'T'), ('type', 'scalar_t'), ('m', ('this',), 'x'),
                                                                         ('type', tclean(s.params[0]['ct']).rstrip('*').strip())):
                exact = True if lits[0][1] == n else (False if lits[0][1] > n else None)
        if exact is True:
            res.ok(R5, 'pointer constructor copies exactly %d elements from the source in one block' % n)
        elif exact is False:
            res.bad(R5, 'constructor(pointer) copies `%s` bytes from the source: more than the %d elements of a %d-component vector '
                        '(the %s record is larger than %d elements) - it reads source element [%d], which a %d-element array does not have' % (
                            show(size, names), n, n, 'padded' if padded else 'vec_t', n, n, n), 'ctor-overread')
        else:
            res.und(R5, 'constructor(pointer): byte count of the bulk copy not recognised: %s' % show(size, names))
        return
    # expected value of each component, from the parameter list
    exp = []
    ps = s.params
    if len(ps) == 1 and ps[0]['k'] == 'ptr':
        from fractions import Fraction
        exp = [('idx', ('p', 0), ('lit', Fraction(k))) for k in range(n)]
        what = 'from array'
    elif len(ps) == 1 and ps[0]['k'] == 'scalar':
        exp = [('p', 0)] * n
        what = 'broadcast'
    else:
        for i, p in enumerate(ps):
            if p['k'] == 'vec':
                pn = p['sh']['n']
                if not isinstance(pn, int):
                    res.und(R5, 'vector parameter with dependent component count')
                    return
                exp += [('m', ('p', i), COMPS[k]) for k in range(pn)]
            elif p['k'] == 'scalar':
                exp.append(('p', i))
            else:
                res.und(R5, 'parameter kind %s not recognised' % p['k'])
                return
        what = 'component-wise'
        if len(exp) != n:
            res.und(R5, 'parameters provide %d components for a %d-component vector' % (len(exp), n))
            return
    bad = False
    for k in range(n):
        c = COMPS[k]
        if c not in got:
            rec = v.tu.node(v.f.get('recid')) or {}
            inclass = any(fd.get('kind') == 'FieldDecl' and fd.get('name') == c and fd.get('hasInClassInitializer')
                          for fd in rec.get('inner', ()))
            if inclass or not rec:
                res.und(R5, 'constructor(%s): component %s has no initialiser here (default member initialiser / record not in the '
                            'facts)' % (', '.join(form(p, False) for p in ps), c))
            else:
                res.bad(R5, 'constructor(%s) never initialises component %s' % (', '.join(form(p, False) for p in ps), c), 'init-' + c)
            bad = True
            continue
        r = compare(got[c], exp[k], names)
        if r is not None:
            dec, desc, kinds = r
            msg = 'constructor(%s): component %s is initialised with `%s`, required `%s` (%s)' % (
                ', '.join(form(p, False) for p in ps), c, show(got[c], names), show(exp[k], names), desc)
            if not dec and strip_casts(got[c], pred=lambda ty: True)[0] == 'lit':
                dec = True      # a compile-time constant where the argument's value is required
            (res.bad(R5, msg, 'init-' + c) if dec else res.und(R5, msg))
            bad = True
    extra = [c for c in got if c not in COMPS[:n] and c != 'padding_']
    if extra:
        res.und(R5, 'initialises unknown field(s) %s' % extra)
        bad = True
    if not bad:
        res.ok(R5, '%s constructor: %s' % (what, ', '.join('%s<-%s' % (COMPS[k], show(exp[k], names)) for k in range(n))))


def first_field_addr(t):
    """field name if t is &this->f (modulo pointer casts / addressof), else None"""
    t = strip_casts(t, pred=lambda ty: ty.endswith('*'))
    if t[0] == 'u' and t[1] == '&' and t[2][0] == 'm' and t[2][1] == ('this',):
        return t[2][2]
    if t[0] == 'call' and t[1] == 'addressof' and len(t[2]) == 1 and t[2][0][0] == 'm' and t[2][0][1] == ('this',):
        return t[2][0][2]
    return None


def fam_index(res, s, v):
    t = single_return(v)
    if t is None:
        res.und(R5, 'operator[]: body is not (assert +) a single return')
        return
    base = idx = None
    while t[0] == 'ctor' and len(t[2]) == 1 and t[1] is not None and not t[1].startswith('vec_t<'):
        t = t[2][0]          # const_cast<T &>(...) / T(...) around the element reference
    if t[0] == 'idx':
        base, idx = t[1], t[2]
    elif t[0] == 'u' and t[1] == '*' and t[2][0] == 'b' and t[2][1] == '+':
        base, idx = t[2][2], t[2][3]
        if first_field_addr(base) is None:
            base, idx = idx, base
    if base is not None and strip_casts(idx) == ('p', 0):
        b0 = strip_casts(base, pred=lambda ty: True)
        if b0 == ('this',) and base != ('this',):
            res.ok(R5, 'operator[](i) = (pointer view of *this)[i]; the pointer view is &x (pointer view family)')
            return
        if base == ('this',) and not v.f.get('const'):
            sib = [g for g in v.tu.functions.values() if g.get('recid') == v.f.get('recid') and g['id'] != v.f['id'] and g.get('const')
                   and (v.tu.node(g['id']) or {}).get('name') == 'operator[]' and g['dep'] == v.f['dep']]
            if sib:
                res.ok(R5, 'non-const operator[] returns the component the const operator[] addresses (decided there)')
                return
    fld = first_field_addr(base) if base is not None else None
    if fld is None or strip_casts(idx) != ('p', 0):
        res.und(R5, 'operator[]: not of the form (&x)[i]: %s' % show(t, s.names))
        return
    if fld != 'x':
        res.bad(R5, 'operator[] indexes from field `%s`, not from the first component x: v[0] is %s' % (fld, fld), 'index-base')
    else:
        res.ok(R5, 'operator[](i) = (&x)[i]')


def fam_ptr(res, s, v):
    t = single_return(v)
    fld = first_field_addr(t) if t is not None else None
    if fld is None:
        res.und(R5, 'pointer view: not of the form `return &x`: %s' % (show(t, s.names) if t else 'no single return'))
    elif fld != 'x':
        res.bad(R5, 'pointer conversion returns the address of `%s`, not of the first component x' % fld, 'pointer-base')
    else:
        res.ok(R5, 'operator T*() = &x')


def fam_vecconv(res, s, v):
    t = single_return(v)
    n = s.shape['n']
    if s.ret.rstrip().endswith('&'):
        # the conversion hands out a reference instead of a converted value
        inner = strip_casts(t, pred=lambda ty: True) if t is not None else None
        if inner is not None and inner[0] == 'u' and inner[1] == '*':
            src = strip_casts(inner[2], pred=lambda ty: True)
            if src == ('this',) or first_field_addr(src) is not None:
                res.bad(R5, 'conversion operator returns `%s`: a reference to the source object\'s own storage reinterpreted as %s, not a '
                            'converted value - when the source is a temporary (the result of normalize / min / max / unary minus on the '
                            'padded shape) a `const vec_t<T,3> &` bound to the conversion dangles after the full expression and no longer '
                            'holds the source\'s components' % (show(t, s.names), tkey(s.ret)), 'conv-view')
                return
        res.und(R5, 'vec conversion operator returns a reference: %s' % (show(t, s.names) if t else 'body not understood'))
        return
    if t is None or t[0] != 'ctor':
        res.und(R5, 'vec conversion operator: body is not `return V(...)`')
        return
    sh = vecshape(t[1]) if t[1] else s.retshape
    if sh is None or sh['n'] != n:
        res.bad(R5, 'conversion operator of a %d-component vector builds %s' % (n, t[1]), 'conv-shape')
        return
    if t[2] == (('this',),):
        res.ok(R5, 'operator %s() = %s(*this) (converting constructor)' % (t[1], t[1]))
        return
    if len(t[2]) == n:
        slots = [(COMPS[k], a) for k, a in enumerate(t[2])]
        s2 = s
        bad = False
        for c, a in slots:
            r = compare(a, ('m', ('this',), c), s.names)
            if r is not None:
                dec, desc, kinds = r
                msg = 'conversion operator: component %s of the result is `%s`, required `%s`' % (c, show(a, s.names), c)
                (res.bad(R5, msg, 'conv-' + c) if dec else res.und(R5, msg))
                bad = True
        if not bad:
            res.ok(R5, 'operator %s() copies %s in order' % (t[1], ','.join(COMPS[:n])))
        return
    res.und(R5, 'vec conversion operator: constructor arguments not recognised: %s' % show(t, s.names))


def fam_stream(res, s, v):
    b = unroll(list(v.body()))
    for st in b:
        if st[0] in ('expr', 'ret') and st[1] is not None:
            lv = flatten(st[1], '<<')
            if lv and lv[0][0] == 'v' and any(x[0] == 'm' and x[1] == ('p', 1) and x[2] in COMPS for x in map(strip_casts, lv[1:])):
                res.bad(R5, 'operator<< formats the components into the local stream `%s` and inserts the finished text: the destination '
                            'stream\'s precision, base, floatfield and locale are ignored, so the output is not what streaming the scalar '
                            'components into `%s` gives' % (lv[0][1], s.names[0]), 'stream-detached')
                return
    chain = [st for st in b if st[0] == 'expr']
    rets = [st for st in b if st[0] == 'ret']
    if len(b) != len(chain) + len(rets) or len(rets) != 1:
        res.und(R5, 'operator<<: statements not recognised')
        return
    leaves = []
    for st in chain:
        lv = flatten(st[1], '<<')
        if lv[0] != ('p', 0):
            res.und(R5, 'operator<<: a statement does not write to the stream parameter')
            return
        leaves += lv[1:]
    rt = rets[0][1]
    if rt != ('p', 0):
        lv = flatten(rt, '<<') if rt else []
        if lv and lv[0] == ('p', 0):
            leaves += lv[1:]
        else:
            res.und(R5, 'operator<<: does not return the stream')
            return
    n = s.params[1]['sh']['n']
    comps = []
    for lf in leaves:
        lf = strip_casts(lf)
        if lf[0] == 'str':
            continue
        if lf[0] == 'm' and lf[1] == ('p', 1) and lf[2] in COMPS:
            comps.append(lf[2])
            continue
        if lf[0] == 'idx' and lf[1] == ('p', 1) and lf[2][0] == 'lit':
            comps.append(COMPS[int(lf[2][1])] if 0 <= lf[2][1] < 4 else '?')
            continue
        res.und(R5, 'operator<<: streamed item not recognised: %s' % show(lf, s.names))
        return
    if not isinstance(n, int):
        res.und(R5, 'operator<<: dependent component count')
        return
    want = list(COMPS[:n])
    if comps == want:
        res.ok(R5, 'operator<< prints %s in order' % ','.join(want))
    else:
        res.bad(R5, 'operator<< prints components %s, required %s in this order' % (','.join(comps) or 'none', ','.join(want)), 'stream-order')


# ============================================================================================
#  classifier
# ============================================================================================
def classify(tu, f, s):
    """-> (family name, checker(res, s, v)) or (None, None)"""
    ps = s.params
    kinds = [p['k'] for p in ps]
    name = s.name
    if f.get('implicit') or f.get('defaulted'):
        return 'compiler-generated special member', None
    if '(anonymous class)::operator()' in f['q'] or '(lambda at ' in f['q']:
        return 'lambda body (decided where the lambda is applied)', None
    if s.rec == 'rkcommon::math::vec_t' and s.shape and isinstance(s.shape['n'], int):
        if s.kind == 'CXXConstructorDecl':
            if kinds and all(k in ('vec', 'scalar', 'ptr') for k in kinds):
                return 'constructor', fam_ctor
            return None, None
        if s.kind == 'CXXConversionDecl':
            if s.retshape:
                return 'conversion to vec_t', fam_vecconv
            if s.ret.rstrip().endswith('*'):
                return 'pointer view', fam_ptr
            return None, None
        if name == 'operator[]' and kinds == ['scalar']:
            return 'operator[]', fam_index
        n = s.shape['n']
        this = lambda k: ('m', ('this',), k)
        if name == 'sum' and not ps:
            return 'member fold', lambda res, s, v: _ret_fold(res, s, v, '+', this, n, 'sum()')
        if name == 'product' and not ps:
            return 'member fold', lambda res, s, v: _ret_fold(res, s, v, '*', this, n, 'product()')
        if name == 'long_product' and not ps:
            return 'member fold', lambda res, s, v: _ret_fold(res, s, v, '*', this, n, 'long_product()', cast=True)
        return None, None
    if s.rec == 'std::less' and name == 'operator()' and kinds == ['vec', 'vec'] and s.shape:
        return 'std::less', lambda res, s, v: fam_compare(res, s, v, spec_lex, 'std::less')
    if s.rec:
        return None, None
    # free functions
    if name in NOT_VEC_OPERATORS:
        return 'sRGB helper (not a vec_t operator)', None
    nv = kinds.count('vec')
    if name in ('operator-', 'operator+') and kinds == ['vec']:
        op = name[-1]
        return 'unary operator', lambda res, s, v: fam_lifted(res, s, v, lambda o: ('u', op, o[0]))
    if name in BINOPS and len(ps) == 2 and nv >= 1 and all(k in ('vec', 'scalar') for k in kinds):
        elems = [p['sh']['elem'] if p['k'] == 'vec' else p['t'] for p in ps]
        op = BINOPS[name]
        if elems[0] == elems[1]:
            fn = lambda res, s, v: fam_lifted(res, s, v, lambda o: ('b', op, o[0], o[1]))
            return 'binary operator (%s)' % ' op '.join('vec' if k == 'vec' else 'scalar' for k in kinds), fn
        return 'binary operator, mixed element types', lambda res, s, v: fam_mixed(res, s, v, tu, f)
    if name in COMPOUND and len(ps) == 2 and kinds[0] == 'vec' and kinds[1] in ('vec', 'scalar'):
        return 'compound assignment (vec op= %s)' % ('vec' if kinds[1] == 'vec' else 'scalar'), fam_compound
    if name in LIFTED_CALLS and len(ps) == LIFTED_CALLS[name] and all(k == 'vec' for k in kinds):
        def lifted(res, s, v):
            if reexpressed_scalar(res, s, v, tu, f, name):
                return
            fam_lifted(res, s, v, lambda o: ('call', name, tuple(o)))
        return 'lifted functor', lifted
    if name == 'operator==' and kinds == ['vec', 'vec']:
        return 'comparison', lambda res, s, v: fam_compare(res, s, v, spec_eq, 'operator==')
    if name == 'operator!=' and kinds == ['vec', 'vec']:
        return 'comparison', lambda res, s, v: fam_compare(res, s, v, spec_ne, 'operator!=')
    if name == 'operator<' and kinds == ['vec', 'vec'] and isinstance(operand_n(s), int):
        return 'comparison', lambda res, s, v: fam_compare(res, s, v, spec_lex, 'operator< (lexicographic, as std::less)')
    if name == 'anyLessThan' and kinds == ['vec', 'vec']:
        return 'comparison', lambda res, s, v: fam_compare(res, s, v, spec_anylt, 'anyLessThan')
    if name == 'dot' and kinds == ['vec', 'vec']:
        n = operand_n(s)
        if n:
            return 'fold', lambda res, s, v: _ret_fold(res, s, v, '+', lambda k: ('b', '*', A(0, k), A(1, k)), n, 'dot')
    if name in ('reduce_add', 'reduce_mul', 'reduce_min', 'reduce_max') and kinds == ['vec']:
        n = operand_n(s)
        op = {'reduce_add': '+', 'reduce_mul': '*', 'reduce_min': 'min', 'reduce_max': 'max'}[name]
        if n:
            return 'fold', lambda res, s, v: _ret_fold(res, s, v, op, lambda k: A(0, k), n, name)

        def generic_fold(res, s, v):
            t = single_return(v)
            if t is None and loop_fold(res, s, v, op, name):
                return
            if t is None or not delegates_to_member(res, s, t, op, name):
                res.und(R3, '%s over a generic component count: body is not a delegation to the member fold' % name)
        return 'fold', generic_fold
    if name == 'length' and kinds == ['vec']:
        e = ('call', 'sqrt', (('call', 'dot', (('p', 0), ('p', 0))),))

        def length_rule(res, s, v):
            if single_return(v) is None:
                # multi-statement body: the "overflow-safe" rescaling v / max|v_k| is recognisably wrong at infinity
                hits = []

                def scan(x):
                    if x[0] == 'b' and x[1] in ('/', '*') and x[2] == ('p', 0):
                        cs = calls_in(x[3])
                        if x[1] == '/' and ('reduce_max' in cs or 'max' in cs) and 'abs' in cs:
                            hits.append(x)
                    return x
                map_terms(tuple(v.body()), scan)
                if hits:
                    res.bad(R3, 'length rescales the vector by its largest magnitude (`%s`) before squaring: for an infinite component '
                                'this is inf / inf = NaN, so length returns NaN where sqrt(dot(v, v)) returns +inf (the quantifier '
                                'includes infinities); the definition is sqrt(dot(v, v))' % show(hits[0], s.names)[:120], 'rescaled-by-max')
                    return
            fam_term(res, s, v, e, 'length')
        return 'derived function', length_rule
    if name == 'normalize' and kinds == ['vec']:
        e = ('b', '*', ('p', 0), ('call', 'rsqrt', (('call', 'dot', (('p', 0), ('p', 0))),)))
        return 'derived function', lambda res, s, v: fam_term(res, s, v, e, 'normalize')
    if name == 'safe_normalize' and kinds == ['vec']:
        el = ps[0]['sh']['elem']
        e = ('b', '*', ('p', 0), ('call', 'rsqrt', (('call', 'max', (('ctor', tkey(el), (('g', 'ulp'),)),
                                                                     ('call', 'dot', (('p', 0), ('p', 0))))),)))
        return 'derived function', lambda res, s, v: fam_term(res, s, v, e, 'safe_normalize', calls=('max',))
    if name == 'cross' and kinds == ['vec', 'vec'] and operand_n(s) == 3:
        return 'derived function', fam_cross
    if name == 'interpolate_uv' and kinds == ['vec'] * 4:
        return 'derived function', fam_interpolate
    if name == 'arg_max' and kinds == ['vec']:
        return 'derived function', fam_argmax
    if name == 'operator<<' and kinds == ['ostream', 'vec']:
        return 'stream output', fam_stream
    return None, None


MEMBER_FOLD = {'+': 'sum', '*': 'product'}


def delegates_to_member(res, s, t, op, what):
    """`return v.sum()` / `return v.product()`: the free reduction takes the verdict of the member fold (decided per shape)"""
    t = strip_casts(t)
    if t[0] == 'mcall' and not t[3] and t[2] == ('p', 0) and t[1] in MEMBER_FOLD.values() and not s.rec:
        if MEMBER_FOLD.get(op) == t[1]:
            res.ok(R3, '%s forwards to the member %s(), whose fold is decided for each shape (member fold)' % (what, t[1]))
        else:
            res.bad(R3, '%s forwards to the member %s(), which folds with `%s`, not with `%s`' % (
                what, t[1], [k for k, m in MEMBER_FOLD.items() if m == t[1]][0], op), 'fold-delegation')
        return True
    return False


FLOATING = {'float', 'double', 'long double'}


def loop_fold(res, s, v, op, what):
    """`T r = SEED; for (i = 0|1; i < N; ++i) r = op(r, v[i]); return r;` - True if a verdict was recorded"""
    from fractions import Fraction
    b = v.body()
    names = s.names
    if not (len(b) == 3 and b[0][0] == 'decl' and b[1][0] == 'for' and b[2][0] == 'ret' and b[2][1] == ('v', b[0][1])):
        return False
    R = ('v', b[0][1])
    ini, cond, inc, lb = b[1][1], b[1][2], b[1][3], b[1][4]
    if not (len(ini) == 1 and ini[0][0] == 'decl' and cond is not None and len(lb) == 1 and lb[0][0] == 'expr'):
        return False
    I = ('v', ini[0][1])
    start = strip_casts(ini[0][2])
    n = s.params[0]['sh']['n']
    bound = ('lit', Fraction(n)) if isinstance(n, int) else ('tp', n)
    if strip_casts(cond) != ('b', '<', I, bound) or inc not in (('u', 'post++', I), ('u', '++', I)) or start[0] != 'lit' \
            or start[1] not in (0, 1):
        return False
    st = lb[0][1]
    elem_i = ('idx', ('p', 0), I)
    if op in ('min', 'max'):
        okstep = st[0] == 'asg' and st[1] == '=' and st[2] == R and st[3][0] == 'call' and st[3][1] in ('min', 'max') \
            and len(st[3][2]) == 2 and set(st[3][2]) == {R, elem_i}
        step_op = st[3][1] if okstep else None
    else:
        okstep = (st[0] == 'asg' and st[2] == R and ((st[1] == op + '=' and st[3] == elem_i) or (
            st[1] == '=' and st[3][0] == 'b' and st[3][1] == op and {st[3][2], st[3][3]} == {R, elem_i})))
        step_op = op if okstep else None
    if not okstep:
        return False
    if step_op != op:
        res.bad(R3, '%s folds with `%s`, required `%s`' % (what, step_op, op), 'fold-op')
        return True
    seed = strip_casts(b[0][2], pred=lambda ty: True)
    if seed in (('idx', ('p', 0), ('lit', Fraction(0))), ('m', ('p', 0), 'x')):
        res.ok(R3, '%s = loop fold of `%s` over all %s components, seeded with the first component' % (what, op, n))
        return True
    if start[1] == 1:
        res.bad(R3, '%s: the loop starts at component 1 but the accumulator starts as `%s`, not as the first component: component x '
                    'never takes part' % (what, show(b[0][2], names)), 'fold-seed')
        return True
    elem = s.params[0]['sh']['elem']
    neg = seed[0] == 'u' and seed[1] == '-'
    core = seed[2] if neg else seed
    lim = None
    if core[0] == 'call' and not core[2]:
        for nm, q, node in v.callees:
            m = re.match(r'std::numeric_limits<(.+)>::(\w+)$', q or '')
            if m and nm == core[1]:
                lim = m.group(2)
    tag = v.gtypes.get(core[1]) if core[0] == 'g' else None
    isint = elem not in FLOATING and not elem.startswith('type-parameter')
    ident = {'min': ('+infinity', {'infinity': not neg, 'max': isint and not neg}, tag == 'PosInfTy'),
             'max': ('-infinity', {'infinity': neg, 'lowest': isint and not neg, 'min': isint and not neg}, tag == 'NegInfTy'),
             '+': ('0', {}, tag == 'ZeroTy' or seed == ('lit', Fraction(0))),
             '*': ('1', {}, tag == 'OneTy' or seed == ('lit', Fraction(1)))}.get(op)
    if ident is None:
        return False
    if ident[2] or (lim is not None and ident[1].get(lim)):
        res.ok(R3, '%s = loop fold of `%s` over all %s components, seeded with its identity' % (what, op, n))
        return True
    if lim is not None or tag is not None or seed[0] == 'lit':
        shown = ('-' if neg else '') + ('numeric_limits<%s>::%s()' % (elem, lim) if lim else show(core, names))
        res.bad(R3, '%s seeds the `%s` fold with `%s`, which is not the identity of %s on %s (required %s or the first component): '
                    'numeric_limits<float>::min() is the smallest positive value, so reduce_max of a vector without a component >= '
                    'FLT_MIN returns it; max()/lowest() are not +-infinity' % (what, op, shown, op, elem, ident[0]), 'fold-seed')
        return True
    return False


def _ret_fold(res, s, v, op, leaf, n, what, cast=False):
    t = single_return(v)
    if t is None:
        if not cast and loop_fold(res, s, v, op, what):
            return
        res.und(R3, '%s: body is not a single return' % what)
        return
    if delegates_to_member(res, s, t, op, what):
        return
    if cast:
        # every leaf must be the conversion of one component to the (wider) result type
        for x in flatten(t, op):
            if x[0] == 'ctor' and len(x[2]) == 1 and x[2][0][0] == 'm':
                continue
            inner = x[2][0] if (x[0] == 'ctor' and len(x[2]) == 1) else x
            si = strip_casts(inner)
            narrow_fold = (si[0] == 'mcall' and si[1] == 'product' and si[2] == ('this',) and not si[3]) or \
                          (si[0] == 'call' and si[1] == 'reduce_mul' and si[2] == (('this',),))
            if si[0] in ('m', 'b') or narrow_fold:
                res.bad(R3, '%s: `%s` is multiplied in the narrow element type (each component must be converted to '
                            'size_t before the product is formed)' % (what, show(inner, s.names)), 'fold-narrow')
            else:
                res.und(R3, '%s: factor `%s` not recognised' % (what, show(x, s.names)))
            return
    fold_check(res, s, strip_casts(t), op, leaf, n, what)


# ============================================================================================
#  driver
# ============================================================================================
def vec_h_functions(tu):
    for f in tu.functions.values():
        if tu.fn_file(f) == VEC_H:
            yield f


def pattern_of(tu, f, by_loc):
    if f.get('pat') and f['pat'] in tu.functions:
        return tu.functions[f['pat']]
    if not f['dep']:
        return by_loc.get((f['f'], f['l'], (tu.node(f['id']) or {}).get('name')))
    return f


IR_PREFIX = {'operator()': 'less', 'reduce_add': 'radd', 'reduce_mul': 'rmul', 'reduce_min': 'rmin', 'reduce_max': 'rmax',
             'dot': 'dot', 'operator==': 'eq', 'operator!=': 'ne', 'anyLessThan': 'anylt', 'sum': 'sum', 'product': 'product',
             'min': 'min', 'max': 'max', 'cross': 'cross'}
IR_TYPES = {'int': 'i', 'float': 'f', 'long': 'l', 'double': 'd'}


def ir_cover(s):
    """identity ids of drivers/c04_alg_vec.cpp that decide this function (all of them must hold), or None"""
    if s.rec == 'std::less' and s.name == 'operator()':
        pre, sh = 'less', s.shape
    elif s.rec == 'rkcommon::math::vec_t' and s.name in ('sum', 'product'):
        pre, sh = s.name, s.shape
    elif not s.rec and s.name in IR_PREFIX and s.params and s.params[0]['k'] == 'vec':
        pre, sh = IR_PREFIX[s.name], s.params[0]['sh']
        if s.name == 'operator()':
            return None
    else:
        return None
    if sh is None:
        return None
    ns = [sh['n']] if isinstance(sh['n'], int) else [2, 3, 4]
    if pre == 'cross':
        ns = [3]
    shapes = []
    for n in ns:
        if n == 3 and not isinstance(sh['a'], bool):
            shapes += ['3', '3a']
        elif n == 3 and sh['a'] is True:
            shapes.append('3a')
        elif isinstance(sh['a'], bool) and sh['a'] is True:
            return None
        else:
            shapes.append(str(n))
    t = IR_TYPES.get(sh['elem'])
    types = [t] if t else ['i', 'f', 'l', 'd']
    return ['%s_%s%s' % (pre, ty, shp) for ty in types for shp in shapes]


def decided_by_ir(res, s, ir):
    """if the AST rules left the function undecided (no violation) and every identity covering it holds on the IR, replace
    the undecided results by one obligation that says so"""
    if ir is None or any(it[0] == 'violation' for it in res.items) or not any(it[0] == 'undecided' for it in res.items):
        return False
    need = ir_cover(s)
    if not need or any(ir.get(i) != 'ok' for i in need):
        return False
    why = '; '.join(it[2] for it in res.items if it[0] == 'undecided')[:200]
    rule = [it[1] for it in res.items if it[0] == 'undecided'][0]
    res.items = [it for it in res.items if it[0] != 'undecided']
    res.ok(rule, 'decided by the IR cross-check (R-C04-6) for the instantiations the driver covers: identities %s equal the '
                 'per-component definition; the body itself is outside the AST normal forms (%s), so other element types are '
                 'covered only through these instantiations' % (', '.join(need[:6]) + (' ... (%d)' % len(need) if len(need) > 6 else ''), why))
    return True


def analyse(ctx, tu, label='', ir=None):
    fams = collections.Counter()
    fams_typed = collections.Counter()
    unclassified = []
    n_pat = n_typed = 0
    by_loc = {}
    for f in vec_h_functions(tu):
        if f['dep'] or not f.get('pat'):
            d = tu.node(f['id']) or {}
            if f['dep']:
                by_loc.setdefault((f['f'], f['l'], d.get('name')), f)
    covered = set()
    callers = []
    pending, typed_ok = [], {}
    # a classified function that only forwards its parameters to an overload set of vec.h (`return less2(a, b);` with the overload
    # chosen by enable_if): every member of that set with the same operand kinds has to meet the forwarder's definition itself
    forward, forwarders, fwd_status, fwd_wait = {}, {}, {}, []
    for f in vec_h_functions(tu):
        if not f['dep'] or tu.body(f) is None:
            continue
        s = signature(tu, f)
        fam, fn = classify(tu, f, s)
        if fam is None or fn is None:
            continue
        try:
            b = FnView(tu, f).body()
        except Exception:
            continue
        if len(b) == 1 and b[0][0] == 'ret' and b[0][1] is not None and b[0][1][0] == 'call' and isinstance(b[0][1][1], str) \
                and b[0][1][2] == tuple(('p', i) for i in range(len(s.params))) and b[0][1][1] != s.name:
            nm = b[0][1][1]
            kinds = [p['k'] for p in s.params]
            targets = [g for g in vec_h_functions(tu) if g['dep'] and (tu.node(g['id']) or {}).get('name') == nm]
            if len(targets) > 1 and all(classify(tu, g, signature(tu, g))[0] is None and
                                        [p['k'] for p in signature(tu, g).params] == kinds for g in targets):
                forward[nm] = (kinds, fam, fn, s.name if not s.rec else '%s::%s' % (s.rec, s.name))
                forwarders[f['id']] = nm
    for f in vec_h_functions(tu):
        s = signature(tu, f)
        fam, fn = classify(tu, f, s)
        if fam is None and s.name in forward and not s.rec and [p['k'] for p in s.params] == forward[s.name][0]:
            fam, fn = 'overload forwarded to by ' + forward[s.name][3], forward[s.name][2]
        nontemplate = (not f['dep']) and not f.get('pat') and not f.get('rec')
        level = 'pattern' if (f['dep'] or nontemplate) else 'typed'
        pat = pattern_of(tu, f, by_loc) or f
        ps = signature(tu, pat) if pat is not f else s
        ksig = keysig(tu, pat, ps)
        inst = '%s%s %s' % ((s.rec.split('::')[-1] + '<%s,%s>::' % (s.shape['n'], s.shape['a'])) if s.rec and s.shape else '',
                            s.name, f['fty'])
        if level == 'typed':
            inst = '[typed%s] %s' % (label, inst)
        elif label:
            inst = '[%s] %s' % (label.strip(), inst)
        loc = tu.fn_loc(f)
        if fam is None:
            unclassified.append((inst, loc, s.name, f))
            continue
        if level == 'typed' and tu.body(f) is None:
            # instantiated inside a template whose primary lives outside the analysed roots (std::less): the
            # pattern-level verdict stands, there is no typed AST to cross-check
            fams_typed['(typed body not in the facts: %s)' % fam] += 1
            continue
        (fams if level == 'pattern' else fams_typed)[fam] += 1
        if fn is None:
            continue
        if f['id'] in forwarders:
            n_pat += 1
            fwd_wait.append((inst, loc, forwarders[f['id']], fam))
            continue
        if level == 'typed' and pat is not f:
            covered.add(pat['id'])
        v = FnView(tu, f)
        rrec = tu.records_by_type.get(f.get('rect')) if f.get('rect') else None
        if rrec and len(rrec.get('fields', ())) > 1:
            v.elem_size = rrec['fields'][1]['off'] - rrec['fields'][0]['off']
        res = Res()
        inl = None
        try:
            inl = Inliner(tu, f, v, lambda g: tu.fn_file(g) == VEC_H and classify(tu, g, signature(tu, g))[0] is None)
            v.inl = inl
            v._body = inl.stmts(list(v.body()))
            fn(res, s, v)
        except Exception as e:  # a rule must never turn an engine problem into a verdict
            import traceback
            ctx.undecided(R1, inst, 'internal error while analysing: %s' % traceback.format_exc(limit=3), loc)
            continue
        if not res.items:
            ctx.undecided(R1, inst, 'family checker produced no result', loc)
        if level == 'pattern':
            n_pat += 1
        else:
            n_typed += 1
            if not any(it[0] != 'ok' for it in res.items) and not getattr(res, 'vector_level', False):
                typed_callee_check(res, s, v, tu, f, fam)
        if level == 'typed' and (fam in ('derived function', 'fold', 'lifted functor', 'unary operator', 'comparison', 'member fold')
                                 or fam.startswith(('binary operator (', 'compound assignment'))) and s.name not in ('madd',):
            if not (fam.startswith('compound assignment') and not (s.ptypes[0] & s.ptypes[1])):
                narrowing_of_components(res, tu, f, s, s.name)
        decided_by_ir(res, s, ir)
        decided = all(it[0] == 'ok' for it in res.items)
        if level == 'typed' and pat is not f:
            typed_ok.setdefault(pat['id'], []).append(decided)
        if level == 'typed' and not label:
            aid = ir_cover_arith(s)
            if aid is not None:
                ctx._c04_astcov.setdefault(aid, []).append(decided)
        names_called = set()
        try:
            names_called = calls_in(tuple(v.body())) | (inl.used_names if inl else set())
        except Exception:
            pass
        if level == 'pattern' and f['dep'] and not decided and not any(it[0] == 'violation' for it in res.items):
            # the template pattern alone is not decided: wait for the verdicts of its typed instantiations
            pending.append((f['id'], inst, loc, res, ksig, names_called, s.name if fam.startswith('overload forwarded') else None))
            continue
        if fam.startswith('overload forwarded'):
            fwd_status.setdefault(s.name, []).append(decided)
        callers.append((inst, names_called, decided))
        for status, rule, detail, kd in res.items:
            if status == 'ok':
                ctx.ok(rule, inst, detail, loc)
            elif status == 'undecided':
                ctx.undecided(rule, inst, detail, loc)
            else:
                ctx.violation(rule, inst, detail, loc, key='%s|%s|%s|%s' % (rule, VEC_H, ksig, kd))
    for pid, inst, loc, res, ksig, names_called, fwd_name in pending:
        oks = typed_ok.get(pid, [])
        if fwd_name is not None:
            fwd_status.setdefault(fwd_name, []).append(bool(oks) and all(oks))
        if oks and all(oks):
            why = '; '.join(it[2] for it in res.items if it[0] == 'undecided')[:160]
            rule = [it[1] for it in res.items if it[0] == 'undecided'][0]
            for status, r_, detail, kd in res.items:
                if status == 'ok':
                    ctx.ok(r_, inst, detail, loc)
            ctx.ok(rule, inst, 'decided through its %d typed instantiations in drivers/c04_vec.cpp (each decided with callees resolved and '
                               'helpers inlined); the dependent pattern alone is not decidable (%s), so other element types are covered '
                               'only through these instantiations' % (len(oks), why), loc)
            callers.append((inst, names_called, True))
        else:
            callers.append((inst, names_called, False))
            for status, r_, detail, kd in res.items:
                if status == 'ok':
                    ctx.ok(r_, inst, detail, loc)
                else:
                    ctx.undecided(r_, inst, detail, loc)
    for inst, loc, nm, fam in fwd_wait:
        st = fwd_status.get(nm, [])
        rule = R3
        if st and all(st):
            ctx.ok(rule, inst, 'forwards its operands unchanged to the overload set `%s`; each of its %d overloads / instantiations '
                               'meets the definition of %s itself' % (nm, len(st), fam), loc)
            callers.append((inst, {nm}, True))
        else:
            ctx.undecided(rule, inst, 'forwards its operands to the overload set `%s`, whose members are not all decided' % nm, loc)
            callers.append((inst, {nm}, False))
    # functions the classifier does not know: helpers take the verdict of the classified functions that call them
    still = []
    for inst, loc, name, f in unclassified:
        users = [(ci, okk) for ci, names, okk in callers if name in names]
        if users and all(okk for ci, okk in users):
            ctx.ok(R3, inst, 'helper function (not part of the vec_t operator set): called by %s, whose results are decided with '
                             'this helper in place' % ', '.join(sorted({ci for ci, _ in users})[:3]), loc)
            fams['helper (decided through its callers)'] += 1
        else:
            still.append((inst, loc))
            why = ('its callers are not decided' if users else 'name/signature not recognised and no classified function calls it')
            ctx.undecided(R1, inst, 'function of vec.h not classified into any family (%s): extend the classifier' % why, loc)
    unclassified = still
    return fams, fams_typed, unclassified, n_pat, n_typed, covered, by_loc


def typed_callee_check(res, s, v, tu, f, fam):
    """typed instantiations: component-level callees are scalar functions (never a vec overload, never a
    user-defined operator): the dependent names of the pattern resolve to the scalar definition"""
    if fam not in ('lifted functor', 'fold') and not fam.startswith(('binary operator (', 'unary operator', 'compound assignment')):
        return
    if fam == 'binary operator, mixed element types':
        return
    bad = []
    inlined = getattr(getattr(v, 'inl', None), 'used_names', set())
    for name, q, node in v.callees:
        if name in inlined or '(anonymous class)::operator()' in (q or '') or '(lambda at ' in (q or '') or (
                name == 'operator[]' and '::vec_t<' in (q or '')) or (
                name.startswith('operator ') and name.rstrip().endswith('*') and '::vec_t<' in (q or '')) or (
                name == 'transform' and (q or '') == 'std::transform' and single_return(v) is not None):
            # element access / pointer view are views (R-C04-5), std::transform over them is expanded per component: not operations
            continue          # a helper / lambda whose body was inlined: its own callees are in the list
        cf_params = []
        sd = tu.sd(node)
        fty = sd.get('fty', '')
        if 'vec_t' in fty or 'vec_t' in q:
            bad.append('%s resolves to %s %s' % (name, q, fty))
    if bad:
        res.und(R2, 'component-level callee is not a scalar function: %s' % '; '.join(bad[:3]))


def check_layout(ctx, tu):
    """R-C04-5 on clang's record layout of every instantiated vec_t"""
    n = 0
    for r in tu.records.values():
        if r.get('tmpl') != 'rkcommon::math::vec_t' or r.get('lambda'):
            continue
        sh = vecshape(r['type'])
        if not sh or not isinstance(sh['n'], int) or not r.get('fields'):
            continue
        n += 1
        inst = tkey(r['type'])
        es = None
        want = list(COMPS[:sh['n']]) + (['padding_'] if sh['a'] is True else [])
        names = [fl['name'] for fl in r['fields']]
        key = '%s|%s|vec%s%s|' % (R5, VEC_H, sh['n'], 'a' if sh['a'] is True else '')
        if names[:sh['n']] != list(COMPS[:sh['n']]):
            ctx.violation(R5, inst, 'fields are declared in the order %s, required %s: (&x)[i] and the pointer view address other '
                          'components' % (','.join(names), ','.join(want)), VEC_H, key=key + 'field-order')
            continue
        cts = {tclean(fl['ct']) for fl in r['fields']}
        size0 = r['fields'][1]['off'] - r['fields'][0]['off']
        ok = len(cts) == 1
        for k, fl in enumerate(r['fields']):
            if fl['off'] != k * size0:
                ok = False
        total = len(r['fields']) * size0
        if not ok or r['size'] != total:
            ctx.violation(R5, inst, 'components are not contiguous: offsets %s, size %d (element size %d)' % (
                [fl['off'] for fl in r['fields']], r['size'], size0), VEC_H, key=key + 'contiguity')
        else:
            ctx.ok(R5, inst, 'fields %s at offsets %s, sizeof %d' % (','.join(names), [fl['off'] for fl in r['fields']], r['size']), VEC_H)
    return n


def _expand_bulk(irnorm, X, Y):
    """a block copy `out[o..+n] = copy(src, so, n)` on one side and element stores on the other are the same thing when the
    elements tile the block exactly: rewrite the block slot of X as the element slots Y uses (values src[so + k - o])"""
    out = dict(X)
    for slot, cases in X.items():
        m = re.match(r'^(.+)\[(\d+)\.\.\+(\d+)\]$', slot)
        if not m or len(cases) != 1 or cases[0][0]:
            continue
        t = cases[0][1]
        if not irnorm.is_app(t, 'copy') or len(t.args) != 3:
            continue
        base, o, nbytes = m.group(1), int(m.group(2)), int(m.group(3))
        try:
            src, so = str(t.args[0]), int(t.args[1])
        except (TypeError, ValueError):
            continue
        offs = []
        for ys in Y:
            my = re.match(r'^(.+)\[(\d+)\]$', ys)
            if my and my.group(1) == base and o <= int(my.group(2)) < o + nbytes:
                offs.append(int(my.group(2)))
        offs.sort()
        if not offs or nbytes % len(offs):
            continue
        el = nbytes // len(offs)
        if offs != [o + i * el for i in range(len(offs))]:
            continue
        del out[slot]
        for k in offs:
            out['%s[%d]' % (base, k)] = [((), irnorm.sym('%s[%d]' % (src, so + k - o)))]
    return out


def _range_edge_literals(guard):
    """literals `not (INT_MIN < x)` / `not (x < INT_MAX)` (32/64 bit, signed and unsigned): they force x to the extreme value, an
    equality irnorm's order reasoning does not derive"""
    import sympy as sp
    mins = {-2 ** 31, -2 ** 63, 0}
    maxs = {2 ** 31 - 1, 2 ** 63 - 1, 2 ** 32 - 1, 2 ** 64 - 1}
    out = []
    for l in guard:
        if getattr(getattr(l, 'func', None), '__name__', '') != 'BNot' or not l.args:
            continue
        a = l.args[0]
        if getattr(a.func, '__name__', '') not in ('slt', 'ult') or len(a.args) != 2:
            continue
        x, y = a.args
        if (x.is_Integer and int(x) in mins and not y.is_Number) or (y.is_Integer and int(y) in maxs and not x.is_Number):
            if not (getattr(a.func, '__name__', '') == 'slt' and x.is_Integer and int(x) == 0):
                out.append(str(l))
    return ', '.join(out)


def _dependent_atoms(guard):
    """comparison atoms of a witness guard that have a computed (non-symbol) operand and share an input with another atom of
    the guard: irnorm's consistency check is complete only for independent operands, so such a witness may be spurious"""
    import sympy as sp
    atoms = []
    for lit_ in guard:
        for a in lit_.atoms(sp.Function) if hasattr(lit_, 'atoms') else ():
            if a.func.__name__ in ('olt', 'ole', 'oeq', 'slt', 'ult', 'eq'):
                atoms.append(a)
    atoms = list(dict.fromkeys(atoms))
    out = []
    for i, a in enumerate(atoms):
        compound = any(not (x.is_Symbol or x.is_Number) for x in a.args)
        if not compound:
            continue
        syms = a.free_symbols
        for j, b in enumerate(atoms):
            if i != j and (syms & b.free_symbols):
                out.append(str(a))
                break
    return ', '.join(out)


def _ndelta(cases):
    """number of distinct rounding symbols in the guarded terms of one output slot"""
    names = set()
    for g, t in cases:
        for x in getattr(t, 'free_symbols', ()):
            if str(x).startswith('_d'):
                names.add(str(x))
    return len(names)


def ir_cover_arith(s):
    """identity id of the ARITH block of drivers/c04_alg_vec.cpp that exercises this typed same-type operator, or None"""
    if s.rec or not s.params or any(p['k'] not in ('vec', 'scalar') for p in s.params):
        return None
    kinds = ''.join('v' if p['k'] == 'vec' else 's' for p in s.params)
    pre = {('operator-', 'v'): 'neg', ('operator+', 'vv'): 'add_vv', ('operator-', 'vv'): 'sub_vv', ('operator*', 'vv'): 'mul_vv',
           ('operator/', 'vv'): 'div_vv', ('operator/', 'vs'): 'div_vs', ('operator/', 'sv'): 'div_sv'}.get((s.name, kinds))
    vp = [p for p in s.params if p['k'] == 'vec']
    if pre is None or not vp:
        return None
    sh = vp[0]['sh']
    if any(p['sh'] != sh for p in vp) or not isinstance(sh['n'], int) or not isinstance(sh['a'], bool) or sh['elem'] not in IR_TYPES:
        return None
    if sh['a'] and sh['n'] != 3:
        return None
    return '%s_%s%d%s' % (pre, IR_TYPES[sh['elem']], sh['n'], 'a' if sh['a'] else '')


def ir_identities(ctx, rule, unit, anchor_file, minimum, precondition=None, single_rounding=True, defer_fragment=None):
    """IR cross-check: every L_<id> (through the rkcommon API) must have the same irnorm summary as R_<id> (the
    per-component scalar definition written in the driver)"""
    from rkstatic import irnorm
    from rkstatic.front import AnalysisBroken
    try:
        mod = irnorm.Module(ctx.front.emit_ir(unit, 'TBB', extra=('-DNDEBUG',)))
    except AnalysisBroken as e:
        ctx.broken('%s: %s' % (rule, e))
        return
    except irnorm.Undecided as e:
        ctx.undecided(rule, unit, 'IR of the identity driver cannot be read: %s' % e, 'verif:' + unit)
        return
    for a in ('real-number semantics of float operations in the IR summaries (no rounding, no NaN, no signed zeros)',
              'absence of undefined behaviour (nsw/nuw flags are taken at their word); distinct pointer arguments do not alias'):
        ctx.assume(a)
    names = sorted(n for n in mod.functions if n.startswith('L_'))
    n = 0
    status = {}
    for ln in names:
        ident = ln[2:]
        inst = 'identity %s (%s)' % (ident, unit)
        loc = 'verif:' + unit
        if 'R_' + ident not in mod.functions:
            ctx.broken('%s: driver function R_%s missing in %s' % (rule, ident, unit))
            continue
        try:
            A = mod.function(ln).summary().outs()
            B = mod.function('R_' + ident).summary().outs()
        except irnorm.Undecided as e:
            if defer_fragment is not None:
                defer_fragment.append((ident, inst, loc, str(e)))
                status[ident] = 'fragment'
            else:
                ctx.undecided(rule, inst, 'outside the decided IR fragment: %s' % e, loc)
            continue
        n += 1
        key = '%s|%s|%s|' % (rule, anchor_file, ident)
        A, B = _expand_bulk(irnorm, A, B), _expand_bulk(irnorm, B, A)
        if B and not A:
            ctx.undecided(rule, inst, 'the API side has no observable store in the IR summary (copy of a partially initialised '
                                      'object); nothing to compare with the definition', loc)
            continue
        if set(A) != set(B):
            ctx.violation(rule, inst, 'the API side writes %s, the definition writes %s' % (sorted(A), sorted(B)), loc, key=key + 'slots')
            continue
        bad = False
        for slot in sorted(A):
            try:
                okk, wit = irnorm.equal_guarded(A[slot], B[slot], assume=tuple(precondition(ident, slot)) if precondition else ())
            except irnorm.Undecided as e:
                ctx.undecided(rule, inst, 'comparison of slot %s undecided: %s' % (slot, e), loc)
                bad = True
                break
            if not okk:
                gA, tA, gB, tB = wit
                ext = _range_edge_literals(list(gA) + list(gB))
                if ext:
                    ctx.undecided(rule, inst, 'slot %s differs only under a guard that pins an integer input to the end of its type\'s '
                                              'range (%s), where the two values may coincide' % (slot, ext[:120]), loc)
                    bad = True
                    break
                dep = _dependent_atoms(list(gA) + list(gB))
                if dep:
                    ctx.undecided(rule, inst, 'slot %s differs only under a guard whose comparison atoms are over computed operands that '
                                              'share inputs (%s): such atoms are not independent, the joint guard may be unsatisfiable' % (
                                                  slot, dep[:160]), loc)
                    bad = True
                    break
                if irnorm.opaque_atoms(tA) or irnorm.opaque_atoms(tB):
                    ctx.undecided(rule, inst, 'slot %s differs but involves opaque atoms: %s vs %s' % (slot, tA, tB), loc)
                else:
                    ctx.violation(rule, inst, 'slot %s: through the rkcommon API the value is `%s` (when %s), the per-component '
                                  'definition gives `%s` (when %s)' % (slot, tA, list(gA) or 'always', tB, list(gB) or 'always'),
                                  loc, key=key + slot)
                bad = True
                break
        if not bad and single_rounding is not None:
            # single-operation clause: where the definition performs at most one rounded floating-point operation per output,
            # the API side must not perform more (x * (1/s) for x / s, an integer routed through float, ...)
            try:
                sR = mod.function('R_' + ident).summary()
                if sR.nround <= len(B):
                    RA = mod.function(ln).summary(rounding=True).outs()
                    RB = mod.function('R_' + ident).summary(rounding=True).outs()
                    for slot in sorted(RA):
                        na, nb = _ndelta(RA[slot]), _ndelta(RB.get(slot, []))
                        if nb <= 1 and na > nb:
                            ctx.violation(rule, inst, 'slot %s: the scalar definition is %s, but through the rkcommon API the value '
                                          'is produced by %d rounded floating-point operations (`%s`): not the single operation the '
                                          'property requires to be exact' % (
                                              slot, 'one rounded operation' if nb == 1 else 'exact (no rounded operation)', na,
                                              str(RA[slot][0][1])[:160]), loc, key=key + 'roundings')
                            bad = True
                            break
            except irnorm.Undecided as e:
                ctx.undecided(rule, inst, 'rounding structure undecided: %s' % e, loc)
                bad = True
        if not bad:
            ctx.ok(rule, inst, '%d output slot(s) identical to the scalar definition' % len(A), loc)
            status[ident] = 'ok'
    ctx.floor(rule, n, minimum, 'identity pairs in %s' % unit)
    return status


R6 = 'R-C04-6'
R7 = 'R-C04-7'


def check_alignment(ctx, tu):
    """R-C04-5: vec_t declares no alignment (alignof(vec4f) == 4, the padded vec3 is padded, not aligned): an aligned SIMD
    load/store on the address of its components faults for objects at addresses that are not multiples of 16"""
    try:
        from rules.C06 import align_sites
    except Exception as e:     # the helper lives in another builder's module
        ctx.note('R-C04-5 alignment clause skipped: rules.C06.align_sites not importable (%s)' % e)
        return 0
    fns = [f for f in vec_h_functions(tu) if not f['dep'] and tu.body(f) is not None]
    n = 0
    for f, node, verdict, text in align_sites(tu, fns):
        n += 1
        s_ = signature(tu, f)
        inst = '%s %s' % (s_.name, f['fty'])
        if verdict == 'bad':
            ctx.violation(R5, inst, text, tu.loc(node), key='%s|%s|%s|aligned-access' % (R5, VEC_H, keysig(tu, f, s_)))
        elif verdict == 'ok':
            ctx.ok(R5, inst, text, tu.loc(node))
        else:
            ctx.undecided(R5, inst, 'aligned SIMD access: %s' % text, tu.loc(node))
    return n


NARROW_RANK = {'float': 24, 'double': 53, 'long double': 64}
INT_VALUE_BITS = {'char': 7, 'signed char': 7, 'unsigned char': 8, 'short': 15, 'unsigned short': 16, 'int': 31, 'unsigned int': 32,
                  'long': 63, 'unsigned long': 64, 'long long': 63, 'unsigned long long': 64}


def narrowing_of_components(res, tu, f, s, what):
    """typed instances of single-type families: no component may pass through an implicit conversion to a floating type that cannot
    represent every value of the element type (double -> float, 32/64-bit integer -> float, 64-bit integer -> double)"""
    vp = [p for p in s.params if p['k'] == 'vec']
    if not vp:
        return
    elem = vp[0]['sh']['elem']
    need = NARROW_RANK.get(elem) or INT_VALUE_BITS.get(elem)
    if need is None:
        return
    for n in tu.walk(tu.body(f)):
        if n.get('kind') != 'ImplicitCastExpr' or n.get('castKind') not in ('FloatingCast', 'IntegralToFloating'):
            continue
        if tu.sd(n).get('cv') is not None:
            continue
        tgt = tclean(tu.sd(n).get('ct') or '')
        ks = tu.kids(n)
        src = tclean(tu.sd(ks[0]).get('ct') or '') if ks else ''
        if tgt in NARROW_RANK and NARROW_RANK[tgt] < need and src == elem:
            par = tu.par(n)
            callee = ''
            if par is not None and par.get('kind') in ('CallExpr',):
                callee = (tu.sd(par).get('q') or '').split('::')[-1]
            res.bad(R2, '%s on element type %s: the component expression `%s` is implicitly converted to %s%s (%d-bit significand < %d '
                        'value bits): the result is not what the operation gives on the components themselves (values beyond 2^%d, '
                        'non-dyadic doubles)' % (what, elem, tu.show(ks[0])[:60], tgt, (' by the parameter of `%s`' % callee) if callee else '',
                                                 NARROW_RANK[tgt], need, NARROW_RANK[tgt]), 'component-narrowed')
            return


RKMATH_H = 'rkcommon/math/rkmath.h'
INTEGRAL = {'char', 'signed char', 'unsigned char', 'short', 'unsigned short', 'int', 'unsigned int', 'long', 'unsigned long',
            'long long', 'unsigned long long'}


def check_lerp(ctx, tu):
    """R-C04-3 for rkmath.h lerp(factor, a, b), the interpolation applied to vec_t operands: (1 - factor) * a + factor * b"""
    n = 0
    for f in tu.functions.values():
        if tu.fn_file(f) != RKMATH_H or (tu.node(f['id']) or {}).get('name') != 'lerp' or len(f['params']) != 3:
            continue
        v = FnView(tu, f)
        names = [p['name'] or 'arg%d' % i for i, p in enumerate(f['params'])]
        inst = '%slerp %s' % ('' if f['dep'] else '[typed] ', f['fty'])
        loc = tu.fn_loc(f)
        key = '%s|%s|lerp(factor,a,b)|' % (R3, RKMATH_H)
        t = single_return(v)
        n += 1
        if t is None or unknowns(t):
            ctx.undecided(R3, inst, 'lerp: body is not a single understood return', loc)
            continue
        F, A_, B_ = ('p', 0), ('p', 1), ('p', 2)
        t = unwrap_vec(strip_casts(t, pred=lambda ty: True))
        exp = ('b', '+', ('b', '*', ('b', '-', ('lit', __import__('fractions').Fraction(1)), F), A_), ('b', '*', F, B_))
        pa, pe = poly(t, names=names), poly(exp, names=names)
        if not pa.atoms() <= pe.atoms():
            ctx.undecided(R3, inst, 'lerp: terms outside the polynomial fragment: %s' % show(t, names), loc)
            continue
        if pa != pe:
            ctx.violation(R3, inst, 'lerp computes `%r`, the definition is `%r`' % (pa, pe), loc, key=key + 'definition')
            continue
        diff = []
        map_terms(t, lambda x: (diff.append(x), x)[1] if (x[0] == 'b' and x[1] == '-' and {x[2], x[3]} == {A_, B_}) else x)
        elem = None
        if not f['dep']:
            sh = vecshape(f['params'][1]['ct'])
            elem = sh['elem'] if sh else tclean(f['params'][1]['ct'])
        if diff and (f['dep'] or elem in INTEGRAL):
            ctx.violation(R3, inst, 'lerp forms the difference of its operands `%s` in the element type before scaling: for unsigned '
                          'elements it wraps whenever the second value is smaller (lerp(0.5f, vec2ui(10), vec2ui(4)) is not 7), and '
                          'for signed elements it overflows although neither operand nor the result does; the definition scales both '
                          'operands, (1 - factor) * a + factor * b, in floating point%s' % (
                              show(diff[0], names), '' if f['dep'] else ' (element type %s)' % elem), loc, key=key + 'operand-difference')
            continue
        ctx.ok(R3, inst, 'lerp = (1 - factor) * a + factor * b (polynomial normal form)%s' % (
            '; difference form is exact enough for floating-point element type %s' % elem if diff else ''), loc)
    return n


def check_driver_resolution(ctx, tu):
    """R-C04-7: in the instantiation driver every operator written on vec_t operands must resolve to an overload of vec.h.  A
    built-in operator applied after the implicit vec_t -> T* conversion (pointer comparison / pointer arithmetic) means the overload
    set does not cover that combination of shapes any more - it still compiles, and compares addresses instead of components."""
    n_ok = 0
    for f in tu.functions.values():
        if f['dep'] or not tu.files[f['f']].endswith('drivers/c04_vec.cpp'):
            continue
        body = tu.body(f)
        if body is None:
            continue
        for n in tu.walk(body):
            k = n.get('kind')
            if k == 'CXXOperatorCallExpr' and (tu.sd(n).get('q') or '').startswith('rkcommon::math::operator'):
                n_ok += 1
            if k != 'BinaryOperator':
                continue
            hits = []
            for side in tu.kids(n):
                x = side
                while x is not None and x.get('kind') in ('ImplicitCastExpr', 'ParenExpr', 'MaterializeTemporaryExpr', 'ExprWithCleanups'):
                    if x.get('kind') == 'ImplicitCastExpr' and x.get('castKind') == 'UserDefinedConversion':
                        for y in tu.walk(x):
                            q = tu.sd(y).get('q') or ''
                            if y.get('kind') == 'CXXMemberCallExpr' and 'vec_t<' in q and '::operator ' in q and q.rstrip().endswith('*'):
                                obj = tu.kids(tu.strip(tu.kids(y)[0]))
                                hits.append(tkey(tu.sd(obj[0]).get('ct') or '') if obj else 'vec_t')
                                break
                        break
                    ks = tu.kids(x)
                    x = ks[0] if ks else None
            if hits:
                op = n.get('opcode')
                ctx.violation(R7, 'built-in `%s` in %s' % (op, f['q'].split('::')[-1]),
                              'the expression `%s` on operands of type %s does not resolve to an operator of vec.h: each vec_t operand is '
                              'converted by its implicit `operator T*()` and the built-in `%s` is applied to the pointers - the result '
                              'depends on the objects\' addresses, not on their components (the overload set lost this combination of '
                              'shapes)' % (tu.show(n)[:80], ' and '.join(hits), op), tu.loc(n),
                              key='%s|%s|builtin %s on %s|pointer-fallback' % (R7, VEC_H, op, ','.join(sorted(set(hits)))))
    ctx.ok(R7, 'drivers/c04_vec.cpp', '%d operator expressions on vec_t operands resolve to overloads of vec.h; none falls back to a '
                                      'built-in operator on converted pointers' % n_ok, 'verif:drivers/c04_vec.cpp')
    return n_ok


def run(ctx):
    ctx.describe(R6, 'IR cross-check: each typed operation compiled through the real overload resolution (LLVM IR value '
                     'graph) equals the per-component scalar definition, slot by slot')
    ctx.describe(R7, 'overload coverage: every operator use on vec_t operands in the driver (all shapes, mixed padding, mixed element '
                     'types) resolves to an overload of vec.h, never to a built-in operator on implicitly converted pointers')
    ctx.describe(R1, 'uniformity: the components of the result are one expression up to the component letter; slot k reads '
                     'component k of every vector operand; exactly the components of the shape, each once')
    ctx.describe(R2, 'operator table: the per-component expression is the scalar operation the function name denotes, '
                     'operands in signature order')
    ctx.describe(R3, 'folds and derived functions have their defining form (each component exactly once under one '
                     'associative operator; comparisons by canonical truth table; cross/interpolate by polynomial normal form)')
    ctx.describe(R4, 'mixed element-type overloads convert both operands to the common vector/scalar type and apply the '
                     'same-type operator with operands in order')
    ctx.describe(R5, 'constructors, conversions, operator[], pointer view and stream output address x,y,z,w in order; '
                     'fields are contiguous in that order')
    ctx.assume('NaN operands are outside the quantifier of C04 (comparison normal forms are taken over totally ordered values)')
    ctx.assume('element types are built-in arithmetic types (enforced by vec_t\'s is_arithmetic constraint), so operators on '
               'components in the template patterns denote the built-in operators')
    jobs = [dict(unit='drivers/c04_vec.cpp', config='TBB')]
    if ctx.tier == 'thorough':
        jobs.append(dict(unit='drivers/c04_vec.cpp', config='TBB', std='gnu++17'))
        jobs.append(dict(unit='drivers/c04_vec.cpp', config='DEBUG', simd=False))
    tus = ctx.front.parse_many(jobs)
    deferred_ir = []
    ctx._c04_astcov = {}
    ir = ir_identities(ctx, R6, 'drivers/c04_alg_vec.cpp', VEC_H, 400, defer_fragment=deferred_ir) or {}
    for i, tu in enumerate(tus):
        label = '' if i == 0 else ' ' + ('%s%s' % (jobs[i].get('std', ''), '' if jobs[i].get('simd', True) else 'NO_SIMD'))
        fams, fams_typed, uncl, n_pat, n_typed, covered, by_loc = analyse(ctx, tu, label, ir)
        if i == 0:
            # identities whose IR is outside the fragment irnorm decides (not evidence either way): the operator they exercise
            # stands on the verdict of its typed AST instantiation - ok only if that instantiation is decided
            for ident, iinst, iloc, why in deferred_ir:
                st = ctx._c04_astcov.get(ident, [])
                if st and all(st):
                    ctx.ok(R6, iinst, 'the IR of this instantiation is outside the fragment the value-graph comparison decides (%s); the '
                                      'operator it exercises is decided on its typed AST instantiation (R-C04-1/2) instead' % why[:120], iloc)
                else:
                    ctx.undecided(R6, iinst, 'outside the decided IR fragment: %s' % why, iloc)
        nl = check_layout(ctx, tu)
        nres = check_driver_resolution(ctx, tu)
        nlerp = check_lerp(ctx, tu)
        check_alignment(ctx, tu)
        if i == 0:
            ctx.floor(R3, nlerp, 3, 'lerp pattern + typed instantiations on vec_t operands in the driver')
        if i == 0:
            ctx.floor(R7, nres, 500, 'operator uses on vec_t operands in drivers/c04_vec.cpp')
            total = sum(fams.values()) + len(uncl)
            lines = ['%d x %s' % (c, k) for k, c in sorted(fams.items())]
            ctx.note('vec.h: %d template patterns / non-template functions classified: %s; unclassified: %d' % (
                total - len(uncl), '; '.join(lines), len(uncl)))
            ctx.note('vec.h: %d typed instantiations analysed (%s); %d of the checked patterns have at least one typed instance; '
                     '%d vec_t record layouts' % (n_typed, '; '.join('%d x %s' % (c, k) for k, c in sorted(fams_typed.items())),
                                                 len(covered), nl))
            ctx.extra['families'] = dict(fams)
            ctx.extra['families_typed'] = dict(fams_typed)
            ctx.floor(R1, n_pat, 150, 'overload instances (template patterns) of vec.h analysed; 220 on the pinned tree')
            ctx.floor(R2, n_typed, 600, 'typed instantiations through drivers/c04_vec.cpp; ~1300 on the pinned tree')
            ctx.floor(R5, nl, 20, 'vec_t record layouts instantiated by the driver (5 element types x 4 shapes)')
            per_rule = collections.Counter(o['rule'] for o in ctx.obl)
            for r, mn in ((R1, 600), (R2, 600), (R3, 220), (R4, 120), (R5, 200)):
                ctx.floor(r, per_rule[r], mn, 'rule instances on the pinned tree')
    # compile-time witnesses
    for comp in (['clang++'] + (['g++'] if ctx.tier == 'thorough' else [])):
        rc, err = ctx.front.compile_check('witness/c04_layout.cpp', compiler=comp)
        inst = 'witness/c04_layout.cpp [%s]' % comp
        if rc == 0:
            ctx.ok(R5, inst, 'offsetof/sizeof static_asserts for 10 element types x 4 shapes and result types of the mixed '
                             'overloads hold', 'verif:witness/c04_layout.cpp')
        else:
            m = re.findall(r'c04_layout\.cpp:(\d+):\d+: error: (.*)', err)
            if m and all('static_assert' in x[1] or 'static assertion' in x[1] for x in m):
                for ln, msg in m[:5]:
                    ctx.violation(R5, inst, 'layout witness fails: %s' % msg, 'verif:witness/c04_layout.cpp:%s' % ln,
                                  key='%s|%s|witness|%s' % (R5, VEC_H, re.sub(r'\s+', ' ', msg)[:80]))
            else:
                ctx.broken('witness/c04_layout.cpp does not compile with %s:\n%s' % (comp, err[-1500:]))
    from rkstatic import selftest
    selftest.run(ctx)
