"""C05 - ranges and boxes behave as closed axis-aligned sets.

Decided statically on rkcommon/math/range.h, box.h, constants.h (the +-infinity tags) and AffineSpace.h::xfmBounds,
on the template patterns (all element types / dimensions at once) and again on the typed instantiations of
drivers/c05_box.cpp.  The meaning of anyLessThan / min / max / operator- on vectors is the one C04 decides.

  R-C05-1  closedness: contains / empty / disjoint / touchingOrOverlapping / == as canonical truth tables over
           the order atoms (`<` vs `<=` and the operand order are decisive); touching == not disjoint
  R-C05-2  lattice shape: extend = (min into lower, max into upper); the empty range is (+inf, -inf) with the
           tags converting to the true identities; intersectionOf dual; clamp; constructors fill lower, upper
  R-C05-3  algebra: size, center, area, volume, scale, translate as exact polynomial normal forms
  R-C05-4  xfmBounds: exactly the 8 corner selector triples, components in their own slots, folded by extend
           into an empty box
  R-C05-5  intersectRayBox: the slab idiom
  R-C05-6  IR cross-check: identity drivers (drivers/c05_alg_box.cpp) - contains/empty/disjoint/touching/extend/
           intersectionOf/clamp/size/area/volume/scale/translate through the API equal the per-axis definition
"""
import collections
import itertools
import re
from fractions import Fraction

from rkstatic.x_vecexpr import (COMPS, FnView, Formula, Poly, bool_of_stmts, calls_in, commute, flatten, map_terms, poly,
                                rangearg, show, strip_casts, subst, subst_params, tclean, tkey, unknowns, unroll, vecshape, Inliner, ctor_fields)
from rules.C04 import Res, describe_diffs, ret_type, single_return, tdiff

LEVEL = 'other'
EXPLANATION = (
    "Every function of range.h and box.h, the +-infinity tag conversions of constants.h and xfmBounds of "
    "AffineSpace.h is classified by name and signature and its body (clang AST normalised to a term, constant "
    "locals inlined) is compared with the form its definition prescribes: predicates by canonical truth table "
    "over order atoms with anyLessThan as verified by C04 (so `<` vs `<=` and operand order decide "
    "closedness, and touchingOrOverlapping is checked to be the exact complement of disjoint), lattice "
    "operations by the min/max-into-lower/upper shape with the empty range built from the identities, "
    "size/center/area/volume/scale/translate by exact polynomial normal form, xfmBounds by the set of corner "
    "selector triples folded with extend into an empty box, intersectRayBox by the slab idiom; on template "
    "patterns (all element types and dimensions) and on typed instantiations (int/float/double ranges, "
    "box2/3/4 i/f, box3fa). Not decided: floating-point rounding (incl. the float arithmetic center()/area() use "
    "on integer boxes), NaN bounds, conditioning of the affine map, correctness of xfmPoint itself (C06).")

R1, R2, R3, R4, R5, R6, R7 = 'R-C05-1', 'R-C05-2', 'R-C05-3', 'R-C05-4', 'R-C05-5', 'R-C05-6', 'R-C05-7'
RANGE_H, BOX_H, CONST_H, AFF_H = ('rkcommon/math/range.h', 'rkcommon/math/box.h', 'rkcommon/math/constants.h',
                                  'rkcommon/math/AffineSpace.h')
LO, HI = 'lower', 'upper'


def all_conv(t):
    """drop every single-argument conversion (scalar casts, broadcast/converting vec constructors)"""
    return strip_casts(t, pred=lambda ty: True)


class Sig:
    pass


def signature(tu, f):
    s = Sig()
    d = tu.node(f['id']) or {}
    s.name = d.get('name') or f['q'].split('::')[-1]
    s.kind = d.get('kind', '')
    s.rec = f.get('rec')
    s.params = []
    for p in f['params']:
        ct = p['ct']
        c = tclean(ct)
        ra = rangearg(ct)
        if ra is not None:
            s.params.append({'k': 'range', 'bound': vecshape(ra), 'ct': ct})
        elif vecshape(ct):
            s.params.append({'k': 'vec', 'sh': vecshape(ct), 'ct': ct})
        elif c.endswith('*'):
            s.params.append({'k': 'ptr', 'ct': ct})
        elif 'basic_ostream' in c:
            s.params.append({'k': 'ostream', 'ct': ct})
        elif c in ('EmptyTy', 'ZeroTy', 'OneTy'):
            s.params.append({'k': c, 'ct': ct})
        elif c.startswith('AffineSpaceT<'):
            s.params.append({'k': 'affine', 'ct': ct})
        else:
            s.params.append({'k': 'scalar', 'ct': ct, 't': c})
    s.kinds = [p['k'] for p in s.params]
    s.ret = ret_type(f['fty'])
    s.names = [p['name'] or 'arg%d' % i for i, p in enumerate(f['params'])]
    s.const = f.get('const')
    return s


def keysig(s):
    nm = s.name
    if s.kind == 'CXXConversionDecl':
        nm = 'operator ' + ('pointer' if s.ret.rstrip().endswith('*') else tclean(s.ret)) + (' const' if s.const else '')
    elif s.kind == 'CXXConstructorDecl':
        nm = nm.split('<')[0]
    def pf(p):
        if p['k'] == 'range':
            b = p['bound']
            return 'box%s' % b['n'] if b else 'range'
        if p['k'] == 'vec':
            return 'vec%s' % p['sh']['n']
        return p['k']
    return '%s%s(%s)' % ((s.rec.split('::')[-1] + '::') if s.rec else '', nm, ','.join(pf(p) for p in s.params))


def M(base, name):
    return ('m', base, name)


THIS = ('this',)


# ============================================================================================
#  R-C05-1 predicates
# ============================================================================================
def lt_atom(t):
    if t[0] == 'call' and t[1] == 'anyLessThan' and len(t[2]) == 2:
        return t
    return None


def L(a, b):
    return ('call', 'anyLessThan', (a, b))


def expand_L(t, n):
    """anyLessThan(A,B) on n-component vectors -> OR_k A.k < B.k   (meaning decided by C04 R-C04-3)"""
    def f(x):
        if x[0] == 'call' and x[1] == 'anyLessThan' and len(x[2]) == 2:
            c = None
            for k in COMPS[:n]:
                a = ('b', '<', M(x[2][0], k), M(x[2][1], k))
                c = a if c is None else ('b', '||', c, a)
            return c
        return None
    return subst(t, f)


def expand_eq(t):
    """a == b on two ranges -> lower/upper conjunction (meaning fixed by range operator== itself)"""
    def f(x):
        if x[0] == 'b' and x[1] in ('==', '!=') and x[2][0] == 'p' and x[3][0] == 'p':
            c = ('b', '&&', ('b', '==', M(x[2], LO), M(x[3], LO)), ('b', '==', M(x[2], HI), M(x[3], HI)))
            return c if x[1] == '==' else ('u', '!', c)
        return None
    return subst(t, f)


def fam_predicate(res, s, v, spec, what, n=None, expand=False):
    def comp_of_index(x):
        if x[0] == 'idx' and x[1][0] == 'm' and x[1][2] in (LO, HI) and x[2][0] == 'lit' and x[2][1].denominator == 1 and 0 <= x[2][1] < 4:
            return M(x[1], COMPS[int(x[2][1])])
        return x
    t = bool_of_stmts([map_terms(st, comp_of_index) for st in unroll(list(v.body()))])
    if t is None:
        res.und(R1, '%s: body is not a Boolean expression / if-return chain' % what)
        return
    t = all_conv(expand_eq(t))
    g = spec
    if what == 'touchingOrOverlapping' and (n is None or not isinstance(n, int) or n >= 2) and len(s.kinds) == 2:
        # "two boxes meet iff one holds a corner of the other": a pure disjunction of X.contains(Y.lower|Y.upper) tests is false for
        # every pair that crosses like a plus sign (a wider on one axis, b wider on another) although the boxes share points
        ds = flatten(t, '||')
        boxes = {('p', 0), ('p', 1)}
        if len(ds) >= 2 and all(d[0] == 'mcall' and d[1] == 'contains' and d[2] in boxes and len(d[3]) == 1 and d[3][0][0] == 'm'
                                and d[3][0][2] in (LO, HI) and d[3][0][1] in boxes - {d[2]} for d in ds):
            res.bad(R1, 'touchingOrOverlapping is decided by corner containment (`%s`): two closed boxes can share points without either '
                        'holding the lower or upper corner of the other - a = [0,3]x[1,2], b = [1,2]x[0,3] cross like a plus sign, every '
                        'contains() test is false, yet [1,2]x[1,2] lies in both; the definition is the per-axis interval test (not '
                        'disjoint: a.lower <= b.upper and b.lower <= a.upper on every axis)' % show(t, s.names)[:200], 'corner-containment')
            return
    # a sibling predicate used by name stands for its own (separately decided) meaning
    dis = lambda A, B: ('b', '||', L(M(A, HI), M(B, LO)), L(M(B, HI), M(A, LO)))

    def delegates_back(name):
        for g in v.tu.functions.values():
            if g['dep'] and not g.get('rec') and v.tu.fn_file(g) == BOX_H and (v.tu.node(g['id']) or {}).get('name') == name:
                if s.name in calls_in(tuple(FnView(v.tu, g).body())):
                    return True
        return False

    def sibling(x):
        if x[0] == 'call' and len(x[2]) == 2 and x[1] != s.name and x[1] in ('disjoint', 'touchingOrOverlapping') \
                and not delegates_back(x[1]):
            if x[1] == 'disjoint':
                return dis(x[2][0], x[2][1])
            if x[1] == 'touchingOrOverlapping':
                return ('u', '!', dis(x[2][0], x[2][1]))
        return x
    t = map_terms(t, sibling)
    rect = v.f.get('rect')
    if rect and not v.f['dep'] and rangearg(rect) is not None and vecshape(rangearg(rect)) is None:
        # typed instantiation on a scalar bound: anyLessThan(a, b) is the scalar a < b (range.h, decided as `scalar anyLessThan`)
        def scalar_lt(x):
            if x[0] == 'call' and x[1] == 'anyLessThan' and len(x[2]) == 2:
                return ('b', '<', x[2][0], x[2][1])
            return x
        t, g = map_terms(t, scalar_lt), map_terms(g, scalar_lt)
    computed = []

    def scan_atoms(x):
        if x[0] == 'b' and x[1] in ('<', '>', '<=', '>=', '==', '!=') and (calls_in(x[2]) or calls_in(x[3])):
            computed.append(show(x, s.names))
        return x
    map_terms(t, scan_atoms)
    diffs = []

    def is_bound(x):
        return (x[0] == 'm' and x[2] in (LO, HI)) or x[0] in ('p', 'this')

    def is_difference(x):
        x = all_conv(x)
        if x[0] == 'mcall' and x[1] == 'size' and not x[3]:
            return True
        return x[0] == 'b' and x[1] == '-' and is_bound(all_conv(x[2])) and is_bound(all_conv(x[3]))

    def is_zero(x):
        x = all_conv(x)
        return x == ('lit', Fraction(0)) or (x[0] == 'g' and x[1] == 'zero')

    def scan_lt(x):
        if x[0] == 'call' and x[1] == 'anyLessThan' and len(x[2]) == 2:
            a, b = x[2]
            if (is_difference(a) and is_zero(b)) or (is_zero(a) and is_difference(b)):
                diffs.append(show(x, s.names))
            elif calls_in(a) or calls_in(b):
                computed.append(show(x, s.names))
        elif x[0] == 'b' and x[1] in ('<', '>', '<=', '>=') and ((is_difference(x[2]) and is_zero(x[3])) or (is_zero(x[2]) and is_difference(x[3]))):
            diffs.append(show(x, s.names))
        return x
    map_terms(t, scan_lt)
    rounded = []

    def scan_rounded(x):
        if x[0] in ('b', 'call') and (x[0] == 'call' and x[1] == 'anyLessThan' or x[0] == 'b' and x[1] in ('<', '>', '<=', '>=', '==', '!=')):
            ops_ = x[2] if x[0] == 'call' else (x[2], x[3])
            for o in ops_:
                cs = calls_in(o)
                halves = []
                map_terms(o, lambda y: (halves.append(y), y)[1] if (y[0] == 'b' and y[1] == '/') else y)
                if 'center' in cs or halves:
                    rounded.append(show(x, s.names))
                else:
                    arith = []
                    map_terms(all_conv(o), lambda y: (arith.append(y), y)[1] if (y[0] == 'b' and y[1] in ('+', '-', '*')) or (
                        y[0] == 'mcall' and y[1] == 'size') else y)
                    if arith and not ((is_difference(o) and any(is_zero(q) for q in ops_))):
                        oo = all_conv(o)
                        if oo[0] == 'b' and oo[1] in ('+', '-') and (bound_like(oo[2]) != bound_like(oo[3])):
                            tolerance.append(show(x, s.names))
                        else:
                            arithmetic.append(show(x, s.names))
        return x
    arithmetic, tolerance = [], []

    def bound_like(y):
        y = all_conv(y)
        while y[0] == 'm' and y[2] in COMPS:
            y = y[1]
        return (y[0] == 'm' and y[2] in (LO, HI)) or y[0] == 'p'
    map_terms(t, scan_rounded)
    if tolerance and not rounded:
        src_ = v.f.get('rect') or next((p_['ct'] for p_ in v.f['params'] if rangearg(p_['ct']) is not None), None)
        if not v.f['dep'] and src_ and elem_of(src_) in INT_BITS:
            res.und(R1, '%s on integer element type %s compares against a bound shifted by `%s`; whether the shift is zero for integers is '
                        'not decided here (the floating-point instances are)' % (what, elem_of(src_), tolerance[0][:80]))
            return
        res.bad(R1, '%s compares against a bound shifted by a tolerance (`%s`): boxes separated by a gap no larger than the tolerance are '
                    'reported as touching although they share no point (closed-set semantics: touching means equal faces), and the '
                    'answer disagrees with disjoint() / intersectionOf()' % (what, tolerance[0][:140]), 'tolerance-operand')
        return
    if arithmetic and not rounded:
        res.bad(R1, '%s decides on sums / differences of the bounds (`%s`) instead of comparing the bounds themselves: comparing '
                    'differences is equivalent to comparing the bounds only for a non-empty range and exact arithmetic - for an empty '
                    '(inverted) range `upper - lower` is negative, i.e. wraps to a huge value in unsigned arithmetic, so the test accepts '
                    'almost every point; floating-point sums round (boxes sharing exactly a face are mis-decided) and are inf - inf = NaN '
                    'for the empty box; integer sums can overflow' % (what, arithmetic[0][:160]), 'arithmetic-operand')
        return
    if rounded:
        res.bad(R1, '%s decides on quantities obtained by halving (`%s`): center() is (lower+upper)/2, which truncates for integer '
                    'element types (and rounds for floating point), so boxes whose bound sums are odd are mis-decided on the boundary; '
                    'a closedness predicate must compare the bounds themselves' % (what, rounded[0][:140]), 'rounded-operand')
        return
    if diffs:
        res.bad(R1, '%s tests the sign of a difference of the bounds (`%s`) instead of comparing the bounds: for integer bounds more '
                    'than 2^31 apart the subtraction overflows - in particular for the default empty box (INT_MAX, INT_MIN) - so the '
                    'order of the bounds is not what is tested' % (what, diffs[0][:120]), 'difference-compare')
        return
    if computed:
        # e.g. `clamp(t) == t`: the compared value is itself a function of the bounds, so its order relation to t is not a
        # free atom; the truth-table form does not apply (the IR identities R-C05-6 decide such a body)
        res.und(R1, '%s: compares a computed value (%s); not an order atom over bounds and points' % (what, '; '.join(computed[:2])))
        return
    if expand and isinstance(n, int):
        t, g = expand_L(t, n), expand_L(g, n)
    names = s.names
    opaque = lambda x: ('anyLessThan(%s, %s)' % (show(x[2][0], names), show(x[2][1], names))) if lt_atom(x) else None
    fm = Formula(opaque=opaque, names=names)
    fm.scan(t)
    fm.scan(g)
    if fm.bad:
        res.und(R1, '%s: atom(s) not recognised as order comparisons: %s' % (what, ', '.join(fm.bad[:3])))
        return
    d = fm.compare(t, g)
    if d is None:
        res.ok(R1, '%s: canonical form equals %s' % (what, show(spec, names)))
    else:
        res.bad(R1, '%s is not `%s`: for %s' % (what, show(spec, names), d), 'truth-table')


# ============================================================================================
#  R-C05-2 lattice shape
# ============================================================================================
def minmax_call(t):
    """('min'|'max', {args}) for a two-argument min/max call"""
    t = all_conv(t)
    if t[0] == 'call' and t[1] in ('min', 'max') and len(t[2]) == 2:
        return t[1], t[2]
    return None


def fam_extend(res, s, v):
    names = s.names
    arg = ('p', 0)
    if s.kinds == ['range']:
        alo, ahi = M(arg, LO), M(arg, HI)
    else:
        alo = ahi = arg
    eff = {}
    if s.kinds == ['range']:
        pts = [st[1][3][0] for st in v.body() if st[0] == 'expr' and st[1][0] == 'mcall' and st[1][1] == 'extend' and st[1][2] == THIS
               and len(st[1][3]) == 1]
        if len(pts) == 2 and {all_conv(x) for x in pts} == {alo, ahi} and len([st for st in v.body() if st[0] != 'ret']) == 2:
            res.bad(R2, 'extend(range) is performed as extend(%s); extend(%s): both bounds of the argument are folded into both bounds '
                        'of this range, so an empty (inverted) argument - the identity of extend - enlarges the range to its bounds' % (
                            show(pts[0], names), show(pts[1], names)), 'extend-by-points')
            return
    for st in v.body():
        if st[0] == 'expr' and st[1][0] == 'asg' and st[1][1] == '=' and st[1][2][0] == 'm' and st[1][2][1] == THIS:
            fld = st[1][2][2]
            if fld in eff:
                res.und(R2, 'extend: bound %s assigned twice' % fld)
                return
            eff[fld] = st[1][3]
        elif st[0] == 'ret' and st[1] is None:
            continue
        else:
            res.und(R2, 'extend: statement not recognised: %s' % (show(st[1], names) if len(st) > 1 and isinstance(st[1], tuple) else st[0]))
            return
    bad = False
    for fld, fn, a in ((LO, 'min', alo), (HI, 'max', ahi)):
        if fld not in eff:
            res.bad(R2, 'extend never updates `%s` (the result does not contain the argument)' % fld, 'extend-%s-missing' % fld)
            bad = True
            continue
        mm = minmax_call(eff[fld])
        if mm is None:
            res.und(R2, 'extend: `%s = %s` is not a min/max of the old bound and the argument' % (fld, show(eff[fld], names)))
            bad = True
            continue
        got_fn, args = mm
        want = {M(THIS, fld), a}
        problems = []
        if got_fn != fn:
            problems.append('uses %s where %s is required' % (got_fn, fn))
        if set(args) != want:
            problems.append('combines %s, required %s' % (' and '.join(show(x, names) for x in args),
                                                          ' and '.join(sorted(show(x, names) for x in want))))
            known = {M(THIS, LO), M(THIS, HI), alo, ahi, arg}
            if not set(args) <= known:
                res.und(R2, 'extend: `%s = %s`: operand not recognised' % (fld, show(eff[fld], names)))
                bad = True
                continue
        if problems:
            res.bad(R2, 'extend: `%s = %s` %s' % (fld, show(eff[fld], names), '; '.join(problems)), 'extend-' + fld)
            bad = True
    if not bad:
        res.ok(R2, 'extend: lower = min(lower, %s), upper = max(upper, %s)' % (show(alo, names), show(ahi, names)))


def fam_clamp(res, s, v):
    names = s.names
    t = single_return(v)
    if t is None:
        res.und(R2, 'clamp: body is not a single return')
        return
    lo, hi, x = M(THIS, LO), M(THIS, HI), ('p', 0)
    c = commute(all_conv(t), ops=(), calls=('min', 'max'))
    acc = [commute(e, ops=(), calls=('min', 'max')) for e in (
        ('call', 'max', (lo, ('call', 'min', (x, hi)))), ('call', 'min', (hi, ('call', 'max', (x, lo)))))]
    if c in acc:
        res.ok(R2, 'clamp(t) = %s' % show(t, names))
        return
    ds = []
    tdiff(c, acc[0], ds)
    ds2 = []
    tdiff(c, acc[1], ds2)
    if len(ds2) < len(ds):
        ds = ds2
    kinds = {d[0] for d in ds}
    msg = 'clamp is `%s`, required max(lower, min(t, upper)) or min(upper, max(t, lower)): %s' % (show(t, names), describe_diffs(ds, names))
    if 'other' in kinds or unknowns(c):
        res.und(R2, msg)
    else:
        res.bad(R2, msg, 'clamp')


def range_delegation_target(tu, f, v, args):
    """constructor selected by a delegating initialiser of range_t: the resolved callee in a typed instantiation; in the
    template pattern the unique other constructor with that many parameters, all of the bound type T, provided every
    argument visibly has type T (a parameter of type T, an element of a T* parameter, or an explicit T(...) conversion)"""
    node = getattr(v, 'delegate_node', None)
    if node is not None:
        g = tu.callee_fn(tu.strip(node)) or tu.callee_fn(node)
        if g is not None:
            return g
    if not f['dep']:
        return None
    fs = signature(tu, f)

    def is_T(a):
        if a[0] == 'p' and a[1] < len(fs.params):
            return fs.params[a[1]]['k'] in ('scalar', 'vec')
        if a[0] == 'idx' and a[1][0] == 'p':
            return fs.params[a[1][1]]['k'] == 'ptr'
        if a[0] == 'ctor' and a[1] in ('T', 'bound_t', 'type-parameter-0-0') and len(a[2]) == 1:
            return True
        return False
    if not all(is_T(a) for a in args):
        return None
    cands = []
    for g in tu.functions.values():
        if g['dep'] and g.get('ctor') and g.get('recid') == f.get('recid') and g['id'] != f['id'] and len(g['params']) == len(args) \
                and not g.get('implicit'):
            gs = signature(tu, g)
            if all(p['k'] in ('scalar', 'vec') for p in gs.params):
                cands.append(g)
    return cands[0] if len(cands) == 1 else None


def fam_ctor(res, s, v):
    names = s.names
    raw, why = ctor_fields(v.tu, v.f, v, lambda f_, v_, args: range_delegation_target(v.tu, f_, v_, args))
    if raw is None:
        res.und(R2, 'constructor: %s' % why)
        return
    got = {fld: all_conv(t) for fld, t in raw.items()}
    rec = v.tu.node(v.f.get('recid')) or {}
    for fd in rec.get('inner', ()):
        if fd.get('kind') == 'FieldDecl' and fd.get('hasInClassInitializer') and fd.get('name') not in got:
            got[fd.get('name')] = ('?', 'default member initialiser')
    for st in v.body():
        if st[0] == 'expr' and st[1][0] == 'asg' and st[1][1] == '=' and st[1][2][0] == 'm' and st[1][2][1] == THIS:
            got[st[1][2][2]] = all_conv(st[1][3])
        else:
            res.und(R2, 'constructor body statement not recognised')
            return
    k = s.kinds
    gt = lambda t: v.gtypes.get(t[1]) if t[0] == 'g' else None
    what = None
    if k == [] or k == ['EmptyTy']:
        what = 'empty range'
        bad = False
        for fld, want, other in ((LO, 'PosInfTy', 'NegInfTy'), (HI, 'NegInfTy', 'PosInfTy')):
            t = got.get(fld)
            if t is None:
                res.bad(R2, 'empty-range constructor leaves `%s` uninitialised' % fld, 'empty-%s' % fld)
                bad = True
            elif gt(t) == want:
                continue
            elif gt(t) in (other, 'ZeroTy', 'OneTy') or t[0] == 'lit':
                res.bad(R2, 'empty-range constructor initialises `%s` with `%s` (%s); required the identity of %s (%s): '
                            'extend() of the empty range would not return its argument' % (
                                fld, show(t, names), gt(t) or 'literal', 'min' if fld == LO else 'max', want), 'empty-%s' % fld)
                bad = True
            else:
                res.und(R2, 'empty-range constructor: initialiser of `%s` not recognised: %s' % (fld, show(t, names)))
                bad = True
        if not bad:
            res.ok(R2, 'empty range = (pos_inf, neg_inf): identities of min / max')
        return
    if k == ['ZeroTy']:
        exp = {LO: 'ZeroTy', HI: 'ZeroTy'}
    elif k == ['OneTy']:
        exp = {LO: 'ZeroTy', HI: 'OneTy'}
    else:
        exp = None
    if exp is not None:
        bad = False
        for fld in (LO, HI):
            t = got.get(fld)
            if t is None or gt(t) is None:
                res.und(R2, 'tag constructor: initialiser of `%s` not recognised' % fld)
                bad = True
            elif gt(t) != exp[fld]:
                res.bad(R2, '%s constructor initialises `%s` with `%s`, required %s' % (k[0], fld, show(t, names), exp[fld]), 'tag-%s' % fld)
                bad = True
        if not bad:
            res.ok(R2, '%s constructor: (%s, %s)' % (k[0], exp[LO], exp[HI]))
        return
    if k in (['scalar'], ['vec']):
        want = {LO: ('p', 0), HI: ('p', 0)}
    elif k in (['scalar', 'scalar'], ['vec', 'vec']):
        want = {LO: ('p', 0), HI: ('p', 1)}
    elif k == ['ptr']:
        want = {LO: ('idx', ('p', 0), ('lit', Fraction(0))), HI: ('idx', ('p', 0), ('lit', Fraction(1)))}
    elif k == ['range']:
        want = {LO: M(('p', 0), LO), HI: M(('p', 0), HI)}
    else:
        res.und(R2, 'constructor signature (%s) not recognised' % ','.join(k))
        return
    bad = False
    for fld in (LO, HI):
        t = got.get(fld)
        if t is None:
            res.bad(R2, 'constructor(%s) never initialises `%s`' % (','.join(k), fld), 'init-' + fld)
            bad = True
            continue
        if t != want[fld]:
            ds = []
            tdiff(t, want[fld], ds)
            kinds = {d[0] for d in ds}
            msg = 'constructor(%s): `%s` is initialised with `%s`, required `%s`' % (','.join(k), fld, show(t, names), show(want[fld], names))
            if 'other' in kinds or unknowns(t):
                res.und(R2, msg)
            else:
                res.bad(R2, msg, 'init-' + fld)
            bad = True
    if not bad:
        res.ok(R2, 'constructor(%s): lower <- %s, upper <- %s' % (','.join(k), show(want[LO], names), show(want[HI], names)))


def project_bounds(t):
    """box(lo, hi).lower -> lo, box(lo, hi).upper -> hi"""
    def f(x):
        if x[0] == 'm' and x[2] in (LO, HI) and x[1][0] == 'ctor' and len(x[1][2]) == 2 and (x[1][1] or '').startswith(('range_t<', 'box_t<')):
            return x[1][2][0] if x[2] == LO else x[1][2][1]
        return x
    return map_terms(t, f)


def is_empty_box(t, v):
    t = all_conv(t)
    return (t[0] == 'g' and v.gtypes.get(t[1]) == 'EmptyTy') or (t[0] == 'ctor' and not t[2]) or \
           (t[0] == 'ctor' and len(t[2]) == 1 and is_empty_box(t[2][0], v))


def fam_intersection(res, s, v):
    names = s.names
    t = single_return(v)
    if t is not None and t[0] == '?:':
        # `test ? box(max, min) : empty`: the canonical empty box may replace the raw result only where that is empty
        c, x, y = t[1], t[2], t[3]
        keep = None
        if x[0] == 'ctor' and len(x[2]) == 2 and is_empty_box(y, v):
            keep, r = c, x
        elif y[0] == 'ctor' and len(y[2]) == 2 and is_empty_box(x, v):
            keep, r = ('u', '!', c), y
        if keep is not None:
            keep = project_bounds(keep)
            lo, hi = r[2][0], r[2][1]
            nonempty = ('u', '!', L(hi, lo))
            opaque = lambda z: ('anyLessThan(%s, %s)' % (show(z[2][0], names), show(z[2][1], names))) if lt_atom(z) else None
            impl = ('b', '||', ('u', '!', nonempty), keep)
            fm = Formula(opaque=opaque, names=names)
            fm.scan(impl)
            if fm.bad:
                res.und(R2, 'intersectionOf: emptiness test not recognised: %s' % ', '.join(fm.bad[:2]))
                return
            d = fm.compare(impl, ('lit', True))
            if d is not None:
                res.bad(R2, 'intersectionOf returns the canonical empty box although the intersection (max of lowers, min of uppers) '
                            'is not empty: it keeps the result only when `%s`, i.e. when some axis has lower < upper strictly; boxes '
                            'that share a single point, an edge or a face (lower == upper on every/that axis) lose their common '
                            'points (%s)' % (show(keep, names)[:200], d), 'intersection-empty-test')
                return
            t = r
    if t is None or t[0] != 'ctor' or len(t[2]) != 2:
        res.und(R2, 'intersectionOf: body is not `return box(lo, hi)`')
        return
    a, b = ('p', 0), ('p', 1)
    bad = False
    known = [M(a, LO), M(a, HI), M(b, LO), M(b, HI)]

    def lattice(x):
        """min/max term over the four bounds of the operands, or None"""
        x = all_conv(x)
        if x in known:
            return x
        mm_ = minmax_call(x)
        if mm_ is None:
            return None
        l, r = lattice(mm_[1][0]), lattice(mm_[1][1])
        return None if (l is None or r is None) else (mm_[0], l, r)

    def lat_eval(x, val):
        if x[0] in ('min', 'max') and len(x) == 3 and x not in known:
            return (min if x[0] == 'min' else max)(lat_eval(x[1], val), lat_eval(x[2], val))
        return val[x]
    for slot, fld, fn in ((t[2][0], LO, 'max'), (t[2][1], HI, 'min')):
        mm = minmax_call(slot)
        if mm is None or not set(all_conv(x) for x in mm[1]) <= set(known):
            # not the plain two-operand form: a bound of an operand passed through, or a nested min/max of the operands' bounds
            # (a bound clipped in place and read again).  min/max terms over a total order are equal iff they agree on every
            # assignment of the values 0..3 to the four bounds
            lt = lattice(slot)
            if lt is None:
                if mm is None:
                    res.und(R2, 'intersectionOf: %s bound `%s` is not a min/max call' % (fld, show(slot, names)))
                else:
                    res.und(R2, 'intersectionOf: operand not recognised in `%s`' % show(slot, names))
                return
            want_t = (fn, M(a, fld), M(b, fld))
            import itertools
            wit = None
            for vals in itertools.product(range(4), repeat=4):
                val = dict(zip(known, vals))
                if lat_eval(lt, val) != lat_eval(want_t, val):
                    wit = val
                    break
            if wit is None:
                continue
            res.bad(R2, 'intersectionOf: %s bound is `%s`, required %s(%s, %s): for %s it is %d, required %d%s' % (
                fld, show(slot, names), fn, show(M(a, fld), names), show(M(b, fld), names),
                ', '.join('%s = %d' % (show(k, names), wit[k]) for k in known), lat_eval(lt, wit), lat_eval(want_t, wit),
                ' (the bound of one operand is returned unclipped)' if lt in known else ''), 'intersection-' + fld)
            bad = True
            continue
        got_fn, args = mm
        args = tuple(all_conv(x) for x in args)
        want = {M(a, fld), M(b, fld)}
        pr = []
        if got_fn != fn:
            pr.append('uses %s where %s is required' % (got_fn, fn))
        if set(args) != want:
            pr.append('combines %s, required %s' % (' and '.join(show(x, names) for x in args), ' and '.join(sorted(show(x, names) for x in want))))
        if pr:
            res.bad(R2, 'intersectionOf: %s bound `%s` %s' % (fld, show(slot, names), '; '.join(pr)), 'intersection-' + fld)
            bad = True
    if not bad:
        res.ok(R2, 'intersectionOf = (max(a.lower, b.lower), min(a.upper, b.upper))')


def fam_tag_conversion(res, s, v, tu, f):
    """PosInfTy / NegInfTy :: operator X()"""
    pos = f['rec'].endswith('PosInfTy')
    X = tclean(s.ret)
    t = single_return(v)
    if t is None:
        res.und(R2, 'tag conversion: body is not a single return')
        return
    t = all_conv(t)
    neg = False
    if t[0] == 'u' and t[1] == '-':
        neg = True
        t = t[2]
    if not (t[0] == 'call' and not t[2]):
        res.und(R2, 'tag conversion: `%s` not recognised' % show(t, s.names))
        return
    q = None
    for name, qq, node in v.callees:
        if name == t[1]:
            q = qq
    m = re.match(r'std::numeric_limits<(.+)>::(\w+)$', q or '')
    if not m:
        res.und(R2, 'tag conversion: callee %s is not a std::numeric_limits member' % q)
        return
    lt, fn = m.group(1), m.group(2)
    floating = X in ('float', 'double', 'long double')
    what = '%s::operator %s' % (f['rec'].split('::')[-1], X)
    expr = ('-' if neg else '') + 'numeric_limits<%s>::%s()' % (lt, fn)
    if lt != X:
        res.bad(R2, '%s returns %s: limits of a different type' % (what, expr), 'tag-type')
        return
    if pos:
        ok = (not neg) and ((floating and fn == 'infinity') or (not floating and fn == 'max'))
        need = 'infinity()' if floating else 'max()'
    else:
        ok = (floating and neg and fn == 'infinity') or (not floating and not neg and fn in ('min', 'lowest'))
        need = '-infinity()' if floating else 'min()'
    if ok:
        res.ok(R2, '%s = %s: identity of %s on %s' % (what, expr, 'min' if pos else 'max', X))
    else:
        res.bad(R2, '%s returns %s, which is not the identity of %s over all %s values (required %s)' % (
            what, expr, 'min' if pos else 'max', X, need), 'tag-value')


# ============================================================================================
#  R-C05-3 algebra
# ============================================================================================
class Alg:
    """symbolic component algebra over boxes: terms -> Poly (scalar) / component Polys (vector)"""

    def __init__(self, s, n):
        self.s, self.n = s, n
        self.names = s.names

    def atom(self, t, k=None):
        a = show(t, self.names)
        return Poly.atom(a if k is None else '%s.%s' % (a, k))

    def vec(self, t, k):
        """component k of a vector-valued term (None if not understood)"""
        t0 = t
        if t[0] == 'ctor' and len(t[2]) == 1:
            return self.vec(t[2][0], k) if self.is_vec(t[2][0]) else self.sc(t[2][0])
        if t[0] == 'm' and t[2] in (LO, HI):
            return self.atom(t, k)
        if t[0] == 'p' and self.s.params[t[1]]['k'] == 'vec':
            return self.atom(t, k)
        if t[0] == 'mcall' and t[1] == 'size' and not t[3]:
            return self.vec(M(t[2], HI), k) - self.vec(M(t[2], LO), k)
        if t[0] == 'mcall' and t[1] == 'center' and not t[3]:
            return (self.vec(M(t[2], HI), k) + self.vec(M(t[2], LO), k)).scale(Fraction(1, 2))
        if t[0] == 'b' and t[1] in ('+', '-', '*'):
            a = self.vec(t[2], k) if self.is_vec(t[2]) else self.sc(t[2])
            b = self.vec(t[3], k) if self.is_vec(t[3]) else self.sc(t[3])
            if a is None or b is None:
                return None
            return a + b if t[1] == '+' else a - b if t[1] == '-' else a * b
        if t[0] == 'u' and t[1] == '-':
            a = self.vec(t[2], k)
            return None if a is None else -a
        return None

    def is_vec(self, t):
        if t[0] == 'm' and t[2] in (LO, HI):
            return True
        if t[0] == 'p':
            return self.s.params[t[1]]['k'] == 'vec'
        if t[0] == 'mcall' and t[1] in ('size', 'center'):
            return True
        if t[0] == 'b' and t[1] in ('+', '-', '*'):
            return self.is_vec(t[2]) or self.is_vec(t[3])
        if t[0] == 'u':
            return self.is_vec(t[2])
        if t[0] == 'ctor' and t[1] and t[1].startswith('vec_t<') and len(t[2]) == 1:
            return True
        return False

    def sc(self, t):
        if t[0] == 'lit' and not isinstance(t[1], bool):
            return Poly.const(t[1])
        if t[0] == 'ctor' and len(t[2]) == 1:
            return self.sc(t[2][0])
        if t[0] == 'm' and t[2] in COMPS and self.is_vec(t[1]):
            return self.vec(t[1], t[2])
        if t[0] == 'mcall' and t[1] in ('product', 'sum') and not t[3] and self.is_vec(t[2]) and isinstance(self.n, int):
            acc = None
            for k in COMPS[:self.n]:
                c = self.vec(t[2], k)
                if c is None:
                    return None
                acc = c if acc is None else (acc * c if t[1] == 'product' else acc + c)
            return acc
        if t[0] == 'b' and t[1] in ('+', '-', '*'):
            a, b = self.sc(t[2]), self.sc(t[3])
            if a is None or b is None:
                return None
            return a + b if t[1] == '+' else a - b if t[1] == '-' else a * b
        if t[0] == 'u' and t[1] in ('-', '+'):
            a = self.sc(t[2])
            return None if a is None else (-a if t[1] == '-' else a)
        if t[0] == 'p' and self.s.params[t[1]]['k'] == 'scalar':
            return self.atom(t)
        return None


def fam_poly(res, s, v, expected, what):
    """generic bound type: lower / upper / parameters are commutative atoms"""
    t = single_return(v)
    if t is None:
        res.und(R3, '%s: body is not a single return' % what)
        return
    if t[0] == 'mcall' and not t[3] and t[1] == what and t[2] == ('p', 0):
        res.ok(R3, '%s(b) forwards to b.%s()' % (what, what))
        return
    t = all_conv(t)
    if unknowns(t):
        res.und(R3, '%s: expression not understood: %s' % (what, show(t, s.names)))
        return
    pa, pe = poly(t, names=s.names), poly(expected, names=s.names)
    if not pa.atoms() <= pe.atoms() | {show(M(THIS, LO), s.names), show(M(THIS, HI), s.names)}:
        res.und(R3, '%s: terms outside the polynomial fragment: %s' % (what, show(t, s.names)))
    elif pa == pe:
        res.ok(R3, '%s = %r' % (what, pe))
    else:
        res.bad(R3, '%s computes `%r`, the definition is `%r`' % (what, pa, pe), 'polynomial')


def fam_range_arith(res, s, v, op, tu=None):
    """range op scalar / scalar op range -> range(lower op s, upper op s)"""
    names = s.names
    t = single_return(v)
    ri = s.kinds.index('range')
    si = 1 - ri
    if t is not None and t[0] == 'b' and t[1] == op and tu is not None:
        # `return range * scale;`: forwards to the sibling overload with the operands in its order
        sib = None
        for nm, q, node in v.callees:
            if nm == 'operator' + op:
                g = tu.callee_fn(node)
                if g is not None and tu.fn_file(g) == RANGE_H and g['id'] != v.f['id']:
                    sib = g
        if sib is None and v.f['dep']:
            cands = [g for g in tu.functions.values() if g['dep'] and not g.get('rec') and tu.fn_file(g) == RANGE_H and g['id'] != v.f['id']
                     and (tu.node(g['id']) or {}).get('name') == 'operator' + op and len(g['params']) == 2]
            cands = [g for g in cands if [p['k'] for p in signature(tu, g).params] == [
                ('range' if x[0] == 'p' and s.params[x[1]]['k'] == 'range' else 'scalar' if x[0] == 'p' else '?') .replace('scalar', s.params[si]['k'])
                for x in (t[2], t[3])]]
            sib = cands[0] if len(cands) == 1 else None
        if sib is not None:
            body = single_return(FnView(tu, sib))
            if body is not None:
                t = subst_params(body, (t[2], t[3]))
    if t is not None and t[0] == 'b' and t[1] in ('+', '-', '*', '/') and t[1] != op and {t[2], t[3]} == {('p', ri), ('p', si)}:
        res.bad(R3, 'operator%s(range) forwards to `%s`: a different operation on the same operands' % (op, show(t, names)), 'arith-forward')
        return
    if t is None or t[0] != 'ctor' or len(t[2]) != 2:
        res.und(R3, 'operator%s(range): body is not `return range(lo, hi)`' % op)
        return
    bad = False
    for slot, fld in ((t[2][0], LO), (t[2][1], HI)):
        mm = minmax_call(slot)
        if mm is not None:
            both = {poly(('b', op, M(('p', ri), b_), ('p', si)), names=names) for b_ in (LO, HI)}
            if {poly(all_conv(x), names=names) for x in mm[1]} == both:
                res.bad(R3, 'operator%s(range): the %s bound of the result is `%s`: the two transformed bounds are re-ordered with '
                            'min/max, so the empty range (lower > upper, e.g. (+inf,-inf)) becomes a non-empty one (the whole line) '
                            'instead of staying empty; the definition transforms lower and upper separately' % (op, fld, show(slot, names)),
                        'arith-reordered')
                return
        e = ('b', op, M(('p', ri), fld), ('p', si))
        a = all_conv(slot)
        if unknowns(a):
            res.und(R3, 'operator%s(range): %s not understood' % (op, show(slot, names)))
            return
        pa, pe = poly(a, names=names), poly(e, names=names)
        if pa != pe:
            allowed = {show(M(('p', ri), LO), names), show(M(('p', ri), HI), names), show(('p', si), names)}
            if not pa.atoms() <= allowed:
                res.und(R3, 'operator%s(range): %s bound `%s` outside the polynomial fragment' % (op, fld, show(slot, names)))
            else:
                res.bad(R3, 'operator%s(range): the %s bound of the result is `%r`, required `%r`' % (op, fld, pa, pe), 'arith-' + fld)
            bad = True
    if not bad:
        res.ok(R3, 'operator%s: (lower %s s, upper %s s)' % (op, op, op))


def fam_measure(res, s, v, what, n):
    """area / volume of a box of fixed dimension n"""
    names = s.names
    t = single_return(v)
    if t is None:
        res.und(R3, '%s: body is not a single return' % what)
        return
    if unknowns(t):
        res.und(R3, '%s: expression not understood: %s' % (what, show(t, names)))
        return
    al = Alg(s, n)
    pa = al.sc(t)
    if pa is None:
        res.und(R3, '%s: expression outside the component algebra: %s' % (what, show(t, names)))
        return
    b = ('p', 0)
    d = [al.vec(M(b, HI), k) - al.vec(M(b, LO), k) for k in COMPS[:n]]
    if what == 'area' and n == 2:
        pe = d[0] * d[1]
    elif what == 'area' and n == 3:
        pe = (d[0] * d[1] + d[0] * d[2] + d[1] * d[2]).scale(2)
    elif what == 'volume' and n == 3:
        pe = d[0] * d[1] * d[2]
    else:
        res.und(R3, '%s of a %s-dimensional box has no definition here' % (what, n))
        return
    if pa == pe:
        res.ok(R3, '%s(box%d) equals its definition (%d monomials)' % (what, n, len(pe.t)))
    else:
        diff = pa - pe
        res.bad(R3, '%s(box%d) differs from its definition by `%r`' % (what, n, diff), 'polynomial')


# ============================================================================================
#  R-C05-4 xfmBounds
# ============================================================================================
def uninline_xfmpoint(t, tu, m):
    """if t is the body of xfmPoint(m, p) (read from AffineSpace.h) written out for some point whose coordinates are X, Y, Z,
    return xfmPoint(m, (X, Y, Z)); else t"""
    if t[0] == 'call' and t[1] == 'xfmPoint':
        return t
    cands = [g for g in tu.functions.values() if g['dep'] and tu.fn_file(g) == AFF_H and (tu.node(g['id']) or {}).get('name') == 'xfmPoint'
             and len(g['params']) == 2]
    if len(cands) != 1:
        return t
    body = single_return(FnView(tu, cands[0]))
    if body is None:
        return t
    tmpl, term = all_conv(body), all_conv(t)
    holes = {}

    def unify(a, b):
        if a[0] == 'm' and a[1] == ('p', 1) and a[2] in COMPS[:3]:
            if a[2] in holes and holes[a[2]] != b:
                return False
            holes[a[2]] = b
            return True
        if a == ('p', 0):
            return b == m
        if a[0] == 'm' and b[0] == 'm':
            return a[2] == b[2] and unify(a[1], b[1])
        if not (isinstance(a, tuple) and isinstance(b, tuple)) or len(a) != len(b) or a[0] != b[0]:
            return False
        for x, y in zip(a[1:], b[1:]):
            if isinstance(x, tuple) and isinstance(y, tuple):
                if x and isinstance(x[0], str):
                    if not unify(x, y):
                        return False
                else:
                    if len(x) != len(y) or not all(unify(p_, q_) for p_, q_ in zip(x, y)):
                        return False
            elif x != y:
                return False
        return True
    if unify(tmpl, term) and set(holes) == set(COMPS[:3]):
        return ('call', 'xfmPoint', (m, ('ctor', 'vec_t<corner>', (holes['x'], holes['y'], holes['z']))))
    return t


def corner_image(t, m, b):
    """selector triple if t is xfmPoint(m, corner of b) (corner: b.lower / b.upper / vec(b.S.x, b.S.y, b.S.z)), else None"""
    if not (t[0] == 'call' and t[1] == 'xfmPoint' and len(t[2]) == 2 and t[2][0] == m):
        return None
    c = all_conv(t[2][1])
    if c[0] == 'm' and c[1] == b and c[2] in (LO, HI):
        return (c[2],) * 3
    if c[0] == 'ctor' and len(c[2]) == 3:
        sel = []
        for k, a in enumerate(c[2]):
            a = all_conv(a)
            if a[0] == 'm' and a[1][0] == 'm' and a[1][1] == b and a[1][2] in (LO, HI) and a[2] == COMPS[k]:
                sel.append(a[1][2])
            else:
                return None
        return tuple(sel)
    return None


def member_paths(t, root, acc):
    """all maximal member-access paths rooted at `root` that occur in t, as dotted strings"""
    if not isinstance(t, tuple) or not t:
        return
    if t[0] == 'm':
        path, x = [], t
        while x[0] == 'm':
            path.append(x[2])
            x = x[1]
        if x == root:
            acc.add('.'.join(reversed(path)))
            return
    if t == root:
        acc.add('')
        return
    for x in t:
        if isinstance(x, tuple):
            member_paths(x, root, acc)


OFF_DIAGONAL = {'l.vx.y', 'l.vx.z', 'l.vy.x', 'l.vy.z', 'l.vz.x', 'l.vz.y'}


def early_return(res, s, v, guard, value, m, b):
    """a guarded `return <box>` before the corner fold.  True if a verdict was recorded."""
    names = s.names
    val = value
    if val[0] == 'ctor' and len(val[2]) == 2:
        P, Q = corner_image(all_conv(val[2][0]), m, b), corner_image(all_conv(val[2][1]), m, b)
        if P is not None and Q is not None:
            used = set()
            member_paths(guard, m, used)
            order = []
            subst(guard, lambda x: order.append(x) if (x[0] == 'b' and x[1] in ('<', '>', '<=', '>=')) else None)
            if used <= OFF_DIAGONAL and not order and not unknowns(guard):
                res.bad(R4, 'xfmBounds: a return path (taken when `%s`) builds the result directly as box(%s, %s) from %d corner '
                            'image(s) instead of folding all 8 corner images with extend; the guard does not constrain the sign of '
                            'the diagonal of the linear part, so for a mirroring transform the image of `lower` is the larger '
                            'coordinate and the returned box (lower > upper) contains no image point' % (
                                show(guard, names)[:160], show(val[2][0], names), show(val[2][1], names), len({P, Q})),
                        'early-return-two-corners')
                return True
    res.und(R4, 'xfmBounds: an additional return path (when `%s`) returns `%s`, which is not the extend-fold of the 8 corner '
                'images; its containment of the image is not decided' % (show(guard, names)[:120], show(value, names)[:160]))
    return True


def fam_xfmbounds(res, s, v):
    names = s.names
    body = unroll(list(v.body()))
    mi0, bi0 = s.kinds.index('affine'), s.kinds.index('range')
    # guarded early returns in front of the fold
    while body and body[0][0] == 'if' and not body[0][3] and len(body[0][2]) == 1 and body[0][2][0][0] == 'ret' \
            and body[0][2][0][1] is not None:
        early_return(res, s, v, body[0][1], body[0][2][0][1], ('p', mi0), ('p', bi0))
        body = body[1:]
    if len(body) == 1 and body[0][0] == 'ret' and body[0][1] is not None:
        # centre / half-extent form `box(c - h, c + h)`: the half-extent of the image of a box under the linear part L is |L| * h
        # (absolute values of the matrix entries); `abs(L * h)` - the absolute value taken after the transform - lets the terms of
        # a row with mixed signs cancel and is recognisably too small
        r = all_conv(body[0][1]) if body[0][1][0] != 'ctor' else body[0][1]
        if r[0] == 'ctor' and len(r[2]) == 2 and r[2][0][0] == 'b' and r[2][1][0] == 'b' and r[2][0][1] == '-' and r[2][1][1] == '+' \
                and r[2][0][2] == r[2][1][2] and r[2][0][3] == r[2][1][3]:
            c, h = all_conv(r[2][0][2]), all_conv(r[2][0][3])
            mm_ = ('p', mi0)
            if c[0] == 'call' and c[1] == 'xfmPoint' and c[2][:1] == (mm_,) and h[0] == 'call' and h[1] == 'abs' and len(h[2]) == 1:
                inner = all_conv(h[2][0])
                lin = (inner[0] == 'call' and inner[1] in ('xfmVector', 'xfmPoint') and inner[2][:1] == (mm_,)) or \
                      (inner[0] == 'b' and inner[1] == '*' and all_conv(inner[2]) == ('m', mm_, 'l'))
                if lin:
                    res.bad(R4, 'xfmBounds returns `box(c - h, c + h)` with the half-extent h = `%s`: the absolute value is taken after the '
                                'half-diagonal went through the transform, so in a row of the linear part with entries of mixed sign '
                                '(rotation by a non-multiple of 90 degrees, shear with a negative coefficient) the terms cancel; the '
                                'half-extent of the image is |L| * h (absolute values of the entries), and the returned box does not '
                                'contain the images of all 8 corners' % show(h, names)[:160], 'extent-abs-after-transform')
                    return
    if not body or body[0][0] != 'decl':
        res.und(R4, 'xfmBounds: does not start by declaring the result box')
        return
    dst = body[0][1]
    init = all_conv(body[0][2])
    first_corner = None
    if (init[0] == 'g' and v.gtypes.get(init[1]) == 'EmptyTy') or (init[0] == 'ctor' and not init[2]):
        pass
    elif init[0] == 'call' and init[1] == 'xfmPoint':
        first_corner = init          # box(point): starts as the degenerate box of one transformed corner
    else:
        res.und(R4, 'xfmBounds: initial value of the result is neither the empty box nor a transformed corner: %s' % show(body[0][2], names))
        return
    D = ('v', dst)
    mi = s.kinds.index('affine')
    bi = s.kinds.index('range')
    m, b = ('p', mi), ('p', bi)
    corners = []
    ret = None
    stmts = list(body[1:])
    if first_corner is not None:
        stmts.insert(0, ('expr', ('mcall', 'extend', D, (first_corner,))))
    for st in stmts:
        if st[0] == 'expr' and st[1][0] == 'mcall' and st[1][1] == 'extend' and st[1][2] == D and len(st[1][3]) == 1:
            pt = uninline_xfmpoint(st[1][3][0], v.tu, m)
            if not (pt[0] == 'call' and pt[1] == 'xfmPoint' and len(pt[2]) == 2 and pt[2][0] == m):
                res.und(R4, 'xfmBounds: extended point is not xfmPoint(m, corner): %s' % show(pt, names))
                return
            c = pt[2][1]
            if not (c[0] == 'ctor' and len(c[2]) == 3):
                res.und(R4, 'xfmBounds: corner is not a 3-component constructor expression: %s' % show(c, names))
                return
            sel = []
            for k, a in enumerate(c[2]):
                a = all_conv(a)
                if a[0] == 'm' and a[1][0] == 'm' and a[1][1] == b and a[1][2] in (LO, HI) and a[2] in COMPS:
                    if a[2] != COMPS[k]:
                        res.bad(R4, 'xfmBounds: corner `%s` puts component %s of the box into slot %s' % (
                            show(c, names), a[2], COMPS[k]), 'corner-slot')
                        return
                    sel.append(a[1][2])
                else:
                    res.und(R4, 'xfmBounds: corner coordinate not recognised: %s' % show(a, names))
                    return
            corners.append(tuple(sel))
        elif st[0] == 'ret':
            ret = st[1]
        else:
            res.und(R4, 'xfmBounds: statement not recognised: %s' % (show(st[1], names) if len(st) > 1 and isinstance(st[1], tuple) else st[0]))
            return
    if ret != D:
        res.und(R4, 'xfmBounds: does not return the accumulated box')
        return
    want = set(itertools.product((LO, HI), repeat=3))
    missing = sorted(want - set(corners))
    if missing:
        dup = [c for c, k in collections.Counter(corners).items() if k > 1]
        res.bad(R4, 'xfmBounds: %d of the 8 corners are never transformed (missing %s%s): the result need not contain the image '
                    'of the box' % (len(missing), ', '.join('(%s)' % ','.join(x) for x in missing[:3]),
                                    '; duplicated %s' % ', '.join('(%s)' % ','.join(x) for x in dup) if dup else ''), 'corner-set')
        return
    if any(it[0] != 'ok' for it in res.items):
        return
    res.ok(R4, 'xfmBounds: empty box extended by xfmPoint(m, .) of all 8 corners (lower|upper)^3, components in their own slots')


# ============================================================================================
#  R-C05-5 intersectRayBox
# ============================================================================================
ZERO = ('lit', Fraction(0))


def sign_predicate(t, x):
    """('order', formula over x vs 0) | ('signbit', negated?) | None for a Boolean term that tests the sign of x"""
    t = all_conv(t)
    neg = False
    while t[0] == 'u' and t[1] == '!':
        neg = not neg
        t = t[2]
    if t[0] == 'call' and t[1] == 'signbit' and len(t[2]) == 1 and all_conv(t[2][0]) == x:
        return ('signbit', neg)
    if t[0] == 'b' and t[1] in ('<', '>', '<=', '>=') and {all_conv(t[2]), all_conv(t[3])} == {x, ZERO}:
        f = ('b', t[1], all_conv(t[2]), all_conv(t[3]))
        return ('order', ('u', '!', f) if neg else f)
    return None


def rcp_safe_policy(tu):
    """when is rcp_safe(x) negative?  -> (kind, payload, description) from the body of rcp_safe_t / rcp_safe in rkmath.h:
    ('order', formula over x vs 0) for `x >= 0 ? m : -m`, ('signbit', False) for copysign(m, x); None if not recognised"""
    fns = [f for f in tu.functions.values() if f['q'] == 'rkcommon::math::rcp_safe_t' and f['dep']]
    if len(fns) != 1:
        return None, 'rcp_safe_t pattern not found'
    f = fns[0]
    v = FnView(tu, f)
    t = single_return(v)
    x = ('p', 0)
    if t is None or not (t[0] == 'call' and t[1] == 'rcp' and len(t[2]) == 1):
        return None, 'rcp_safe_t is not `return rcp(...)`'
    a = all_conv(t[2][0])
    if not (a[0] == '?:' and all_conv(a[3]) == x):
        return None, 'argument of rcp is not `tiny ? replacement : x`'
    tiny, sel = all_conv(a[1]), all_conv(a[2])
    if not (tiny[0] == 'b' and tiny[1] in ('<', '<=') and tiny[2] == ('call', 'abs', (x,))):
        return None, 'tiny-argument test not recognised: %s' % show(tiny, ['x'])
    mval = tiny[3]
    negm = ('u', '-', mval)
    if sel[0] == 'call' and sel[1] == 'copysign' and len(sel[2]) == 2 and all_conv(sel[2][1]) == x and all_conv(sel[2][0]) == mval:
        return ('signbit', False, 'copysign(min, x): negative exactly when the sign bit of x is set (also for -0.0)'), None
    if sel[0] == '?:' and {all_conv(sel[2]), all_conv(sel[3])} == {mval, negm}:
        sp = sign_predicate(sel[1], x)
        if sp is None:
            return None, 'sign selector of rcp_safe_t not recognised: %s' % show(sel[1], ['x'])
        kind, payload = sp
        neg_branch_is_then = all_conv(sel[2]) == negm
        if kind == 'order':
            fm = payload if neg_branch_is_then else ('u', '!', payload)
            return ('order', fm, '`%s`: negative exactly when %s' % (show(sel, ['x']), show(fm, ['x']))), None
        sb_neg = payload if neg_branch_is_then else (not payload)
        if sb_neg:
            return None, 'rcp_safe_t gives the replacement the opposite sign bit'
        return ('signbit', False, 'signbit(x) selects -min'), None
    return None, 'replacement value of rcp_safe_t not recognised: %s' % show(sel, ['x'])


def forwards_to_rcp_safe_t(tu):
    for f in tu.functions.values():
        if f['q'] == 'rkcommon::math::rcp_safe' and tu.fn_file(f) == 'rkcommon/math/rkmath.h':
            t = single_return(FnView(tu, f))
            if not (t is not None and t[0] == 'call' and t[1] == 'rcp_safe_t' and t[2] == (('p', 0),)):
                return False
    return True


def raybox_sign_ordered(res, s, v, tu):
    """the slab idiom with near/far selected per axis by a sign test on dir instead of min/max.  True if handled."""
    names = s.names
    b = v.body()
    if not (len(b) == 4 and b[0][0] == 'decl' and b[1][0] == 'decl' and b[2][0] == 'for' and b[3][0] == 'ret'):
        return False
    org, dirp, box, tr = ('p', 0), ('p', 1), ('p', 2), ('p', 3)
    cm = lambda x: commute(strip_casts(x, pred=lambda ty: not ty.startswith('vec_t<')), ops=('*',), calls=())

    def slab(bound):
        return cm(('b', '*', ('b', '-', M(box, bound), org), ('call', 'rcp_safe', (dirp,))))
    nN, nF = b[0][1], b[1][1]
    VN, VF = ('v', nN), ('v', nF)
    ini, cond, inc, lb = b[2][1], b[2][2], b[2][3], b[2][4]
    if not (len(ini) == 1 and ini[0][0] == 'decl' and all_conv(ini[0][2]) == ZERO):
        return False
    I = ('v', ini[0][1])
    n = s.params[0]['sh']['n']
    bound = ('lit', Fraction(n)) if isinstance(n, int) else ('tp', n)
    if all_conv(cond) != ('b', '<', I, bound) or inc not in (('u', 'post++', I), ('u', '++', I)):
        return False
    which = {}
    if len(lb) == 1 and lb[0][0] == 'if':
        # form (a): both slab vectors computed, then `if (P) swap(near[i], far[i])`
        for nm, init in ((nN, b[0][2]), (nF, b[1][2])):
            hit = [bd for bd in (LO, HI) if cm(init) == slab(bd)]
            if not hit:
                return False
            which[nm] = hit[0]
        if {which[nN], which[nF]} != {LO, HI}:
            return False
        if not (not lb[0][3] and len(lb[0][2]) == 1 and lb[0][2][0][0] == 'expr'):
            return False
        sw = lb[0][2][0][1]
        if not (sw[0] == 'call' and sw[1] == 'swap' and set(sw[2]) == {('idx', VN, I), ('idx', VF, I)}):
            return False
        pred_term = lb[0][1]
    elif len(lb) == 2 and all(st[0] == 'expr' and st[1][0] == 'asg' and st[1][1] == '=' and st[1][3][0] == '?:' for st in lb):
        # form (b): near[i] = P ? t_hi[i] : t_lo[i];  far[i] = P ? t_lo[i] : t_hi[i];
        sel = {}
        preds = set()
        for st in lb:
            lhs, c = st[1][2], st[1][3]
            if lhs not in (('idx', VN, I), ('idx', VF, I)):
                return False

            def slab_of(x):
                if x[0] == 'idx' and x[2] == I:
                    hit = [bd for bd in (LO, HI) if cm(x[1]) == slab(bd)]
                    return hit[0] if hit else None
                return None
            yes, no = slab_of(c[2]), slab_of(c[3])
            if yes is None or no is None or yes == no:
                return False
            sel[lhs[1][1]] = (yes, no)
            preds.add(c[1])
        if len(preds) != 1 or set(sel) != {nN, nF} or sel[nN][0] != sel[nF][1] or sel[nN][1] != sel[nF][0]:
            return False
        which = {nN: sel[nN][1], nF: sel[nF][1]}      # value when the condition is false; exchanged when it is true
        pred_term = preds.pop()
    else:
        return False
    d_i = ('idx', dirp, I)
    sp = sign_predicate(pred_term, d_i)
    if sp is None:
        res.und(R5, 'intersectRayBox: per-axis swap condition `%s` is not a sign test on dir[i]' % show(pred_term, names))
        return True
    # the returned range: which variable is joined with which bound of tRange under which reduction
    t = b[3][1]
    if not (t[0] == 'ctor' and len(t[2]) == 2):
        return False
    sides = []
    for side in t[2]:
        x = widen_reduce(strip_casts(side, pred=lambda ty: not ty.startswith('vec_t<')), v)
        if not (x[0] == 'call' and x[1] in ('reduce_max', 'reduce_min') and len(x[2]) == 1 and x[2][0][0] == 'ctor' and len(x[2][0][2]) == 2):
            return False
        sides.append((x[1], x[2][0][2][0], x[2][0][2][1]))
    problems = []
    (r0, v0, j0), (r1, v1, j1) = sides
    if {v0, v1} != {VN, VF}:
        return False
    near_var = v0
    if r0 != 'reduce_max' or r1 != 'reduce_min':
        problems.append(('slab-entry', 'entry/exit folded with %s/%s, required reduce_max/reduce_min' % (r0, r1)))
    if j0 != M(tr, LO) or j1 != M(tr, HI):
        if {j0, j1} <= {M(tr, LO), M(tr, HI)}:
            problems.append(('slab-entry', 'entry/exit joined with %s/%s, required tRange.lower/tRange.upper' % (show(j0, names), show(j1, names))))
        else:
            return False
    for kd, p in problems:
        res.bad(R5, 'intersectRayBox (sign-ordered form): ' + p, kd)
    if problems:
        return True
    # near starts as slab(which[near]); it is exchanged with the other slab when the condition holds.  With lower <= upper the
    # nearer slab is slab(lower) iff the reciprocal is non-negative: the exchange must happen exactly when rcp_safe(dir[i]) < 0
    near_name = near_var[1]
    kind, payload = sp
    swap_when = payload                      # Boolean over dir[i] (order) / negation flag (signbit)
    need_swap_when_negative = (which[near_name] == LO)
    pol, why = rcp_safe_policy(tu)
    if pol is None:
        res.und(R5, 'intersectRayBox orders the slab distances by `%s` but the sign of rcp_safe(dir) cannot be determined: %s' % (
            show(pred_term, names), why))
        return True
    if not forwards_to_rcp_safe_t(tu):
        res.und(R5, 'rcp_safe(float/double) does not simply forward to rcp_safe_t')
        return True
    pk, pp, pdesc = pol
    cond_txt = show(pred_term, names)
    if kind == 'order' and pk == 'order':
        x = ('p', 0)
        fs = subst(swap_when, lambda z: x if z == d_i else None)
        fr = pp if need_swap_when_negative else ('u', '!', pp)
        fm = Formula(names=['x'])
        fm.scan(fs)
        fm.scan(fr)
        d = fm.compare(fs, fr)
        if d is None:
            res.ok(R5, 'intersectRayBox (sign-ordered form): slabs exchanged when `%s`, which is exactly when rcp_safe(dir[i]) is %s' % (
                cond_txt, 'negative' if need_swap_when_negative else 'non-negative'))
        else:
            res.bad(R5, 'intersectRayBox exchanges the slab distances when `%s`, but the reciprocal it multiplies with is negative under '
                        'a different condition (rcp_safe: %s): for %s the entry/exit parameters come out reversed' % (cond_txt, pdesc, d),
                    'slab-sign-agreement')
        return True
    if kind == 'signbit' and pk == 'signbit':
        if (not payload) == need_swap_when_negative:
            res.ok(R5, 'intersectRayBox (sign-ordered form): slabs exchanged by the sign bit, as rcp_safe selects its sign')
        else:
            res.bad(R5, 'intersectRayBox exchanges the slab distances when the sign bit of dir[i] is %s, the opposite of the sign of '
                        'rcp_safe(dir[i])' % ('clear' if payload else 'set'), 'slab-sign-agreement')
        return True
    zero = '-0.0' if (pk == 'signbit') else 'a zero of either sign'
    res.bad(R5, 'intersectRayBox exchanges the slab distances when `%s` but multiplies with rcp_safe(dir), whose sign follows %s: '
                'the two disagree for dir[i] == %s (e.g. -0.0 < 0 is false while the reciprocal of -0.0 is negative), so the '
                'entry parameter exceeds the exit parameter for a ray through the box' % (
                    cond_txt, pdesc, zero), 'slab-sign-agreement')
    return True


def fold_with_helper_kind(tu, g):
    """'max' | 'min' if g(vec v, scalar s) returns the fold of max (min) over the components of v and s, each exactly once"""
    gs = signature(tu, g)
    if gs.kinds != ['vec', 'scalar'] or not isinstance(gs.params[0]['sh']['n'], int):
        return None
    t = single_return(FnView(tu, g))
    if t is None:
        return None
    t = all_conv(t)
    for fn in ('max', 'min'):
        leaves = flatten(t, fn)
        want = [M(('p', 0), c) for c in COMPS[:gs.params[0]['sh']['n']]] + [('p', 1)]
        if len(leaves) == len(want) and sorted(map(repr, leaves)) == sorted(map(repr, want)):
            return fn
    return None


def widen_reduce(x, v):
    """`helper(V, s)` where every overload of `helper` in the analysed headers is the max (min) fold over the components of its
    vector argument and its scalar argument means reduce_max (reduce_min) of the widened vector (V, s)"""
    tu = v.tu
    if x[0] == 'call' and x[1] in ('max', 'min') and len(x[2]) == 2:
        # max(reduce_max(V), s) is reduce_max of the widened vector (V, s); likewise for min
        for i in (0, 1):
            r, other = x[2][i], x[2][1 - i]
            if r[0] == 'call' and r[1] == 'reduce_' + x[1] and len(r[2]) == 1 and not (other[0] == 'call' and other[1].startswith('reduce_')):
                return ('call', 'reduce_' + x[1], (('ctor', 'vec_t<widened>', (r[2][0], other)),))
        # the same fold written out (e.g. a helper already inlined): max(max(V.x, V.y), max(V.z, s))
        leaves = flatten(x, x[1])
        mem = [l for l in leaves if l[0] == 'm' and l[2] in COMPS]
        rest = [l for l in leaves if not (l[0] == 'm' and l[2] in COMPS)]
        nsh = vecshape(v.f['params'][0]['ct']) if v.f['params'] else None
        nfull = nsh['n'] if nsh else None
        if len(rest) == 1 and mem and len({l[1] for l in mem}) == 1 and sorted(l[2] for l in mem) == sorted(COMPS[:len(mem)]) \
                and len(mem) >= 2 and (not isinstance(nfull, int) or len(mem) == nfull):
            return ('call', 'reduce_' + x[1], (('ctor', 'vec_t<widened>', (mem[0][1], rest[0])),))
        return x
    if not (x[0] == 'call' and len(x[2]) == 2 and x[1] not in ('reduce_max', 'reduce_min', 'min', 'max')):
        return x
    gs = []
    for nm, q, node in v.callees:
        if nm == x[1]:
            g = tu.callee_fn(node)
            if g is not None:
                gs.append(g)
    if not gs and v.f['dep']:
        gs = [g for g in tu.functions.values() if g['dep'] and not g.get('rec') and len(g['params']) == 2
              and tu.fn_file(g) in (RANGE_H, BOX_H, 'rkcommon/math/vec.h') and (tu.node(g['id']) or {}).get('name') == x[1]]
    kinds = {fold_with_helper_kind(tu, g) for g in gs}
    if not gs or len(kinds) != 1 or None in kinds:
        return x
    inl = getattr(v, 'inl', None)
    if inl is not None:
        for g in gs:
            inl.used.add(g['id'])
            inl.used_names.add(x[1])
    return ('call', 'reduce_' + kinds.pop(), (('ctor', 'vec_t<widened>', (x[2][0], x[2][1])),))


def distributed_slab(sl, bound, org, rdir, names):
    """recognised-wrong form of a slab distance: `bound*rdir - org*rdir` (the reciprocal direction multiplies the absolute
    coordinates and the two products are subtracted) where `(bound - org) * rdir` is required.  Equal as real numbers; but
    rcp_safe(0) is about 1/FLT_MIN, so for a zero direction component both products overflow as soon as |bound|, |org| > 4
    and inf - inf = NaN removes that axis from the test."""
    if not (sl[0] == 'b' and sl[1] in ('-', '+')):
        return None

    def factors(x):
        return flatten(x, '*')
    P, Q = sl[2], sl[3]
    if sl[1] == '+' and Q[0] == 'u' and Q[1] == '-':
        Q = Q[2]
    elif sl[1] == '+':
        return None
    fp, fq = factors(P), factors(Q)
    if rdir in fp and rdir in fq and len(fp) == 2 and len(fq) == 2:
        rp = [x for x in fp if x != rdir] or [rdir]
        rq = [x for x in fq if x != rdir] or [rdir]
        if rp[0] == bound and rq[0] == org:
            return ('slab distance `%s` multiplies the reciprocal direction into the absolute coordinates and subtracts the two '
                    'products; required `(%s - %s) * rcp_safe(dir)`: for a zero direction component rcp_safe is about 1/FLT_MIN, '
                    'both products overflow once |coordinate| > 4 and inf - inf = NaN drops the axis from the slab test' % (
                        show(sl, names), show(bound, names), show(org, names)))
    return None


def raybox_early_reject(res, s, v):
    """`if (org[k] >= box.upper[k] && ...) return empty;` (also inside a loop over the axes): an early exit that returns the empty
    range on an INCLUSIVE comparison of the origin with a face plane is recognisably wrong - the box is closed, an origin on the
    plane is inside that slab at t = 0.  True if a violation was recorded."""
    names = s.names
    org, box = ('p', 0), ('p', 2)

    def comp_of(x, base):
        x = all_conv(x)
        if x[0] == 'idx' and all_conv(x[1]) == base:
            return ('i', x[2])
        if x[0] == 'm' and x[2] in COMPS and all_conv(x[1]) == base:
            return ('c', x[2])
        return None

    def walk(stmts):
        for st in stmts:
            if st[0] == 'for':
                yield from walk(st[4])
            elif st[0] == 'if':
                th = [x for x in st[2]]
                if len(th) == 1 and th[0][0] == 'ret' and th[0][1] is not None and is_empty_box(th[0][1], v) and not st[3]:
                    yield st[1]
                else:
                    yield from walk(st[2])
                    yield from walk(st[3])
    hits = []
    for cond in walk(v.body()):
        def scan(x):
            if x[0] == 'b' and x[1] in ('>=', '<='):
                l, r, op = x[2], x[3], x[1]
                for a, b, o in ((l, r, op), (r, l, '<=' if op == '>=' else '>=')):
                    ko = comp_of(a, org)
                    for bound, wrong in ((HI, '>='), (LO, '<=')):
                        kb = comp_of(b, M(box, bound))
                        if ko is not None and kb is not None and ko == kb and o == wrong:
                            hits.append((show(x, names), bound))
            return x
        map_terms(cond, scan)
    if hits:
        res.bad(R5, 'intersectRayBox: early exit returns the empty range when `%s`: the comparison of the origin with the %s face plane '
                    'is inclusive, but the box is a closed set - an origin exactly on that plane lies inside the slab at t = 0, so a ray '
                    'that starts on a face (and runs along it or away from the box) has the non-empty parameter set {0} or an interval '
                    'and must not be rejected; only a strict comparison can reject' % (hits[0][0], hits[0][1]), 'early-reject-inclusive')
        return True
    return False


def fam_raybox(res, s, v, tu=None):
    names = s.names
    if any(st[0] in ('for', 'if') for st in v.body()) and raybox_early_reject(res, s, v):
        return
    t = single_return(v)
    if t is None and tu is not None and raybox_sign_ordered(res, s, v, tu):
        return
    if t is None or t[0] != 'ctor' or len(t[2]) != 2:
        res.und(R5, 'intersectRayBox: body is not `return range(near, far)`')
        return
    org, dirp, box, tr = ('p', 0), ('p', 1), ('p', 2), ('p', 3)
    cm = lambda x: commute(strip_casts(x, pred=lambda ty: not ty.startswith('vec_t<')), ops=('*',), calls=())

    def slab(bound):
        return cm(('b', '*', ('b', '-', M(box, bound), org), ('call', 'rcp_safe', (dirp,))))

    def mentions(x, y):
        hit = []
        subst(x, lambda z: hit.append(1) if z == y else None)
        return bool(hit)
    bad = False
    for side, nm, red, mm, bound in ((t[2][0], 'entry', 'reduce_max', 'min', LO), (t[2][1], 'exit', 'reduce_min', 'max', HI)):
        x = widen_reduce(strip_casts(side, pred=lambda ty: not ty.startswith('vec_t<')), v)
        if x[0] == '?:' and (x[2] in (M(tr, LO), M(tr, HI)) or x[3] in (M(tr, LO), M(tr, HI))):
            res.bad(R5, 'intersectRayBox: the %s parameter is `%s`: on one branch it is the bare tRange bound, without the reduction over '
                        'the slab planes - e.g. for an origin inside the box and a tRange that starts before the entry planes the '
                        'returned interval contains parameters whose points lie outside the box' % (nm, show(x, names)[:150]), 'slab-' + nm)
            bad = True
            continue
        if x[0] == 'mcall' and x[1] == 'clamp' and x[2] == tr and len(x[3]) == 1:
            res.bad(R5, 'intersectRayBox: the %s parameter is `%s`: the slab value is clamped into tRange instead of being joined with '
                        'tRange.%s only - an entry beyond tRange.upper is pulled back to tRange.upper (an exit before tRange.lower up to '
                        'tRange.lower), so a crossing that lies entirely outside tRange yields the non-empty interval [upper, upper] '
                        '(or [lower, lower]) instead of an empty one' % (nm, show(x, names)[:140], bound), 'slab-' + nm)
            bad = True
            continue
        shape = (x[0] == 'call' and len(x[2]) == 1 and x[2][0][0] == 'ctor' and len(x[2][0][2]) == 2
                 and x[2][0][2][0][0] == 'call' and len(x[2][0][2][0][2]) == 2)
        if not shape:
            # a written-out fold over the per-axis values and the range bound that mixes min and max is recognisably wrong
            def leaves_of(y, acc, fns):
                if y[0] == 'call' and y[1] in ('min', 'max') and len(y[2]) == 2 and not (
                        all(z[0] != 'm' or z[2] not in COMPS for z in y[2]) and y[2][0][0] == 'b'):
                    if any(z[0] == 'm' and z[2] in COMPS for z in flatten(y, y[1])):
                        fns.add(y[1])
                        for z in y[2]:
                            leaves_of(z, acc, fns)
                        return
                acc.append(y)
            acc, fns = [], set()
            leaves_of(x, acc, fns)
            mem = [l for l in acc if l[0] == 'm' and l[2] in COMPS]
            if fns == {'min', 'max'} and mem and len({l[1] for l in mem}) == 1 and len(acc) == len(mem) + 1:
                res.bad(R5, 'intersectRayBox: the %s parameter folds the per-axis slab values and the range bound with a mixture of '
                            'min and max (`%s`); required the %s over all axes and tRange.%s' % (
                                nm, show(x, names)[:160], 'maximum' if red == 'reduce_max' else 'minimum', bound), 'slab-' + nm)
                bad = True
                continue
            res.und(R5, 'intersectRayBox: the %s parameter is not reduce(vec(minmax(t0, t1), bound)): %s' % (nm, show(side, names)))
            bad = True
            continue
        got_red, inner, joined = x[1], x[2][0][2][0], x[2][0][2][1]
        got_mm, slabs = inner[1], [cm(y) for y in inner[2]]
        if got_red not in ('reduce_max', 'reduce_min') or got_mm not in ('min', 'max'):
            res.und(R5, 'intersectRayBox: %s parameter uses %s/%s, not recognised' % (nm, got_red, got_mm))
            bad = True
            continue
        pr = []
        if got_red != red:
            pr.append('folds the axes with %s where %s is required' % (got_red, red))
        if got_mm != mm:
            pr.append('takes the per-axis %s of the two slab distances where %s is required' % (got_mm, mm))
        if joined != M(tr, bound):
            if joined in (M(tr, LO), M(tr, HI)):
                pr.append('is joined with %s where tRange.%s is required' % (show(joined, names), bound))
            else:
                res.und(R5, 'intersectRayBox: %s parameter joined with `%s`, not recognised' % (nm, show(joined, names)))
                bad = True
                continue
        want = {LO: slab(LO), HI: slab(HI)}
        seen = set()
        undecided = False
        for sl in slabs:
            hit = [b_ for b_, w in want.items() if w == sl]
            if hit:
                seen.add(hit[0])
                continue
            bs = [b_ for b_ in (LO, HI) if mentions(sl, M(box, b_))]
            if len(bs) != 1:
                undecided = True
                break
            dist = distributed_slab(sl, M(box, bs[0]), org, ('call', 'rcp_safe', (dirp,)), names)
            if dist:
                seen.add(bs[0])
                pr.append(dist)
                continue
            ds = []
            tdiff(sl, want[bs[0]], ds)
            if {d[0] for d in ds} & {'other'} or unknowns(sl):
                undecided = True
                break
            seen.add(bs[0])
            pr.append('slab distance `%s` is not `%s`: %s' % (show(sl, names), show(want[bs[0]], names), describe_diffs(ds, names)))
        if undecided:
            res.und(R5, 'intersectRayBox: slab distance not recognised in the %s parameter: %s' % (nm, show(side, names)))
            bad = True
            continue
        if seen != {LO, HI} and not pr:
            pr.append('uses only the %s face(s) of the box' % ','.join(sorted(seen)))
        if pr:
            res.bad(R5, 'intersectRayBox: the %s parameter %s' % (nm, '; '.join(pr)), 'slab-' + nm)
            bad = True
    if not bad:
        res.ok(R5, 'intersectRayBox = [reduce_max(min(t_lo, t_hi), tRange.lower), reduce_min(max(t_lo, t_hi), tRange.upper)] with '
                   't_b = (box.b - org) * rcp_safe(dir)')


# ============================================================================================
#  misc views
# ============================================================================================
def fam_ptr(res, s, v):
    t = single_return(v)
    if t is None:
        res.und(R2, 'pointer view: no single return')
        return
    t = strip_casts(t, pred=lambda ty: ty.endswith('*'))
    if t[0] == 'u' and t[1] == '&' and t[2][0] == 'm' and t[2][1] == THIS:
        if t[2][2] == LO:
            res.ok(R2, 'operator T*() = &lower')
        else:
            res.bad(R2, 'pointer conversion returns the address of `%s`, not of `lower`' % t[2][2], 'pointer-base')
    else:
        res.und(R2, 'pointer view not of the form &lower: %s' % show(t, s.names))


def fam_stream(res, s, v):
    b = v.body()
    leaves = []
    for st in b:
        if st[0] == 'expr':
            lv = flatten(st[1], '<<')
            if lv[0] != ('p', 0):
                res.und(R2, 'operator<<: statement does not write to the stream')
                return
            leaves += lv[1:]
        elif st[0] == 'ret':
            if st[1] != ('p', 0):
                lv = flatten(st[1], '<<') if st[1] else []
                if lv and lv[0] == ('p', 0):
                    leaves += lv[1:]
                else:
                    res.und(R2, 'operator<<: does not return the stream')
                    return
        else:
            res.und(R2, 'operator<<: statement not recognised')
            return
    flds = [x[2] for x in leaves if x[0] == 'm' and x[1] == ('p', 1)]
    if [x for x in leaves if x[0] not in ('m', 'str')]:
        res.und(R2, 'operator<<: streamed item not recognised')
    elif flds == [LO, HI]:
        res.ok(R2, 'operator<< prints lower then upper')
    else:
        res.bad(R2, 'operator<< prints %s, required lower, upper' % ', '.join(flds), 'stream-order')


def layout(ctx, tu):
    n = 0
    for r in tu.records.values():
        if r.get('tmpl') != 'rkcommon::math::range_t' or not r.get('fields'):
            continue
        n += 1
        names = [f['name'] for f in r['fields']]
        inst = tkey(r['type'])
        key = '%s|%s|range_t|' % (R2, RANGE_H)
        if names != [LO, HI]:
            ctx.violation(R2, inst, 'fields are %s, required lower, upper (pointer view and range(const T*) rely on it)' % names,
                          RANGE_H, key=key + 'field-order')
        elif r['fields'][0]['off'] != 0 or r['fields'][1]['off'] * 2 != r['size']:
            ctx.violation(R2, inst, 'lower/upper are not two contiguous bounds: offsets %s, size %d' % (
                [f['off'] for f in r['fields']], r['size']), RANGE_H, key=key + 'contiguity')
        else:
            ctx.ok(R2, inst, 'lower at 0, upper at %d, sizeof %d' % (r['fields'][1]['off'], r['size']), RANGE_H)
    return n


# ============================================================================================
#  classifier
# ============================================================================================
def box_n(s):
    ns = {p['bound']['n'] for p in s.params if p['k'] == 'range' and p['bound']}
    return ns.pop() if len(ns) == 1 else None


def classify(tu, f, s, file):
    k = s.kinds
    name = s.name
    if f.get('implicit') or f.get('defaulted'):
        return 'compiler-generated special member', None
    lo, hi = M(THIS, LO), M(THIS, HI)
    if file == CONST_H:
        if s.rec in ('rkcommon::math::PosInfTy', 'rkcommon::math::NegInfTy') and s.kind == 'CXXConversionDecl':
            return 'infinity tag conversion', lambda res, s, v: fam_tag_conversion(res, s, v, tu, f)
        return 'other constant (not anchored)', None
    if file == AFF_H:
        if name == 'xfmBounds' and 'affine' in k and 'range' in k:
            return 'xfmBounds', fam_xfmbounds
        return 'affine algebra (C06)', None
    if file == RANGE_H:
        if s.rec == 'rkcommon::math::range_t':
            if s.kind == 'CXXConstructorDecl':
                return 'range constructor', fam_ctor
            if s.kind == 'CXXConversionDecl' and s.ret.rstrip().endswith('*'):
                return 'pointer view', fam_ptr
            if name == 'size' and not k:
                return 'size/center', lambda res, s, v: fam_poly(res, s, v, ('b', '-', hi, lo), 'size')
            if name == 'center' and not k:
                e = ('b', '*', ('lit', Fraction(1, 2)), ('b', '+', lo, hi))
                return 'size/center', lambda res, s, v: fam_poly(res, s, v, e, 'center')
            if name == 'extend' and len(k) == 1 and k[0] in ('scalar', 'vec', 'range'):
                return 'extend', fam_extend
            if name == 'clamp' and len(k) == 1:
                return 'clamp', fam_clamp
            if name == 'empty' and not k:
                return 'predicate', lambda res, s, v: fam_predicate(res, s, v, L(hi, lo), 'empty()')
            if name == 'contains' and len(k) == 1 and k[0] in ('scalar', 'vec'):
                t = ('p', 0)
                sp = ('b', '&&', ('u', '!', L(t, lo)), ('u', '!', L(hi, t)))
                return 'predicate', lambda res, s, v: fam_predicate(res, s, v, sp, 'contains(t)')
            return None, None
        if s.rec:
            return None, None
        if name == 'anyLessThan' and len(k) == 2 and 'range' not in k:
            sp = ('b', '<', ('p', 0), ('p', 1))
            return 'predicate', lambda res, s, v: fam_predicate(res, s, v, sp, 'scalar anyLessThan')
        if name == 'operator<<' and k == ['ostream', 'range']:
            return 'stream output', fam_stream
        if name in ('operator*', 'operator+') and sorted(k) in (['range', 'scalar'], ['range', 'vec']):
            op = name[-1]
            return 'scale/translate', lambda res, s, v: fam_range_arith(res, s, v, op, tu)
        if name in ('operator==', 'operator!=') and k == ['range', 'range']:
            a, b = ('p', 0), ('p', 1)
            sp = ('b', '&&', ('b', '==', M(a, LO), M(b, LO)), ('b', '==', M(a, HI), M(b, HI)))
            if name == 'operator!=':
                sp = ('u', '!', sp)
            return 'predicate', lambda res, s, v: fam_predicate(res, s, v, sp, name)
        return None, None
    if file == BOX_H:
        n = box_n(s)
        a, b = ('p', 0), ('p', 1)
        if name in ('area', 'volume') and k == ['range'] and isinstance(n, int):
            return 'area/volume', lambda res, s, v: fam_measure(res, s, v, name, n)
        dis = ('b', '||', L(M(a, HI), M(b, LO)), L(M(b, HI), M(a, LO)))
        if name == 'disjoint' and k == ['range', 'range']:
            return 'predicate', lambda res, s, v: fam_predicate(res, s, v, dis, 'disjoint', n, expand=True)
        if name == 'touchingOrOverlapping' and k == ['range', 'range']:
            return 'predicate', lambda res, s, v: fam_predicate(res, s, v, ('u', '!', dis), 'touchingOrOverlapping', n, expand=True)
        if name == 'intersectionOf' and k == ['range', 'range']:
            return 'intersectionOf', fam_intersection
        if name == 'center' and k == ['range']:
            e = ('b', '*', ('lit', Fraction(1, 2)), ('b', '+', M(a, LO), M(a, HI)))
            return 'size/center', lambda res, s, v: fam_poly(res, s, v, e, 'center')
        if name == 'intersectRayBox' and k == ['vec', 'vec', 'range', 'range']:
            return 'intersectRayBox', lambda res, s, v: fam_raybox(res, s, v, tu)
        return None, None
    return None, None


INT_BITS = {'char': 7, 'signed char': 7, 'unsigned char': 8, 'short': 15, 'unsigned short': 16, 'int': 31, 'unsigned int': 32,
            'long': 63, 'unsigned long': 64, 'long long': 63, 'unsigned long long': 64}
MANTISSA = {'float': 24, 'double': 53, 'long double': 64}


def elem_of(ct):
    """scalar element type of a range_t<...> / vec_t<...> / scalar canonical type"""
    ra = rangearg(ct)
    if ra is not None:
        ct = ra
    sh = vecshape(ct)
    return sh['elem'] if sh else tclean(ct)


def exact_on_integers(res, tu, f, s, what):
    """typed clause of R-C05-3: an instantiation on an integer element type must not route its values through a
    floating type with fewer mantissa bits than the integer has value bits (the result is then not the exact
    integer value of the definition for large operands)"""
    src = f.get('rect') or next((p['ct'] for p in f['params'] if rangearg(p['ct']) is not None), None)
    if src is None:
        return
    el = elem_of(src)
    if el not in INT_BITS:
        return
    hits = []
    for n in tu.walk(tu.body(f)):
        if not n.get('kind', '').endswith(('Expr', 'Operator')):
            continue
        sd = tu.sd(n)
        if sd.get('cv') is not None:
            continue
        ct = sd.get('ct')
        if not ct:
            continue
        e2 = elem_of(ct)
        if e2 in MANTISSA and MANTISSA[e2] < INT_BITS[el] and n.get('kind') not in ('FloatingLiteral',):
            hits.append((n, e2))
    if hits:
        n, e2 = hits[-1]
        res.bad(R3, '%s on element type %s is evaluated in %s (%d-bit mantissa < %d value bits): `%s` is not the exact integer '
                    'value of the definition once an operand exceeds 2^%d' % (what, el, e2, MANTISSA[e2], INT_BITS[el],
                                                                             tu.show(n)[:80], MANTISSA[e2]), 'int-through-float')
    else:
        res.ok(R3, '%s on %s stays in integer arithmetic' % (what, el))


def check_asserts(res, s, v, inl, what):
    """R-C05-7: an assert() in a range/box function is compiled into every build without NDEBUG; its predicate must hold for
    every non-empty argument (the only precondition the functions document), otherwise valid input aborts in those builds"""
    names = s.names
    for pred in v.asserts:
        p = inl.expr(pred) if inl is not None else pred

        def f(x):
            if x[0] == 'mcall' and x[1] == 'empty' and not x[3]:
                return L(M(x[2], HI), M(x[2], LO))
            return x
        p = all_conv(map_terms(p, f))
        boxes = [('p', i) for i, q in enumerate(s.params) if q['k'] == 'range'] + ([THIS] if s.rec == 'rkcommon::math::range_t' else [])
        pre = ('lit', True)
        for b in boxes:
            pre = ('b', '&&', pre, ('u', '!', L(M(b, HI), M(b, LO))))
        opaque = lambda z: ('anyLessThan(%s, %s)' % (show(z[2][0], names), show(z[2][1], names))) if lt_atom(z) and not (
            calls_in(z[2][0]) or calls_in(z[2][1])) else None
        impl = ('b', '||', ('u', '!', pre), p)
        fm = Formula(opaque=opaque, names=names)
        fm.scan(impl)
        if fm.bad:
            res.und(R7, '%s: assert(%s): predicate not recognised (%s)' % (what, show(pred, names)[:100], fm.bad[0][:80]))
            continue
        d = fm.compare(impl, ('lit', True))
        if d is None:
            res.ok(R7, '%s: assert(%s) holds for every non-empty argument' % (what, show(pred, names)[:100]))
        else:
            res.bad(R7, '%s: assert(%s) [= %s] fails for a valid, non-empty argument (%s) - e.g. a box that is a single point has '
                        'no axis with lower < upper: in every build without NDEBUG the call aborts although the result is well '
                        'defined, and the build configurations disagree' % (what, show(pred, names)[:100], show(p, names)[:120], d),
                    'assert-rejects-valid')


def resolved_callees(res, tu, f, v, rule):
    """typed instances: anyLessThan / min / max on vector bounds resolve to vec.h's component-wise overloads (whose meaning
    C04 decides), on scalar bounds to range.h's scalar anyLessThan / std::min / std::max"""
    for name, q, node in v.callees:
        if name not in ('anyLessThan', 'min', 'max'):
            continue
        args = tu.kids(node)[1:]
        vec_args = [a for a in args if vecshape(tu.sd(a).get('ct') or '')]
        cf = tu.callee_fn(node)
        home = tu.fn_file(cf) if cf is not None else None
        if vec_args:
            if name in ('min', 'max') and q in ('std::min', 'std::max'):
                res.bad(rule, '`%s` on vector bounds resolves to %s: it selects one whole vector by `operator<` on vec_t (a lexicographic '
                              'order) instead of taking the component-wise %s, so the bound is wrong whenever the corner ordering differs '
                              'between axes' % (name, q, name), 'std-minmax-on-vectors')
            elif home != 'rkcommon/math/vec.h':
                res.und(rule, '`%s` on vector operands resolves to %s (%s), not to the component-wise overload of vec.h' % (name, q, home))
        else:
            ok = (name == 'anyLessThan' and home == RANGE_H) or (name in ('min', 'max') and q in ('std::min', 'std::max'))
            if not ok:
                res.und(rule, '`%s` on scalar operands resolves to %s (%s)' % (name, q, home))


RULE_OF = {'predicate': R1, 'extend': R2, 'clamp': R2, 'range constructor': R2, 'intersectionOf': R2,
           'infinity tag conversion': R2, 'pointer view': R2, 'stream output': R2, 'size/center': R3,
           'scale/translate': R3, 'area/volume': R3, 'xfmBounds': R4, 'intersectRayBox': R5}


def analyse(ctx, tu, label=''):
    fams, fams_typed = collections.Counter(), collections.Counter()
    counts = collections.Counter()
    uncl = 0
    deferred, callers, inlined = [], [], set()
    for f in tu.functions.values():
        file = tu.fn_file(f)
        if file not in (RANGE_H, BOX_H, CONST_H, AFF_H):
            continue
        s = signature(tu, f)
        fam, fn = classify(tu, f, s, file)
        nontemplate = (not f['dep']) and not f.get('pat') and not (f.get('rect') and '<' in (f.get('rect') or ''))
        level = 'pattern' if (f['dep'] or nontemplate) else 'typed'
        inst = '%s%s %s' % ((f['rec'].split('::')[-1] + '::') if f.get('rec') else '', s.name, f['fty'])
        if f.get('rect') and level == 'typed':
            inst = '%s::%s %s' % (tkey(f['rect']), s.name, f['fty'])
        if level == 'typed':
            inst = '[typed%s] %s' % (label, inst)
        elif label:
            inst = '[%s] %s' % (label.strip(), inst)
        loc = tu.fn_loc(f)
        if fam is None:
            deferred.append((inst, loc, s.name, f, file))
            continue
        (fams if level == 'pattern' else fams_typed)[fam] += 1
        if fn is None:
            continue
        if tu.body(f) is None:
            continue
        v = FnView(tu, f)
        res = Res()
        try:
            inl = Inliner(tu, f, v, lambda g: tu.fn_file(g) in (RANGE_H, BOX_H, AFF_H) and
                          classify(tu, g, signature(tu, g), tu.fn_file(g))[0] is None)
            v.inl = inl
            # range_t(lower, upper) stores its arguments in the fields of those names (R-C05-2 init-*): a local range whose fields
            # are assigned one by one has the value range_t(<lower>, <upper>)
            v.fields_of = lambda ty: (LO, HI) if (ty or '').startswith(('range_t<', 'box_t<')) else None
            v._body = inl.stmts(list(v.body()))
            fn(res, s, v)
        except Exception:
            import traceback
            ctx.undecided(RULE_OF.get(fam, R1), inst, 'internal error while analysing: %s' % traceback.format_exc(limit=4), loc)
            continue
        if not res.items:
            ctx.undecided(RULE_OF.get(fam, R1), inst, 'family checker produced no result', loc)
        if v.asserts:
            check_asserts(res, s, v, inl, s.name)
        if level == 'typed' and not any(it[0] != 'ok' for it in res.items):
            resolved_callees(res, tu, f, v, RULE_OF.get(fam, R1))
        if level == 'typed' and fam in ('size/center', 'area/volume', 'scale/translate'):
            exact_on_integers(res, tu, f, s, s.name)
        ks = keysig(s)
        counts[level] += 1
        decided = all(it[0] == 'ok' for it in res.items)
        for hid in inl.used | v.lambdas:
            callers.append((hid, inst, decided))
        for status, rule, detail, kd in res.items:
            if status == 'ok':
                ctx.ok(rule, inst, detail, loc)
            elif status == 'undecided':
                ctx.undecided(rule, inst, detail, loc)
            else:
                ctx.violation(rule, inst, detail, loc, key='%s|%s|%s|%s' % (rule, file, ks, kd))
    # functions the classifier does not know: a helper takes the verdict of the classified functions it was inlined into
    for inst, loc, name, f, file in deferred:
        users = [(ci, okk) for hid, ci, okk in callers if hid == f['id']]
        if users and all(okk for _, okk in users):
            ctx.ok(R1, inst, 'helper function: inlined into %s, which %s decided with the helper body in place' % (
                ', '.join(sorted({ci for ci, _ in users})[:3]), 'is' if len(users) == 1 else 'are'), loc)
            fams['helper (decided through its callers)'] += 1
        else:
            uncl += 1
            why = 'the functions that call it are not decided' if users else 'no classified function uses it'
            ctx.undecided(R1, inst, 'function of %s not classified into any family (%s): extend the classifier' % (file, why), loc)
    return fams, fams_typed, uncl, counts


def run(ctx):
    ctx.describe(R1, 'closedness: contains == for all c not(t<lo) and not(hi<t); empty == exists c hi<lo; disjoint == exists c '
                     'a.hi<b.lo or b.hi<a.lo; touchingOrOverlapping == not disjoint; == compares both bounds (canonical truth tables)')
    ctx.describe(R2, 'lattice shape: extend = min into lower / max into upper; empty range = (+inf identity, -inf identity); '
                     'intersectionOf = (max of lowers, min of uppers); clamp; constructors / views fill lower then upper')
    ctx.describe(R3, 'size = upper-lower, center = (lower+upper)/2, area, volume, scale, translate equal their definitions as '
                     'polynomials over the bounds')
    ctx.describe(R7, 'assert() predicates in range/box functions hold for every non-empty argument (they are live in every build '
                     'without NDEBUG; the front end parses with -UNDEBUG so they are visible)')
    ctx.describe(R4, 'xfmBounds extends an empty box by xfmPoint(m, corner) for exactly the 8 corners (lower|upper)^3, every '
                     'coordinate in its own slot')
    ctx.describe(R5, 'intersectRayBox is the slab idiom: per-axis (bound-org)*rcp_safe(dir), entry = max over axes of the nearer '
                     'value and tRange.lower, exit = min of the farther value and tRange.upper')
    ctx.assume('anyLessThan / min / max / operator- / reduce_min / reduce_max on vec_t are component-wise as decided by C04')
    ctx.assume('NaN bounds are outside the quantifier of C05 (order atoms are evaluated over totally ordered values)')
    jobs = [dict(unit='drivers/c05_box.cpp', config='TBB')]
    if ctx.tier == 'thorough':
        jobs.append(dict(unit='drivers/c05_box.cpp', config='TBB', std='gnu++17'))
        jobs.append(dict(unit='drivers/c05_box.cpp', config='DEBUG', simd=False))
    tus = ctx.front.parse_many(jobs)
    for i, tu in enumerate(tus):
        label = '' if i == 0 else ' ' + ('%s%s' % (jobs[i].get('std', ''), '' if jobs[i].get('simd', True) else 'NO_SIMD'))
        fams, fams_typed, uncl, counts = analyse(ctx, tu, label)
        nl = layout(ctx, tu)
        if i == 0:
            ctx.note('range.h/box.h/constants.h/AffineSpace.h: template patterns and non-template functions by family: %s; '
                     'unclassified: %d' % ('; '.join('%d x %s' % (c, k) for k, c in sorted(fams.items())), uncl))
            ctx.note('typed instantiations by family: %s; %d range_t layouts' % (
                '; '.join('%d x %s' % (c, k) for k, c in sorted(fams_typed.items())), nl))
            ctx.extra['families'] = dict(fams)
            ctx.extra['families_typed'] = dict(fams_typed)
            per_rule = collections.Counter(o['rule'] for o in ctx.obl)
            for r, mn, why in ((R1, 45, 'predicates: 9 patterns + typed instances'), (R2, 140, 'constructors, extend, clamp, '
                               'intersectionOf, 24 tag conversions, layouts'), (R3, 60, 'size/center/area/volume/scale/translate'),
                               (R4, 2, 'xfmBounds pattern + typed instance'), (R5, 3, 'intersectRayBox pattern + 2 typed instances')):
                ctx.floor(r, per_rule[r], mn, why)
            ctx.floor('patterns', counts['pattern'], 55, 'functions of range.h/box.h + tag conversions + xfmBounds on the pinned tree')
    from rules.C04 import ir_identities
    ctx.describe(R6, 'IR cross-check: range/box operations compiled through the API (LLVM IR value graph, int and float '
                     'instantiations, dimensions 1-4) equal the per-axis closed-set definition written in the driver')
    def pre(ident, slot):
        # clamp is specified on non-empty ranges (lower <= upper): both accepted forms agree exactly there
        from rkstatic import irnorm
        m = re.match(r'out\[(\d+)\]$', slot)
        if not ident.startswith('clamp_') or not m:
            return []
        lo, hi = irnorm.sym('lo[%s]' % m.group(1)), irnorm.sym('hi[%s]' % m.group(1))
        return [irnorm.ilit('sle', lo, hi) if ident.endswith('i') else irnorm.flit('ole', lo, hi)]
    ctx.assume('clamp() is specified on non-empty ranges (lower <= upper per axis); on an inverted range the two accepted '
               'forms max(lower, min(t, upper)) and min(upper, max(t, lower)) differ and neither is a nearest point')
    ir_identities(ctx, R6, 'drivers/c05_alg_box.cpp', RANGE_H, 100, precondition=pre)
    for comp in (['clang++'] + (['g++'] if ctx.tier == 'thorough' else [])):
        rc, err = ctx.front.compile_check('witness/c05_layout.cpp', compiler=comp)
        inst = 'witness/c05_layout.cpp [%s]' % comp
        if rc == 0:
            ctx.ok(R2, inst, 'static_asserts: lower at offset 0, upper right after it, box_t is range_t<vec_t>; the infinity tags '
                             'convert to numeric_limits identities (constexpr-free: types only)', 'verif:witness/c05_layout.cpp')
        else:
            m = re.findall(r'c05_layout\.cpp:(\d+):\d+: error: (.*)', err)
            if m and all('static_assert' in x[1] or 'static assertion' in x[1] for x in m):
                for ln, msg in m[:5]:
                    ctx.violation(R2, inst, 'layout witness fails: %s' % msg, 'verif:witness/c05_layout.cpp:%s' % ln,
                                  key='%s|%s|witness|%s' % (R2, RANGE_H, re.sub(r'\s+', ' ', msg)[:80]))
            else:
                ctx.broken('witness/c05_layout.cpp does not compile with %s:\n%s' % (comp, err[-1500:]))
    from rkstatic import selftest
    selftest.run(ctx)
